"""Evaluate correspondence cases inside Coq: the harness writes the inputs the
implementation ran *and the observations it made*; Coq evaluates the model and
prints only (count, indices of mismatching cases)."""
import re
from harness import coqtools

REPORT = re.compile(r"=\s*\(\s*(\d+)(?:%nat)?\s*,\s*\[([^\]]*)\]\s*\)", re.S)


def eval_cases(name, header, ok_fun, case_terms, shard=400, timeout=900, ctype=None):
    """case_terms: list of Coq terms (strings).  Returns (n_evaluated,
    [global indices of mismatches], [error logs]).  Cases are dealt to the
    shards by decreasing size so that the shards take about equally long."""
    n = len(case_terms)
    if n == 0:
        return 0, [], []
    nshards = max(1, -(-n // shard))
    total_len = sum(len(t) for t in case_terms)
    nshards = max(nshards, min(12, total_len // 200000))   # spread heavy literals
    order = sorted(range(n), key=lambda i: -len(case_terms[i]))
    groups = [[] for _ in range(nshards)]
    loads = [0] * nshards
    for i in order:
        j = loads.index(min(loads))
        groups[j].append(i)
        loads[j] += len(case_terms[i]) + 200
    groups = [sorted(g) for g in groups if g]
    items = []
    for gi, g in enumerate(groups):
        text = header + "\nDefinition cases%s := [\n" % ((" : list (%s)" % ctype) if ctype else "") \
            + ";\n".join(case_terms[i] for i in g) + "\n].\n" \
            + "Eval vm_compute in (report %s cases).\n" % ok_fun
        items.append(("%s_%d" % (name, gi), text))
    res = coqtools.run_cases_parallel(items, timeout=timeout)
    total, bad, errs = 0, [], []
    for (nm, rc, out), g in zip(res, groups):
        m = REPORT.search(out)
        if rc != 0 or not m:
            errs.append("%s: rc=%s %s" % (nm, rc, out[-1500:]))
            continue
        total += int(m.group(1))
        idx = [int(x) for x in m.group(2).replace("%nat", "").split(";") if x.strip()]
        bad += [g[i] for i in idx]
    return total, sorted(bad), errs


def z(n):
    """Z literal; hexadecimal for big numbers (decimal parsing is quadratic)."""
    if -65536 < n < 65536:
        return "(%d)" % n
    return "(%s0x%x)" % ("-" if n < 0 else "", abs(n))
