"""Evaluate correspondence cases inside Coq: the harness writes the inputs the
implementation ran *and the observations it made*; Coq evaluates the model and
prints only (count, indices of mismatching cases)."""
import re
from harness import coqtools

REPORT = re.compile(r"=\s*\(\s*(\d+)(?:%nat)?\s*,\s*\[([^\]]*)\]\s*\)", re.S)


def eval_cases(name, header, ok_fun, case_terms, shard=400, timeout=900, ctype=None):
    """case_terms: list of Coq terms (strings).  Returns (n_evaluated,
    [global indices of mismatches], [error logs])."""
    items = []
    for s in range(0, len(case_terms), shard):
        chunk = case_terms[s:s + shard]
        text = header + "\nDefinition cases%s := [\n" % ((" : list (%s)" % ctype) if ctype else "") + ";\n".join(chunk) + "\n].\n" \
            + "Eval vm_compute in (report %s cases).\n" % ok_fun
        items.append(("%s_%d" % (name, s), text))
    res = coqtools.run_cases_parallel(items, timeout=timeout)
    total, bad, errs = 0, [], []
    for (nm, rc, out), s in zip(res, range(0, len(case_terms), shard)):
        m = REPORT.search(out)
        if rc != 0 or not m:
            errs.append("%s: rc=%s %s" % (nm, rc, out[-1500:]))
            continue
        total += int(m.group(1))
        idx = [int(x) for x in m.group(2).replace("%nat", "").split(";") if x.strip()]
        bad += [s + i for i in idx]
    return total, bad, errs


def z(n):
    """Z literal; hexadecimal for big numbers (decimal parsing is quadratic)."""
    if -65536 < n < 65536:
        return "(%d)" % n
    return "(%s0x%x)" % ("-" if n < 0 else "", abs(n))
