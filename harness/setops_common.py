"""Shared by C10 / C12: build operands of every kind for a family, run the
module-level set functions, canonicalise the result."""
from harness import caseutil
from harness.families import fam, sizes, BOUNDS

Z = caseutil.z
HDR = ("From Coq Require Import ZArith List.\nFrom BT Require Import Model.CaseUtil Model.SetOps.\n"
       "Import ListNotations.\nOpen Scope Z_scope.\n")

BT_KINDS = ["Set", "TreeSet", "Bucket", "BTree"]
ITER_KINDS = ["list", "tuple", "gen", "dictkeys", "keysview", "valuesview"]


class Env:
    def __init__(self, famname, impl, keymode=None):
        self.f = fam(famname)
        self.impl = impl
        self.km = self.f.keymap(keymode)
        self.vm = self.f.valmap()
        self.numeric = self.f.vk in BOUNDS or self.f.vk == "F"
        self.variant = "plain"      # "evicted": container operands are stored and ghosts; "subclass": instances of subclasses
        self._subs = {}

    def ccls(self, kind):
        cls = self.f.cls(kind, self.impl)
        if self.variant == "subclass":
            if kind not in self._subs:
                self._subs[kind] = type("Sub" + cls.__name__, (cls,), {})
            return self._subs[kind]
        return cls

    def val(self, j):
        """model value -> family value; numeric families use the number itself"""
        if self.f.vk in BOUNDS:
            return j
        if self.f.vk == "F":
            return float(j)
        return self.vm.v(j)

    def unval(self, v):
        if self.f.vk in BOUNDS:
            return v
        if self.f.vk == "F":
            assert float(v) == int(v)
            return int(v)
        return self.vm.iv(v)

    def build(self, spec):
        """spec: ('none',) | (kind, keys [, values]) -> python operand"""
        kind = spec[0]
        if kind == "none":
            return None
        keys = [self.km.k(k) for k in spec[1]]
        if kind in ("Set", "TreeSet"):
            return self.ccls(kind)(keys)
        if kind in ("Bucket", "BTree"):
            return self.ccls(kind)(list(zip(keys, [self.val(v) for v in spec[2]])))
        if kind == "list":
            return list(keys)
        if kind == "tuple":
            return tuple(keys)
        if kind == "gen":
            return (k for k in keys)
        if kind == "pyset":
            return set(keys)
        if kind == "dictkeys":
            return dict.fromkeys(keys).keys()
        if kind == "keysview":
            # the lazy keys() sequence of a tree (sorted, duplicate-free)
            t = self.f.cls("BTree", self.impl)([(k, self.val(0)) for k in keys])
            self._keep = t
            return t.keys()
        if kind == "valuesview":
            # the lazy values() sequence of a tree whose VALUES are the wanted elements: unsorted, with repeats
            # (only where the value type can hold a key; otherwise a plain list)
            if self.f.vk == "O" or self.f.vk == self.f.kk:
                try:
                    t = self.f.cls("BTree", self.impl)([(self.km.k(i), k) for i, k in enumerate(keys)])
                    self._keep = t
                    return t.values()
                except TypeError:
                    return list(keys)
            return list(keys)
        raise ValueError(kind)

    def snapshot(self, spec, obj):
        if spec[0] in ("Set", "TreeSet"):
            return list(obj)
        if spec[0] in ("Bucket", "BTree"):
            return list(obj.items())
        if spec[0] in ("list", "tuple"):
            return list(obj)
        if spec[0] == "pyset":
            return frozenset(obj)
        return None

    def canon(self, r, a, b):
        if r is None:
            return ("none",)
        if r is a:
            return ("op1",)
        if r is b:
            return ("op2",)
        tn = type(r).__name__
        want_set = self.f.cls("Set", self.impl)
        want_map = self.f.cls("Bucket", self.impl)
        if type(r) is want_set:
            return ("set", [self.km.ik(k) for k in r])
        if type(r) is want_map:
            return ("map", [(self.km.ik(k), self.unval(v)) for k, v in r.items()])
        return ("badtype", tn)

    def call(self, fname, sa, sb, *weights):
        fn = self.f.func(fname, self.impl)
        cl = [self.f.cls(k, self.impl) for k in ("BTree", "TreeSet")]
        with sizes(cl, 3, 3):
            a, b = self.build(sa), self.build(sb)
            before = (self.snapshot(sa, a), self.snapshot(sb, b))
            if self.variant == "evicted":
                from harness.minijar import Storage, Jar
                jar = Jar(Storage())
                for o in (a, b):
                    if hasattr(o, "_p_oid"):
                        jar.add(o)
                jar.commit()
                jar.minimize()
            try:
                r = fn(a, b, *weights)
            except TypeError:
                return ("TypeError",), None, True
            except Exception as e:  # noqa
                return ("other", type(e).__name__), None, True
            after = (self.snapshot(sa, a), self.snapshot(sb, b))
            unchanged = before == after
            if weights or fname.startswith("weighted"):
                w, r = r
                if self.f.vk == "F":
                    w = int(w) if float(w) == int(w) else w
                return self.canon(r, a, b), w, unchanged
            return self.canon(r, a, b), None, unchanged


def opnd_term(spec):
    k = spec[0]
    if k == "none":
        return "PNone"
    if k in ("Set", "TreeSet"):
        return "(PSet [%s])" % "; ".join(Z(x) for x in spec[1])
    if k in ("Bucket", "BTree"):
        return "(PMap [%s])" % "; ".join("KV %s %s" % (Z(a), Z(b)) for a, b in zip(spec[1], spec[2]))
    return "(PIter [%s])" % "; ".join(Z(x) for x in spec[1])


def res_term(r):
    if r[0] == "none":
        return "XNone"
    if r[0] == "op1":
        return "XOp1"
    if r[0] == "op2":
        return "XOp2"
    if r[0] == "set":
        return "(XSet [%s])" % "; ".join(Z(x) for x in r[1])
    if r[0] == "map":
        return "(XMap [%s])" % "; ".join("KV %s %s" % (Z(a), Z(b)) for a, b in r[1])
    if r[0] == "TypeError":
        return "XTypeError"
    return "XOther"


def gen_keys(rng, shape, u):
    """returns (keysA, keysB) sorted unique lists with a given relation"""
    n = rng.choice([0, 1, 2, 3, 5, 8, 13])
    m = rng.choice([0, 1, 2, 3, 5, 8, 13])
    pool = list(range(u))
    if shape == "disjoint":
        rng.shuffle(pool)
        a, b = pool[:n], pool[n:n + m]
    elif shape == "equal":
        a = rng.sample(pool, min(n, u)); b = list(a)
    elif shape == "nested":
        a = rng.sample(pool, min(max(n, m), u)); b = rng.sample(a, min(len(a), min(n, m)))
        if rng.random() < 0.5:
            a, b = b, a
    elif shape == "alternating":
        a = [x for x in pool[:2 * n] if x % 2 == 0]; b = [x for x in pool[:2 * m] if x % 2 == 1]
    else:
        a = rng.sample(pool, min(n, u)); b = rng.sample(pool, min(m, u))
    return sorted(a), sorted(b)


SHAPES = ["disjoint", "equal", "nested", "alternating", "overlap", "overlap"]


def gen_operand(rng, keys, kinds, maxval=5, vlo=0):
    kind = rng.choice(kinds)
    if kind == "none":
        return ("none",)
    if kind in ("Bucket", "BTree"):
        return (kind, list(keys), [rng.randint(vlo, maxval) for _ in keys])
    if kind in ("Set", "TreeSet"):
        return (kind, list(keys))
    ks = list(keys)
    if kind != "dictkeys":
        if rng.random() < 0.6 and ks:   # repeat some elements
            ks += [rng.choice(ks) for _ in range(rng.randint(1, 3))]
        rng.shuffle(ks)
    return (kind, ks)
