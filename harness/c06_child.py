"""Runs with PURE_PYTHON=1 (no C extension): loads pickles written by the C
extension, checks them, replays follow-up calls, and reports its own pickles
of the same histories.  stdin: one JSON job per line; stdout: one JSON result per line."""
import json
import pickle
import sys

sys.path.insert(0, "/verif")
from harness.treelib import TreeEnv, walk_invariants  # noqa: E402


def main():
    import BTrees.OOBTree
    assert BTrees.OOBTree.OOBTree is BTrees.OOBTree.OOBTreePy, "C extension is active in the child"
    for line in sys.stdin:
        job = json.loads(line)
        env = TreeEnv(job["family"], job["kind"], "Py", job["mode"])
        ml, mi = job["sizes"]
        res = {"id": job["id"], "loads": [], "dumps": {}}
        calls = [tuple(tuple(x) if isinstance(x, list) and x and isinstance(x[0], list) else x for x in c) for c in job["calls"]]
        calls = [(c[0], [tuple(p) for p in c[1]], c[2]) if c[0] == "update" else c for c in calls]
        with env.sized(ml, mi):
            t = env.new()
            for c in calls:
                env.call(t, c)
            for proto in range(6):
                res["dumps"][str(proto)] = pickle.dumps(t, proto).hex()
            for proto, hx in job["pickles"].items():
                try:
                    o = pickle.loads(bytes.fromhex(hx))
                    ok = type(o) is env.cls
                    items = [env.km.ik(k) for k in o] if env.setlike else [[env.km.ik(k), env.vm.iv(v)] for k, v in o.items()]
                    sound = True
                    if job["kind"] in ("BTree", "TreeSet"):
                        o._check()
                        sound = walk_invariants(env, o) == []
                    # usable: follow-up calls behave as on the original
                    outs = [list(env.call(o, tuple(c))) for c in job["followup"]]
                    res["loads"].append({"proto": proto, "type_ok": ok, "items": items, "sound": sound, "outs": outs})
                except Exception as e:  # noqa
                    res["loads"].append({"proto": proto, "error": repr(e)[:200]})
        print(json.dumps(res))
        sys.stdout.flush()


main()
