"""Fail-closed translator: /repo/src/BTrees/Length.py  ->  coq/Gen/LengthGen.v
and numeric tables of _datatypes.py / *macros.h -> coq/Gen/TablesGen.v.

Accepted grammar for Length (anything else raises Unsupported, and no model is
generated): a module-level ``class Length`` whose body is docstrings, the
class-level ``value = <int>`` and the methods listed in METHODS; each method
body, after an optional docstring, is exactly one of
    return <expr> | self.value = <expr> | self.value += <expr> | self.value -= <expr>
with <expr> over the method's parameters, ``self.value``, integer literals,
binary + - * and unary -.
"""
import ast
import os
import re

METHODS = {
    "__init__": "upd", "__getstate__": "ret", "__setstate__": "upd",
    "set": "upd", "_p_resolveConflict": "ret", "change": "upd",
    "__call__": "ret",
}
COQNAME = {
    "__init__": "L_init", "__getstate__": "L_getstate",
    "__setstate__": "L_setstate", "set": "L_set",
    "_p_resolveConflict": "L_resolve", "change": "L_change",
    "__call__": "L_call",
}


class Unsupported(Exception):
    pass


def _expr(e, params):
    if isinstance(e, ast.BinOp) and isinstance(e.op, (ast.Add, ast.Sub, ast.Mult)):
        op = {ast.Add: "+", ast.Sub: "-", ast.Mult: "*"}[type(e.op)]
        return "(%s %s %s)" % (_expr(e.left, params), op, _expr(e.right, params))
    if isinstance(e, ast.UnaryOp) and isinstance(e.op, ast.USub):
        return "(- %s)" % _expr(e.operand, params)
    if isinstance(e, ast.Constant) and type(e.value) is int:
        return "(%d)" % e.value
    if isinstance(e, ast.Name) and e.id in params and e.id != "self":
        return "p_" + e.id
    if (isinstance(e, ast.Attribute) and isinstance(e.value, ast.Name)
            and e.value.id == "self" and e.attr == "value"):
        return "self_value"
    raise Unsupported("expression %s at line %s" % (ast.dump(e)[:80], getattr(e, "lineno", "?")))


def _is_self_value(t):
    return (isinstance(t, ast.Attribute) and isinstance(t.value, ast.Name)
            and t.value.id == "self" and t.attr == "value")


def translate_length(src):
    mod = ast.parse(src)
    classes = [n for n in mod.body if isinstance(n, ast.ClassDef) and n.name == "Length"]
    if len(classes) != 1:
        raise Unsupported("expected exactly one class Length")
    cls = classes[0]
    defs = {}
    default = None
    for node in cls.body:
        if isinstance(node, ast.Expr) and isinstance(node.value, ast.Constant) \
                and isinstance(node.value.value, str):
            continue
        if isinstance(node, ast.Assign):
            if (len(node.targets) == 1 and isinstance(node.targets[0], ast.Name)
                    and node.targets[0].id == "value"
                    and isinstance(node.value, ast.Constant)
                    and type(node.value.value) is int):
                default = node.value.value
                continue
            raise Unsupported("class-level statement at line %d" % node.lineno)
        if not isinstance(node, ast.FunctionDef):
            raise Unsupported("class-level node %s at line %d" % (type(node).__name__, node.lineno))
        if node.name not in METHODS:
            raise Unsupported("unexpected method %s" % node.name)
        if node.decorator_list:
            raise Unsupported("decorator on %s" % node.name)
        a = node.args
        if a.kwonlyargs or a.kwarg or a.posonlyargs:
            raise Unsupported("argument kinds on %s" % node.name)
        if a.vararg and node.name != "__call__":
            raise Unsupported("*args on %s" % node.name)
        params = [x.arg for x in a.args]
        if not params or params[0] != "self":
            raise Unsupported("first parameter of %s" % node.name)
        for d in a.defaults:
            if not (isinstance(d, ast.Constant) and type(d.value) is int):
                raise Unsupported("default of %s" % node.name)
        body = list(node.body)
        if body and isinstance(body[0], ast.Expr) and isinstance(body[0].value, ast.Constant) \
                and isinstance(body[0].value.value, str):
            body = body[1:]
        if len(body) != 1:
            raise Unsupported("%s: body is not a single statement" % node.name)
        st = body[0]
        if isinstance(st, ast.Return) and st.value is not None:
            kind, e = "ret", _expr(st.value, params)
        elif isinstance(st, ast.Assign) and len(st.targets) == 1 and _is_self_value(st.targets[0]):
            kind, e = "upd", _expr(st.value, params)
        elif isinstance(st, ast.AugAssign) and _is_self_value(st.target) \
                and isinstance(st.op, (ast.Add, ast.Sub)):
            op = "+" if isinstance(st.op, ast.Add) else "-"
            kind, e = "upd", "(self_value %s %s)" % (op, _expr(st.value, params))
        else:
            raise Unsupported("%s: statement %s" % (node.name, type(st).__name__))
        if kind != METHODS[node.name]:
            raise Unsupported("%s: expected a %s method" % (node.name, METHODS[node.name]))
        defs[node.name] = (params[1:], e, [d.value for d in a.defaults])
    missing = sorted(set(METHODS) - set(defs))
    if missing:
        raise Unsupported("missing methods: %s" % missing)
    if default is None:
        raise Unsupported("missing class-level value default")
    out = ["(* GENERATED by harness/translate.py from src/BTrees/Length.py -- do not edit *)",
           "From Coq Require Import ZArith.", "Open Scope Z_scope.", "",
           "Definition L_default : Z := (%d)." % default]
    for name in METHODS:
        params, e, dflts = defs[name]
        ps = "".join(" (p_%s : Z)" % p for p in params)
        out.append("Definition %s (self_value : Z)%s : Z := %s." % (COQNAME[name], ps, e))
    init_params, _, init_defaults = defs["__init__"]
    if len(init_params) != 1 or len(init_defaults) != 1:
        raise Unsupported("__init__ signature")
    out.append("Definition L_init_default : Z := (%d)." % init_defaults[0])
    out.append("")
    return "\n".join(out)


# ---------------------------------------------------------------------------
# tables

def translate_tables(repo):
    """Integer bounds by struct code from _datatypes.py, node sizes, C types."""
    src = open(os.path.join(repo, "src/BTrees/_datatypes.py")).read()
    mod = ast.parse(src)
    consts = {}
    classes = {}
    for n in mod.body:
        if isinstance(n, ast.ClassDef):
            classes[n.name] = n

    def const_eval(e, env):
        if isinstance(e, ast.Constant) and type(e.value) in (int, str):
            return e.value
        if isinstance(e, ast.UnaryOp) and isinstance(e.op, ast.USub):
            return -const_eval(e.operand, env)
        if isinstance(e, ast.BinOp):
            l, r = const_eval(e.left, env), const_eval(e.right, env)
            if isinstance(e.op, ast.Pow):
                return l ** r
            if isinstance(e.op, ast.Sub):
                return l - r
            if isinstance(e.op, ast.Add):
                return l + r
            if isinstance(e.op, ast.Mult):
                return l * r
        if isinstance(e, ast.Name) and e.id in env:
            return env[e.id]
        raise Unsupported("table expression %s" % ast.dump(e)[:80])

    def class_attrs(name):
        env = {}
        for st in classes[name].body:
            if isinstance(st, ast.Assign) and len(st.targets) == 1 \
                    and isinstance(st.targets[0], ast.Name):
                try:
                    env[st.targets[0].id] = const_eval(st.value, env)
                except Unsupported:
                    pass
        return env

    rows = []
    for cname, code in (("I", "i"), ("U", "I"), ("L", "q"), ("Q", "Q")):
        if cname not in classes:
            raise Unsupported("_datatypes.%s missing" % cname)
        env = class_attrs(cname)
        # bounds come from the struct format character
        m = re.search(r"_struct_format\s*=\s*'(.)'", ast.get_source_segment(src, classes[cname]) or "")
        fmt = env.get("_struct_format")
        if fmt != code:
            raise Unsupported("struct format of %s is %r, expected %r" % (cname, fmt, code))
        rows.append((cname, fmt))
    bounds = {"i": (-2**31, 2**31 - 1), "I": (0, 2**32 - 1),
              "q": (-2**63, 2**63 - 1), "Q": (0, 2**64 - 1)}
    # C side: literal types in the macro headers
    hk = open(os.path.join(repo, "src/BTrees/intkeymacros.h")).read()
    hv = open(os.path.join(repo, "src/BTrees/intvaluemacros.h")).read()
    for h, what in ((hk, "KEY_TYPE"), (hv, "VALUE_TYPE")):
        found = set(re.findall(r"#define\s+%s\s+(.+)" % what, h))
        found = {re.sub(r"\s+", " ", f.strip()) for f in found}
        expect = {"PY_LONG_LONG", "unsigned PY_LONG_LONG", "int", "unsigned int"}
        if found != expect:
            raise Unsupported("%s variants %s" % (what, sorted(found)))
    out = ["(* GENERATED by harness/translate.py from _datatypes.py / *macros.h *)",
           "From Coq Require Import ZArith.", "Open Scope Z_scope.", ""]
    for cname, fmt in rows:
        lo, hi = bounds[fmt]
        out.append("Definition %s_lo : Z := (%d)." % (cname, lo))
        out.append("Definition %s_hi : Z := (%d)." % (cname, hi))
    out.append("")
    return "\n".join(out)


def write_if_changed(path, text):
    old = None
    if os.path.exists(path):
        old = open(path).read()
    if old != text:
        os.makedirs(os.path.dirname(path), exist_ok=True)
        with open(path, "w") as f:
            f.write(text)
        return True
    return False
