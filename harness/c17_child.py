"""Child process of the C17 check (runs with MALLOC_CHECK_/MALLOC_PERTURB_ so
that a dangling pointer is likely to crash or abort).  stdin: JSON jobs, one
per line; stdout: one JSON result per line, flushed; the parent treats a dead
child as a failure of the job that was running."""
import json
import sys

sys.path.insert(0, "/verif")
from harness.families import fam, sizes  # noqa: E402


_maps = {}


def build(f, kind, keys, impl="C"):
    cls = f.cls(kind, impl)
    if f.name not in _maps:
        _maps[f.name] = (f.keymap("str" if f.kk == "O" else None), f.valmap())
    km, vm = _maps[f.name]
    t = cls()
    for k in keys:
        if kind in ("Set", "TreeSet"):
            t.add(km.k(k))
        else:
            t[km.k(k)] = vm.v(k % 4)
    return t, km, vm


def contents(t, kind, km, vm):
    if kind in ("Set", "TreeSet"):
        return [km.ik(k) for k in t]
    return [[km.ik(k), vm.iv(v)] for k, v in t.items()]


def do_op(f, kind, t, km, vm, op):
    setlike = kind in ("Set", "TreeSet")
    n = op[0]
    if n == "insert":
        if setlike:
            t.add(km.k(op[1]))
        else:
            t[km.k(op[1])] = vm.v(1)
    elif n == "update":
        t.update([km.k(x) for x in op[1]] if setlike else [(km.k(x), vm.v(2)) for x in op[1]])
    elif n == "iand":
        t &= [km.k(x) for x in op[1]]
    elif n == "setstate":
        other, _, _ = build(f, kind, op[1])
        t.__setstate__(other.__getstate__())
    elif n == "union":
        a, _, _ = build(f, "Set", op[1]); km.k(0)
        return list(f.func("union", "C")(t, a))
    elif n == "intersection":
        a, _, _ = build(f, "Set", op[1])
        return list(f.func("intersection", "C")(t, a))
    elif n == "difference":
        a, _, _ = build(f, "Set", op[1])
        return list(f.func("difference", "C")(t, a))
    elif n == "multiunion":
        a, _, _ = build(f, "Set", op[1])
        return list(f.func("multiunion", "C")([t, a, list(range(3))]))
    elif n == "merge":
        cls = f.cls("Bucket" if not setlike else "Set", "C")
        def st(keys):
            b, _, _ = build(f, "Bucket" if not setlike else "Set", keys)
            return b.__getstate__()
        return cls()._p_resolveConflict(st(op[1]), st(op[1] + [op[2]]), st(op[1] + [op[3]]))
    elif n == "fromBytes":
        b = f.cls("Bucket", "C")()
        return b.fromBytes(op[1].encode("latin1"))
    elif n == "pickle":
        import pickle
        return len(pickle.loads(pickle.dumps(t)))
    return None


def main():
    for line in sys.stdin:
        job = json.loads(line)
        f = fam(job["family"])
        cmod = __import__("BTrees._%sBTree" % job["family"], fromlist=["x"])
        kind, keys, op = job["kind"], job["keys"], job["op"]
        ml, mi = job["sizes"]
        print(json.dumps({"start": job["id"]})); sys.stdout.flush()
        with sizes([f.cls("BTree", "C"), f.cls("TreeSet", "C")], ml, mi):
            # reference run: number of allocations, before/after contents
            t, km, vm = build(f, kind, keys)
            before = contents(t, kind, km, vm)
            cmod._verif_fail_alloc(0)
            try:
                do_op(f, kind, t, km, vm, op)
                ref_exc = None
            except Exception as e:  # noqa
                ref_exc = type(e).__name__
            nalloc = cmod._verif_fail_alloc(0)
            after = contents(t, kind, km, vm)
            res = {"id": job["id"], "nalloc": nalloc, "ref_exc": ref_exc, "fails": []}
            for n in range(1, nalloc + 1):
                t, km, vm = build(f, kind, keys)
                # the key / value OBJECTS the container holds (object families): one more reference each, ours
                objs = []
                if f.kk == "O":
                    objs += list(t.keys())
                if f.vk == "O" and kind in ("Bucket", "BTree"):
                    objs += list(t.values())
                rc_before = [sys.getrefcount(o) for o in objs]
                cmod._verif_fail_alloc(0)
                cmod._verif_fail_alloc(n)
                print(json.dumps({"arm": [job["id"], n]})); sys.stdout.flush()
                try:
                    do_op(f, kind, t, km, vm, op)
                    out = "no-exception"
                except MemoryError:
                    out = "MemoryError"
                except Exception as e:  # noqa
                    out = "other:" + type(e).__name__
                cmod._verif_fail_alloc(0)
                bad = None
                if out != "MemoryError":
                    bad = "not-reported:" + out
                else:
                    try:
                        now = contents(t, kind, km, vm)
                        mutating = op[0] in ("insert", "update", "setstate", "iand")
                        if mutating and op[0] == "update":
                            ok = now[:len(before)] is not None   # a prefix of the update may have been applied item by item
                            allowed = True
                        else:
                            allowed = now == before or now == after
                        if not allowed:
                            bad = "partial-change"
                            if op[0] == "setstate":
                                # (recorded finding F26: the container is emptied) -- it must at least be sound and usable
                                try:
                                    if kind in ("BTree", "TreeSet"):
                                        t._check()
                                    for x in (91, 93, 95, 97, 99, 101, 103):
                                        t.add(km.k(x)) if kind in ("Set", "TreeSet") else t.__setitem__(km.k(x), vm.v(3))
                                    list(t)
                                    t.clear()
                                except AssertionError as e:
                                    bad = "unsound-after-failed-setstate:" + str(e)[:40]
                                except Exception as e:  # noqa
                                    bad = "unusable-after-failed-setstate:" + type(e).__name__
                        elif op[0] not in ("setstate", "iand") and any(a < b for a, b in zip([sys.getrefcount(o) for o in objs], rc_before)):
                            # a DROP only: a completed split legitimately adds a reference (the key becomes a separator)
                            # (every object stored before is still stored: no operation but __setstate__ and &= removes one)
                            d = [a - b for a, b in zip([sys.getrefcount(o) for o in objs], rc_before) if a != b]
                            bad = "refcount-changed:%d stored object(s) changed their reference count by %r although each of them is still stored exactly as before" % (len(d), sorted(set(d)))
                        else:
                            if kind in ("BTree", "TreeSet"):
                                t._check()
                            # follow-up workload on the same container
                            for x in (91, 93, 95, 97):
                                if kind in ("Set", "TreeSet"):
                                    t.add(km.k(x))
                                else:
                                    t[km.k(x)] = vm.v(3)
                            for x in (91, 93):
                                if kind in ("Set", "TreeSet"):
                                    t.remove(km.k(x))
                                else:
                                    del t[km.k(x)]
                            list(t)
                            if kind in ("BTree", "TreeSet"):
                                t._check()
                            t.clear()
                            del t
                    except AssertionError as e:
                        bad = "unsound:" + str(e)[:40]
                    except Exception as e:  # noqa
                        bad = "followup-raises:" + type(e).__name__
                if bad:
                    res["fails"].append([n, bad])
            print(json.dumps(res)); sys.stdout.flush()


main()
