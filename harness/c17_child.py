"""Child process of the C17 check (runs with MALLOC_CHECK_/MALLOC_PERTURB_ so
that a dangling pointer is likely to crash or abort).  stdin: JSON jobs, one
per line; stdout: one JSON result per line, flushed; the parent treats a dead
child as a failure of the job that was running."""
import json
import sys

sys.path.insert(0, "/verif")
from harness.families import fam, sizes  # noqa: E402


_maps = {}
_keep = []


def build(f, kind, keys, impl="C"):
    cls = f.cls(kind, impl)
    if f.name not in _maps:
        _maps[f.name] = (f.keymap("str" if f.kk == "O" else None), f.valmap())
    km, vm = _maps[f.name]
    t = cls()
    for k in keys:
        if kind in ("Set", "TreeSet"):
            t.add(km.k(k))
        else:
            t[km.k(k)] = vm.v(k % 4)
    return t, km, vm


def contents(t, kind, km, vm):
    def ik(k):
        try:
            return km.ik(k)
        except KeyError:
            return repr(k)          # a key the adapter did not produce (fromBytes)

    def iv(v):
        try:
            return vm.iv(v)
        except KeyError:
            return repr(v)
    if kind in ("Set", "TreeSet"):
        return [ik(k) for k in t]
    return [[ik(k), iv(v)] for k, v in t.items()]


def loaded_nodes_and_holders(t):
    """(nodes, holders): every node reachable from t through LOADED nodes only (ghosts are not activated), and
    for each node id the number of references loaded nodes hold on it (child slots, firstbucket, next)"""
    nodes, holders = {}, {}

    def hold(o):
        if o is not None:
            nodes[id(o)] = o
            holders[id(o)] = holders.get(id(o), 0) + 1

    def walk(n):
        nodes[id(n)] = n
        if n._p_changed is None:          # a ghost: it holds nothing
            return
        st = n.__getstate__()
        if st is None:
            return
        if type(n) is not type(t):        # a leaf
            if len(st) > 1:
                hold(st[1])
            return
        if len(st) == 1:                  # embedded leaf: the node holds it as child 0 and as firstbucket
            leaf = n._firstbucket
            hold(leaf); hold(leaf)
            walk(leaf)
            return
        for c in st[0][0::2]:
            hold(c)
            walk(c)
        hold(st[1])
    walk(t)
    return nodes, holders


def do_op(f, kind, t, km, vm, op):
    setlike = kind in ("Set", "TreeSet")
    n = op[0]
    if n == "insert":
        if setlike:
            t.add(km.k(op[1]))
        else:
            t[km.k(op[1])] = vm.v(1)
    elif n == "update":
        t.update([km.k(x) for x in op[1]] if setlike else [(km.k(x), vm.v(2)) for x in op[1]])
    elif n == "iand":
        t &= [km.k(x) for x in op[1]]
    elif n == "setstate":
        other, _, _ = build(f, kind, op[1])
        t.__setstate__(other.__getstate__())
    elif n == "union":
        a, _, _ = build(f, "Set", op[1]); km.k(0)
        return list(f.func("union", "C")(t, a))
    elif n == "intersection":
        a, _, _ = build(f, "Set", op[1])
        return list(f.func("intersection", "C")(t, a))
    elif n == "difference":
        a, _, _ = build(f, "Set", op[1])
        return list(f.func("difference", "C")(t, a))
    elif n in ("wunion", "wintersection"):
        a, _, _ = build(f, op[2], op[1])
        w, r = f.func("weightedUnion" if n == "wunion" else "weightedIntersection", "C")(t, a, 2, 3)
        return [w, list(r.items()) if hasattr(r, "items") else list(r)]
    elif n == "multiunion":
        a, _, _ = build(f, "Set", op[1])
        if getattr(t, "_p_jar", None) is None:
            # the operand lives in a database (so that a pin left behind is visible as the sticky state)
            from harness.minijar import Storage, Jar
            jar = Jar(Storage())
            jar.add(t)
            jar.commit()
            _keep.append(jar)
        return list(f.func("multiunion", "C")([t, a, list(range(3))]))
    elif n == "merge":
        cls = f.cls("Bucket" if not setlike else "Set", "C")
        def st(keys):
            b, _, _ = build(f, "Bucket" if not setlike else "Set", keys)
            return b.__getstate__()
        return cls()._p_resolveConflict(st(op[1]), st(op[1] + [op[2]]), st(op[1] + [op[3]]))
    elif n == "fromBytes":
        # on the live container (it may already hold keys: the vectors are then re-allocated, not allocated)
        return t.fromBytes(op[1].encode("latin1"))
    elif n == "insert-evicted":
        # the tree lives in a database and all its nodes are ghosts: the insert has to load them (and a split
        # may have to load a sibling) while allocations fail
        from harness.minijar import Storage, Jar
        jar = Jar(Storage())
        jar.add(t)
        jar.commit()
        jar.minimize()
        _keep.append(jar)
        if setlike:
            t.add(km.k(op[1]))
        else:
            t[km.k(op[1])] = vm.v(1)
    elif n == "pickle":
        import pickle
        return len(pickle.loads(pickle.dumps(t)))
    return None


def main():
    for line in sys.stdin:
        job = json.loads(line)
        f = fam(job["family"])
        cmod = __import__("BTrees._%sBTree" % job["family"], fromlist=["x"])
        kind, keys, op = job["kind"], job["keys"], job["op"]
        ml, mi = job["sizes"]
        print(json.dumps({"start": job["id"]})); sys.stdout.flush()
        with sizes([f.cls("BTree", "C"), f.cls("TreeSet", "C")], ml, mi):
            # reference run: number of allocations, before/after contents
            t, km, vm = build(f, kind, keys)
            before = contents(t, kind, km, vm)
            cmod._verif_fail_alloc(0)
            try:
                do_op(f, kind, t, km, vm, op)
                ref_exc = None
            except Exception as e:  # noqa
                ref_exc = type(e).__name__
            nalloc = cmod._verif_fail_alloc(0)
            after = contents(t, kind, km, vm)
            res = {"id": job["id"], "nalloc": nalloc, "ref_exc": ref_exc, "fails": []}
            for n in range(1, nalloc + 1):
                t, km, vm = build(f, kind, keys)
                # the key / value OBJECTS the container holds (object families): one more reference each, ours
                objs = []
                if f.kk == "O":
                    objs += list(t.keys())
                if f.vk == "O" and kind in ("Bucket", "BTree"):
                    objs += list(t.values())
                rc_before = [sys.getrefcount(o) for o in objs]
                cmod._verif_fail_alloc(0)
                cmod._verif_fail_alloc(n)
                print(json.dumps({"arm": [job["id"], n]})); sys.stdout.flush()
                try:
                    do_op(f, kind, t, km, vm, op)
                    out = "no-exception"
                except MemoryError:
                    out = "MemoryError"
                except Exception as e:  # noqa
                    out = "other:" + type(e).__name__
                cmod._verif_fail_alloc(0)
                bad = None
                if out != "MemoryError":
                    bad = "not-reported:" + out
                else:
                    pinned = getattr(t, "_p_state", 0) == 2      # (looked at before anything else touches the container)
                    try:
                        now = contents(t, kind, km, vm)
                        mutating = op[0] in ("insert", "update", "setstate", "iand", "fromBytes", "insert-evicted")
                        if mutating and op[0] == "update":
                            ok = now[:len(before)] is not None   # a prefix of the update may have been applied item by item
                            allowed = True
                        else:
                            allowed = now == before or now == after
                        if pinned:
                            bad = "operand-left-pinned:the container is still in the sticky state after the failed call"
                        if bad is None and op[0] == "insert-evicted" and kind in ("BTree", "TreeSet"):
                            # reference accounting of the NODES: each must own at least the references the loaded
                            # part of the tree holds on it (an over-release would free it while still in the tree)
                            nodes, holders = loaded_nodes_and_holders(t)
                            short = [(type(o).__name__, sys.getrefcount(o) - 3, holders.get(i, 0)) for i, o in nodes.items()
                                     if o is not t and sys.getrefcount(o) - 3 < holders.get(i, 0)]
                            # (-3: the dict 'nodes', the loop variable, getrefcount's argument)
                            if short:
                                bad = "node-short-of-references:%r" % (short[:3],)
                            del nodes, holders
                        if bad:
                            pass
                        elif not allowed:
                            bad = "partial-change"
                            if op[0] == "setstate":
                                # (recorded finding F26: the container is emptied) -- it must at least be sound and usable
                                try:
                                    if kind in ("BTree", "TreeSet"):
                                        t._check()
                                    for x in (91, 93, 95, 97, 99, 101, 103):
                                        t.add(km.k(x)) if kind in ("Set", "TreeSet") else t.__setitem__(km.k(x), vm.v(3))
                                    list(t)
                                    t.clear()
                                except AssertionError as e:
                                    bad = "unsound-after-failed-setstate:" + str(e)[:40]
                                except Exception as e:  # noqa
                                    bad = "unusable-after-failed-setstate:" + type(e).__name__
                        elif op[0] not in ("setstate", "iand", "fromBytes", "insert-evicted") and any(a < b for a, b in zip([sys.getrefcount(o) for o in objs], rc_before)):
                            # a DROP only: a completed split legitimately adds a reference (the key becomes a separator)
                            # (every object stored before is still stored: no operation but __setstate__ and &= removes one)
                            d = [a - b for a, b in zip([sys.getrefcount(o) for o in objs], rc_before) if a != b]
                            bad = "refcount-changed:%d stored object(s) changed their reference count by %r although each of them is still stored exactly as before" % (len(d), sorted(set(d)))
                        else:
                            if kind in ("BTree", "TreeSet"):
                                t._check()
                            # follow-up workload on the same container
                            for x in (91, 93, 95, 97):
                                if kind in ("Set", "TreeSet"):
                                    t.add(km.k(x))
                                else:
                                    t[km.k(x)] = vm.v(3)
                            for x in (91, 93):
                                if kind in ("Set", "TreeSet"):
                                    t.remove(km.k(x))
                                else:
                                    del t[km.k(x)]
                            list(t)
                            if kind in ("BTree", "TreeSet"):
                                t._check()
                            t.clear()
                            del t
                    except AssertionError as e:
                        bad = "unsound:" + str(e)[:40]
                    except Exception as e:  # noqa
                        bad = "followup-raises:" + type(e).__name__
                if bad:
                    res["fails"].append([n, bad])
            print(json.dumps(res)); sys.stdout.flush()


main()
