"""C12 -- weightedUnion / weightedIntersection follow the documented formula."""
from harness import caseutil
from harness.families import BOUNDS
from harness.setops_common import (Env, HDR, BT_KINDS, SHAPES, gen_keys, gen_operand,
                                   opnd_term, res_term)

PROPS_FILE = "Props/C12.v"
MODEL_FILES = ["Model/SetOps.v"]
RULE = ("operand pairs over {Set, TreeSet, Bucket, BTree (multi-leaf), None} x key relations x sizes 0..13, "
        "values and weights small and (separate stream) at the value type's limits; distinct by "
        "(function, operands, weights); non-trivial = both operands non-None")
ASSUMPTIONS = ["float-valued families are exercised with integer-valued floats below 2^24 so that float32 arithmetic is exact",
               "weights are inside the value type (the C extension parses them with the value type's format)"]

INT_VAL_FAMS = ["II", "IU", "UU", "UI", "LL", "LQ", "QQ", "QL", "OI", "OU", "OL", "OQ"]
FLOAT_VAL_FAMS = ["IF", "UF", "LF", "QF"]
WRAPKIND = {"I": 1, "L": 2, "U": 3, "Q": 4}
Z = caseutil.z


def expect(fname, sa, sb, w1, w2):
    """documented result: (weight, container)"""
    if sa[0] == "none":
        return (0, ("none",)) if sb[0] == "none" else (w2, ("op2",))
    if sb[0] == "none":
        return (w1, ("op1",))

    def asmap(s):
        if s[0] in ("Bucket", "BTree"):
            return dict(zip(s[1], s[2])), True
        return {k: 1 for k in s[1]}, False
    (da, ma), (db, mb) = asmap(sa), asmap(sb)
    keys = sorted(set(da) | set(db)) if fname == "weightedUnion" else sorted(set(da) & set(db))
    if not ma and not mb:
        return (1 if fname == "weightedUnion" else w1 + w2, ("set", keys))
    return (1, ("map", [(k, da.get(k, 0) * w1 + db.get(k, 0) * w2) for k in keys]))


def in_range(vk, exp):
    if vk not in BOUNDS:
        return True
    lo, hi = BOUNDS[vk]
    if not (lo <= exp[0] <= hi):
        return False
    if exp[1][0] == "map":
        return all(lo <= v <= hi for _, v in exp[1][1])
    return True


def run(ctx):
    rng = ctx.rng
    fams = (["II", "LL", "UU", "QQ", "OI", "IF", "OQ", "LF"] if ctx.quick() else INT_VAL_FAMS + FLOAT_VAL_FAMS)
    envs = {}
    for fn in fams:
        for impl in ("C", "Py"):
            envs[(fn, impl)] = Env(fn, impl, "none-int" if fn[0] == "O" else None)
    terms, meta = [], []
    ncase = ctx.n(2500, 200000)
    novf = 0
    for it in range(ncase):
        fname = rng.choice(["weightedUnion", "weightedIntersection"])
        ek = rng.choice(list(envs))
        env = envs[ek]
        vk = env.f.vk
        unsigned = vk in ("U", "Q")
        overflow_stream = vk in BOUNDS and rng.random() < 0.12
        ka, kb = gen_keys(rng, rng.choice(SHAPES), rng.choice([6, 16, 40]))
        kinds = BT_KINDS + (["none"] if rng.random() < 0.15 else [])
        vlo = 0 if unsigned else -6
        sa = gen_operand(rng, ka, kinds, 6, vlo)
        sb = gen_operand(rng, kb, kinds, 6, vlo)
        w1, w2 = (rng.choice([0, 1, 1, 2, 3, 7] + ([] if unsigned else [-1, -4])) for _ in range(2))
        if overflow_stream:
            lo, hi = BOUNDS[vk]
            big = [hi, hi - 1, hi // 2 + 1, hi // 3] + ([] if unsigned else [lo, lo + 1])

            def bump(s):
                if s[0] in ("Bucket", "BTree") and s[1]:
                    vs = list(s[2]); vs[rng.randrange(len(vs))] = rng.choice(big)
                    return (s[0], s[1], vs)
                return s
            sa, sb = bump(sa), bump(sb)
            if rng.random() < 0.5:
                w1 = rng.choice(big)
        exp = expect(fname, sa, sb, w1, w2)
        representable = in_range(vk, exp)
        got, gw, unchanged = env.call(fname, sa, sb, *((w1, w2) if rng.random() < 0.9 or (w1, w2) != (1, 1) else ()))
        ctx.count((fname, ek[0], repr(sa), repr(sb), w1, w2), nontrivial=sa[0] != "none" and sb[0] != "none")
        if not unchanged:
            ctx.oracle_failure("%s:%s:operand-modified" % (ek[1], fname), "operand modified", {"env": ek, "fn": fname, "a": sa, "b": sb, "w": [w1, w2]})
        if (gw, got) != exp:
            if not representable:
                novf += 1
                sig = "%s:weighted:result-not-representable:%s" % (ek[1], "wraps-around" if ek[1] == "C" else "stores-out-of-range-value")
            else:
                sig = "%s:%s:wrong-result" % (ek[1], fname)
            ctx.oracle_failure(sig, "%s %s(%r, %r, %d, %d) -> %r, documented formula gives %r" % (ek, fname, sa, sb, w1, w2, (gw, got), exp),
                               {"env": ek, "fn": fname, "a": sa, "b": sb, "w": [w1, w2], "got": [gw, got], "expected": exp})
        elif not representable:
            # formula value does not fit: equality with the exact value means an out-of-range value was stored
            novf += 1
            ctx.oracle_failure("%s:weighted:result-not-representable:stores-out-of-range-value" % ek[1],
                               "%s %s(%r, %r, %d, %d) stored a value outside the value type: %r" % (ek, fname, sa, sb, w1, w2, (gw, got)),
                               {"env": ek, "fn": fname, "a": sa, "b": sb, "w": [w1, w2], "got": [gw, got]})
        kind = WRAPKIND.get(vk, 0) if ek[1] == "C" else 0
        if isinstance(gw, int) and got[0] not in ("other", "badtype"):
            op = "(%s %s %s)" % ("WWUnion" if fname == "weightedUnion" else "WWInter", Z(w1), Z(w2))
            terms.append("SC %s %d %s %s %s %s" % (op, kind, opnd_term(sa), opnd_term(sb), Z(gw), res_term(got)))
            meta.append((ek, fname, sa, sb, w1, w2, gw, got))
        else:
            ctx.corr_mismatch("weighted result not comparable", {"env": ek, "fn": fname, "a": sa, "b": sb, "w": [w1, w2], "got": repr((gw, got))})
        if len(ctx.samples) < 3 and got[0] == "map" and len(got[1]) > 2:
            ctx.sample({"env": ek, "fn": fname, "a": sa, "b": sb, "w": [w1, w2], "result": [gw, got]})
    total, bad, errs = caseutil.eval_cases("c12", HDR, "setcase_ok", terms, shard=1500, ctype="wsetcase")
    ctx.traces = total
    for e in errs:
        ctx.corr_mismatch("c12 case file", e)
    for i in bad[:5]:
        ctx.corr_mismatch("weighted model vs implementation", {"case": meta[i]})
    ctx.cov["overflow_stream_cases"] = novf
    ctx.cov["families"] = fams


def replay(ctx, data):
    r = data["replay"]
    ek = tuple(r["env"])
    env = Env(ek[0], ek[1], "none-int" if ek[0][0] == "O" else None)
    print(env.call(r["fn"], tuple(r["a"]), tuple(r["b"]), *r["w"]), "expected", r.get("expected"))
    return 0
