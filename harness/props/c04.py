"""C04 -- every change reaches the database: commit + reload reproduces the contents."""
import random as _r

from harness import caseutil
from harness.families import ALL_FAMS
from harness.minijar import Storage, Jar
from harness.treelib import TreeEnv, call_term, out_term, walk_invariants, RefMap
from harness.props.c01 import gen_history

PROPS_FILE = "Props/C04.v"
MODEL_FILES = ["Model/RTree.v", "Model/TreeRun.v", "Model/Persist.v", "Model/PersistSpec.v", "Model/PersistRun.v"]
RULE = ("call histories on a BTree/TreeSet stored through a data manager (harness/minijar.py), cut into "
        "transactions at random points (commit or abort after any call, three serialisation orders), a fresh "
        "reader after every commit; after every call the registered and read-current sets are compared with the "
        "model, after every commit the reader's contents by descent and by the leaf chain; distinct by history; "
        "non-trivial = at least one commit of a tree with >= 2 leaves")
ASSUMPTIONS = ["harness/minijar.py stands in for a ZODB connection (register/readCurrent/setstate/new objects by persistent_id, LIFO/FIFO/reversed write orders)",
               "objects are addressed by their path from the root; registered objects that are no longer part of the tree are only counted"]
Z = caseutil.z
HDR = ("From Coq Require Import ZArith List.\nFrom BT Require Import Model.CaseUtil Model.RTree Model.TreeRun Model.Persist Model.PersistRun.\n"
       "Import ListNotations.\nOpen Scope Z_scope.\n")
SIZES = [(2, 2), (2, 3), (3, 3), (4, 4), (1, 2), (6, 3), (30, 10)]


def paths_of(t, prefix=()):
    """{id(obj): path} for all nodes reachable by descent (leaves included)"""
    out = {id(t): prefix}
    st = t.__getstate__()
    if st is None:
        return out
    if len(st) == 1:
        out[id(t._firstbucket)] = prefix + (0,)
        return out
    data = st[0]
    for j, i in enumerate(range(0, len(data), 2)):
        c = data[i]
        if type(c) is type(t):
            out.update(paths_of(c, prefix + (j,)))
        else:
            out[id(c)] = prefix + (j,)
    return out


def persistent_refs(obj):
    """persistent objects referenced by obj's state"""
    from persistent import Persistent
    out = []

    def walk(x):
        if isinstance(x, Persistent):
            out.append(x)
        elif isinstance(x, (tuple, list)):
            for y in x:
                walk(y)
    walk(obj.__getstate__())
    return out


def plist(ps):
    return "[%s]" % "; ".join("[%s]" % "; ".join("%d%%nat" % x for x in p) for p in ps)


def kvs(l):
    return "[%s]" % "; ".join("KV %s %s" % (Z(k), Z(v)) for k, v in l)


def commit_detecting_f33(jar, t, **kw):
    """jar.commit(); True if the leaf the ROOT embeds received an oid during this commit although the root does not
    reference it (a registered object that left the tree still points at it): finding F33 -- from then on the
    root's record and the leaf's own record can disagree"""
    try:
        st_root = t.__getstate__()
    except Exception:  # noqa
        st_root = None
    emb = t._firstbucket if (st_root is not None and len(st_root) == 1) else None
    had = emb is not None and emb._p_oid is not None
    jar.commit(**kw)
    return emb is not None and not had and emb._p_oid is not None


def f16_condition(env, t, is_root=True):
    """a non-root interior node whose only child is a leaf without oid (the embedded form below the root)"""
    st = t.__getstate__()
    if st is None:
        return False
    if len(st) == 1:
        return not is_root
    data = st[0]
    return any(f16_condition(env, data[i], False) for i in range(0, len(data), 2) if type(data[i]) is type(t))


def run_one(ctx, rng, fn, kind, impl, mode, ml, mi, calls, cuts, order, seed):
    env = TreeEnv(fn, kind, impl, mode)
    setlike = env.setlike
    steps = []
    ref = RefMap()
    committed_ref = {}
    nontrivial = False
    f33 = False
    with env.sized(ml, mi):
        st = Storage()
        jar = Jar(st, order)
        t = env.new()
        root = jar.add(t)
        jar.commit()        # the empty container exists in the database before the history starts
        steps.append("SCommit [QLive []] [] [] [[]]")
        for i, c in enumerate(calls):
            o = env.call(t, c)
            want = ref.call(c)
            if o != want:
                ctx.oracle_failure("%s:%s:persistent:%s:wrong-result" % (impl, kind, c[0]), "stored %s%s/%s call #%d %r -> %r, reference %r" % (fn, kind, impl, i, c, o, want),
                                   {"family": fn, "kind": kind, "impl": impl, "calls": calls[:i + 1], "cuts": cuts, "sizes": [ml, mi]})
                return None, nontrivial
            pm = paths_of(t)
            reg = [pm[id(x)] for x in jar.registered if id(x) in pm]
            ndet = len({id(x) for x in jar.registered}) - len({id(x) for x in jar.registered if id(x) in pm})
            byoid = {}
            reads = []
            for oid in jar.readcurrent:
                obj = jar._cache.get(oid)
                if obj is not None and id(obj) in pm:
                    reads.append(pm[id(obj)])
            steps.append("SCall (%s) (%s) %s %d %s" % (call_term(c), out_term(o), plist(sorted(set(reg))), ndet, plist(sorted(set(reads)))))
            cut = cuts.get(i)
            if cut == "commit":
                f16 = f16_condition(env, t)
                st_root = t.__getstate__()
                emb = t._firstbucket if (st_root is not None and len(st_root) == 1) else None
                emb_had_oid = emb is not None and emb._p_oid is not None
                jar.commit()
                if emb is not None and not emb_had_oid and emb._p_oid is not None:
                    # the leaf embedded in the ROOT received an oid during this commit although the root does not
                    # reference it: a registered object that is no longer part of the tree still points to it
                    # (finding F33); from here on the root's record and the leaf's own record can disagree
                    f33 = True
                pm = paths_of(t)
                seq = []
                for x in jar.last_commit_seq:
                    if id(x) in pm:
                        seq.append("QLive [%s]" % "; ".join("%d%%nat" % a for a in pm[id(x)]))
                    else:
                        refs = [pm[id(r)] for r in persistent_refs(x) if id(r) in pm]
                        seq.append("QDet %s" % plist(refs))
                stored = sorted(p for p in ({pm[k] for k in pm}) if True)
                stored_paths = []
                for obj_id, path in pm.items():
                    pass
                # which reachable objects have an oid now
                def has_oid_paths(node, prefix=()):
                    out = [prefix] if node._p_oid is not None else []
                    stt = node.__getstate__()
                    if stt is None:
                        return out
                    if len(stt) == 1:
                        if node._firstbucket._p_oid is not None:
                            out.append(prefix + (0,))
                        return out
                    d = stt[0]
                    for j, ii in enumerate(range(0, len(d), 2)):
                        ch = d[ii]
                        if type(ch) is type(node):
                            out += has_oid_paths(ch, prefix + (j,))
                        elif ch._p_oid is not None:
                            out.append(prefix + (j,))
                    return out
                stored_paths = has_oid_paths(t)
                # ---- the property itself: a fresh reader
                j2 = Jar(st)
                t2 = j2.get(root)
                conv = (lambda it: [(env.km.ik(k), 0) for k in it]) if setlike else (lambda it: [(env.km.ik(k), env.vm.iv(v)) for k, v in it])
                try:
                    # iterating an unsound C tree can take the process down: ask _check() first and do not
                    # walk a tree it rejects (except the F16 shape, whose exact damage the model predicts)
                    try:
                        t2._check()
                    except AssertionError as e:
                        ctx.cov.setdefault("f16_check_messages", {}).setdefault(str(e)[:80], 0)
                        ctx.cov["f16_check_messages"][str(e)[:80]] += 1
                        if not (f16 and "next pointer is damaged" in str(e)):
                            raise RuntimeError("_check: " + str(e)[:60])
                    chain = conv(list(t2) if setlike else list(t2.items()))
                    descent = []
                    wantitems = [(k, 0) for k, _ in ref.items()] if setlike else ref.items()
                    for k, v in wantitems:
                        kk = env.k(k)
                        if (kk in t2) if setlike else (t2.get(kk) is not None):
                            descent.append((k, 0 if setlike else env.vm.iv(t2[kk])))
                    inv = walk_invariants(env, t2, None, None)
                except Exception as e:  # noqa
                    chain, descent, inv = None, None, ["reader-raised-" + type(e).__name__ + (":" + str(e)[:70] if isinstance(e, RuntimeError) else "")]
                wantitems = [(k, 0) for k, _ in ref.items()] if setlike else ref.items()
                if chain != wantitems or descent != wantitems or inv:
                    sig = "%s:commit-reload:%s" % (impl, "embedded-leaf-below-root" if f16 else ("root-leaf-got-oid-from-detached-object" if f33 else "reader-differs"))
                    ctx.oracle_failure(sig, "%s%s/%s sizes=(%d,%d) order=%s: after commit #%d the fresh reader sees contents-by-chain-ok=%s by-descent-ok=%s unsound=%s%s" % (
                        fn, kind, impl, ml, mi, order, i, chain == wantitems, descent == wantitems, inv[:2],
                        " (a non-root interior node held a single never-stored leaf at commit)" if f16 else ""),
                        {"family": fn, "kind": kind, "impl": impl, "mode": mode, "calls": calls[:i + 1], "cuts": {str(k): v for k, v in cuts.items() if k <= i}, "sizes": [ml, mi], "order": order})
                full_descent = None
                if chain is not None:
                    # what the model predicts is "all items reachable by descent"; observe the same on the reader
                    full_descent = descent_all(env, t2)
                    steps.append("SCommit [%s] %s %s %s" % ("; ".join(seq), kvs(full_descent), kvs(chain), plist(sorted(set(stored_paths)))))
                if len(env.leaf_objects(t)) >= 2:
                    nontrivial = True
                committed_ref = dict(ref.d)
                if chain != wantitems or descent != wantitems or inv:
                    break     # the store is damaged from here on
                if not f33 and (i * 7 + seed) % 3 == 0:     # (after an F33 commit a reloaded root would be its stale inline copy)
                    jar.minimize()      # the cache drops every (now unchanged) object: the writer goes on with ghosts
            elif cut == "abort":
                if f33:
                    break      # the root's record is its stale inline copy (F33): what an abort reloads is not the committed tree
                jar.abort()
                ref.d = dict(committed_ref)
                try:
                    items = [(env.km.ik(k), 0) for k in t] if setlike else [(env.km.ik(k), env.vm.iv(v)) for k, v in t.items()]
                except Exception as e:  # noqa
                    items = None
                wantitems = [(k, 0) for k, _ in ref.items()] if setlike else ref.items()
                if items != wantitems:
                    ctx.oracle_failure("%s:abort:contents-differ%s" % (impl, ":root-leaf-got-oid-from-detached-object" if f33 else ""), "%s%s/%s after abort at #%d the writer shows %r, last committed %r" % (fn, kind, impl, i, items, wantitems),
                                       {"family": fn, "kind": kind, "impl": impl, "mode": mode, "calls": calls[:i + 1], "cuts": {str(k): v for k, v in cuts.items() if k <= i}, "sizes": [ml, mi], "order": order})
                    break
                steps.append("SAbort %s" % kvs(items))
    return steps, nontrivial


def mutable_values(ctx):
    """object values changed IN PLACE and stored again under the same key: the re-assignment is a modification
    and must be announced (the value object is the same, its contents are not)"""
    from harness.families import fam
    n = 0
    for fn in ("OO", "IO", "LO", "UO", "QO"):
        f = fam(fn)
        for impl in ("C", "Py"):
            for kind in ("BTree", "Bucket"):
                env = TreeEnv(fn, kind, impl, "int" if fn[0] == "O" else None)
                with env.sized(2, 2):
                    st = Storage()
                    jar = Jar(st)
                    t = env.new()
                    root = jar.add(t)
                    vals = {k: [k] for k in range(7)}
                    for k, v in vals.items():
                        t[env.k(k)] = v
                    jar.commit()
                    bad = None
                    for k in (0, 3, 6):
                        v = t[env.k(k)]
                        v.append("changed")
                        t[env.k(k)] = v                 # the same object again
                        registered = len(jar.registered)
                        jar.commit()
                        seen = Jar(st).get(root)[env.k(k)]
                        if seen != v and bad is None:
                            bad = "key %d: the writer stored %r again after changing it in place (%d object(s) registered), a fresh reader sees %r" % (k, v, registered, seen)
                    n += 1
                    ctx.count(("mutable-value", fn, impl, kind))
                    if bad:
                        ctx.oracle_failure("%s:%s:same-object-reassigned-not-stored" % (impl, kind), "%s%s/%s: %s" % (fn, kind, impl, bad), {"family": fn, "kind": kind, "impl": impl})
    ctx.cov["mutable_value_reassignments"] = n


def descent_all(env, t):
    """all items reachable by descent on a loaded tree (independent of the chain)"""
    out = []

    def rec(node):
        st = node.__getstate__()
        if st is None:
            return
        if len(st) == 1:
            out.extend(leaf_items(st[0][0]))
            return
        d = st[0]
        for i in range(0, len(d), 2):
            c = d[i]
            if type(c) is type(node):
                rec(c)
            else:
                out.extend(leaf_items(c.__getstate__()))

    def leaf_items(ls):
        items = ls[0]
        if env.setlike:
            return [(env.km.ik(k), 0) for k in items]
        return [(env.km.ik(items[i]), env.vm.iv(items[i + 1])) for i in range(0, len(items), 2)]
    rec(t)
    return out


def run(ctx):
    rng = ctx.rng
    nhist = ctx.n(160, 6000)
    terms, meta = [], []
    ncommits = 0
    for it in range(nhist):
        kind = rng.choice(["BTree", "BTree", "TreeSet"])
        fn = rng.choice(ALL_FAMS)
        ml, mi = rng.choice(SIZES)
        u = rng.choice([8, 20, 40])
        mode = rng.choice({"O": ["none-int", "str", "int"]}.get(fn[0], [None, "extreme"]))
        calls = gen_history(rng, kind, u, rng.choice([10, 25, 50, 90]), avoid0=(mode == "none-int"))
        calls = [c for c in calls if c[0] not in ("keys", "items")] + [("len",)]
        cuts = {}
        for i in range(len(calls)):
            r = rng.random()
            if r < 0.12:
                cuts[i] = "commit"
            elif r < 0.16:
                cuts[i] = "abort"
        if rng.random() < 0.2:
            # grow to several leaves, commit, shrink back to one leaf, commit, touch it, commit:
            # the stored single leaf must then be referenced, not embedded
            setl = kind == "TreeSet"
            lo = 1 if mode == "none-int" else 0
            keys = rng.sample(range(lo, u), min(u - lo, rng.randint(ml + 1, 3 * ml + 2)))
            keep = rng.sample(keys, rng.randint(1, min(ml, len(keys))))
            ins = (lambda k: ("add", k)) if setl else (lambda k: ("set", k, rng.randrange(4)))
            rem = (lambda k: ("remove", k)) if setl else (lambda k: ("del", k))
            calls, cuts = [], {}
            calls += [ins(k) for k in keys]
            cuts[len(calls) - 1] = "commit"
            calls += [rem(k) for k in keys if k not in keep]
            cuts[len(calls) - 1] = "commit"
            for _ in range(rng.randint(1, 4)):
                calls.append(rng.choice([ins(rng.choice(keep)), ins(rng.randrange(lo, u)), ("len",)]))
                if rng.random() < 0.5:
                    cuts[len(calls) - 1] = "commit"
            calls.append(("len",))
        cuts[len(calls) - 1] = "commit"
        order = rng.choice(["lifo", "lifo", "fifo", "reversed"])
        if rng.random() < 0.06 and mode != "none-int":
            # a bucket unlinked in this transaction still points at the leaf the root ends up embedding (finding F33)
            setl = kind == "TreeSet"
            ml, mi = 2, 6
            ins = (lambda k: ("add", k)) if setl else (lambda k: ("set", k, rng.randrange(4)))
            rem = (lambda k: ("remove", k)) if setl else (lambda k: ("del", k))
            b = sorted(rng.sample(range(2, 30, 4), 4))
            top = b[3] + 1
            calls = [ins(k) for k in b]
            cuts = {len(calls) - 1: "commit"}
            calls += [ins(b[0] + 1), ins(b[0] + 2), ins(top)]
            calls += [rem(k) for k in (b[0], b[0] + 1, b[0] + 2, b[1], b[2])]
            cuts[len(calls) - 1] = "commit"
            calls += [rem(b[3]), ("len",)]
            cuts[len(calls) - 1] = "commit"
            order = rng.choice(["fifo", "lifo", "reversed"])
        ctx.progress({"family": fn, "kind": kind, "mode": mode, "sizes": [ml, mi], "calls": calls, "cuts": {str(k): v for k, v in cuts.items()}, "order": order})
        for impl in ("C", "Py"):
            steps, nontriv = run_one(ctx, rng, fn, kind, impl, mode, ml, mi, calls, cuts, order, it)
            if steps is None:
                continue
            vs = "true" if (impl == "C" and fn[1] in "IULQF" and kind == "BTree" and fn != "fs") else "false"
            terms.append("PC %d %d %s %s [%s]" % (ml, mi, vs, "true" if impl == "C" else "false", ";\n ".join(steps)))
            meta.append((fn, kind, impl, mode, ml, mi, order, calls, cuts))
            ctx.count((kind, ml, mi, impl, repr(calls), repr(cuts)), nontrivial=nontriv)
            ncommits += sum(1 for v in cuts.values() if v == "commit")
        if len(ctx.samples) < 2 and len(calls) < 15:
            ctx.sample({"family": fn, "kind": kind, "sizes": [ml, mi], "order": order, "calls": [list(map(str, c)) for c in calls], "cuts": {str(k): v for k, v in cuts.items()}})
    mutable_values(ctx)
    total, bad, errs = caseutil.eval_cases("c04", HDR, "pcase_ok", terms, shard=30, ctype="wpcase")
    ctx.traces = total
    for e in errs:
        ctx.corr_mismatch("c04 case file", e)
    for i in bad[:6]:
        m = meta[i]
        # locate the first disagreeing step
        from harness import coqtools
        rc, out = coqtools.run_cases("c04_dbg%d" % i, HDR + "Eval vm_compute in (pcase_where (%s))." % terms[i])
        import re
        mm = re.search(r"=\s*(Some\s+(\d+)|None)", out)
        stepno = int(mm.group(2)) if mm and mm.group(2) else None
        stepsrc = terms[i].split(";\n ")
        import os
        open(os.path.join(os.path.dirname(os.path.dirname(os.path.dirname(os.path.abspath(__file__)))), "replay", "C04_case_%d.txt" % i), "w").write(terms[i])
        ctx.corr_mismatch("Persist model vs implementation", {"family": m[0], "kind": m[1], "impl": m[2], "sizes": [m[4], m[5]], "order": m[6],
                                                              "first_disagreeing_step": stepno, "case_file": "replay/C04_case_%d.txt" % i, "step": (stepsrc[stepno] if stepno is not None and stepno < len(stepsrc) else None),
                                                              "previous_step": (stepsrc[stepno - 1] if stepno else None), "calls": m[7][: (stepno or 0) + 1]})
    ctx.cov["commits"] = ncommits


def replay(ctx, data):
    r = data["replay"]
    calls = []
    for c in r["calls"]:
        c = tuple(c)
        if c[0] == "update":
            c = (c[0], [tuple(p) for p in c[1]], c[2])
        calls.append(c)
    cuts = {int(k): v for k, v in r["cuts"].items()}
    steps, _ = run_one(ctx, ctx.rng, r["family"], r["kind"], r["impl"], r.get("mode"), r["sizes"][0], r["sizes"][1], calls, cuts, r["order"], 0)
    print("oracle failures:", [(s, w[:200]) for s, w, _ in ctx.oracle_fail])
    return 1 if ctx.oracle_fail else 0
