"""C15 -- mutating while iterating never crashes or damages the container."""
import itertools
import json
import os
import subprocess
import sys

PROPS_FILE = "Props/C15.v"
MODEL_FILES = ["Model/Iter.v", "Model/IterPy.v"]
RULE = ("interleavings of up to 4 iterator steps / lazy-sequence indexings (iter, iteritems, iterkeys(min), keys(), items(), "
        "values(); positive, negative and out-of-range indices, len) with up to 4 mutations (insert before/inside/after the "
        "parked position, delete the current key, pop the minimum until leaves are emptied and unlinked, clear) on containers "
        "of 0..9 keys in 1..4 leaves, all four kinds, several families, C and Python, in a child process (a crash = failure); "
        "each step must yield an entry, end the iteration or raise RuntimeError/IndexError; afterwards contents as implied "
        "by the mutations, _check(), check(); for C iterators without bounds every next() is compared with Model/Iter.v's "
        "iter_next evaluated on the leaf store observed just before the call (buckets by identity, including unlinked ones); distinct by (kind, container, source, interleaving); non-trivial = at least one "
        "mutation between two iterator steps")
ASSUMPTIONS = ["real memory safety of the C process cannot be exhibited by the model; a crash of the child process is the observable; "
               "what IS tied: the iterator's position logic (BTreeIter_next), compared step by step with iter_next on the observed store",
               "the model theorem covers the bounds discipline of the C sequence finger on an arbitrary (mutated) leaf sequence"]


def gen_steps(rng, keys, source):
    steps = []
    iters = ["next"] if source.startswith("iter") else ["index", "index", "len", "bool", "list"]
    n_it = rng.randint(1, 4)
    n_mut = rng.randint(1, 4)
    plan = ["it"] * n_it + ["mut"] * n_mut
    rng.shuffle(plan)
    if plan[0] != "it":
        plan.insert(0, "it")
    u = max(keys + [4]) + 3
    for p in plan:
        if p == "it":
            k = rng.choice(iters)
            if k == "index":
                steps.append(["index", rng.randint(-len(keys) - 2, len(keys) + 2)])
            else:
                steps.append([k])
        else:
            m = rng.choice(["ins", "del", "popmin", "popmin", "clear", "del", "ins"])
            if m == "ins":
                steps.append(["ins", rng.randrange(-1, u)])
            elif m == "del":
                steps.append(["del", rng.choice(keys) if keys else 0])
            else:
                steps.append([m])
    return steps


def run(ctx):
    rng = ctx.rng
    jobs = []
    for it in range(ctx.n(3000, 400000)):
        fn = rng.choice(["II", "OO", "IO", "LL", "fs", "OI", "IF"])
        kind = rng.choice(["BTree", "TreeSet", "Bucket", "Set", "BTree", "TreeSet"])
        impl = rng.choice(["C", "C", "Py"])
        n = rng.choice([0, 1, 2, 3, 4, 6, 9, 14])
        keys = sorted(rng.sample(range(0, 30, 1), n))
        source = rng.choice(["iter", "iteritems", "iterkeys-range", "keys", "items", "values", "keys-range", "items-range"])
        if kind in ("Bucket", "Set") and source in ("keys", "items", "values", "keys-range", "items-range"):
            source = "iter"          # leaf containers return plain lists
        steps = gen_steps(rng, keys, source)
        rg = sorted(rng.sample(range(len(keys)), 2)) if len(keys) >= 2 else [0, 0]
        if len(keys) >= 3 and rng.random() < 0.6:
            rg[1] = min(len(keys) - 1, rg[0] + rng.randint(1, 2))      # short ranges: start deep inside a leaf, end in the next
        if source in ("keys-range", "items-range") and keys and rng.random() < 0.5:
            # empty the part of the leaf the sequence starts in: delete the range's first key and the keys below it
            dels = [["del", keys[i]] for i in range(rg[0], max(-1, rg[0] - rng.randint(2, 5)), -1)]
            steps = [[rng.choice(["len", "index", "bool"])] if False else ["len"]] + dels + [[rng.choice(["len", "bool", "list"])], ["index", rng.randint(-3, 3)]]
        if source in ("keys", "items", "values") and len(keys) >= 4 and rng.random() < 0.35:
            # park the finger on a leaf in the middle, empty that leaf, then index BACKWARDS across the boundary
            p_ = rng.randrange(2, len(keys))
            dels = [["del", keys[i]] for i in range(max(0, p_ - 2), min(len(keys), p_ + 3))]
            rng.shuffle(dels)
            steps = [["index", p_]] + dels + [["index", max(0, p_ - 3)], ["index", 0], ["index", 0], ["index", -1], ["len"]]
        order = list(keys)
        if rng.random() < 0.5:
            rng.shuffle(order)          # leaves filled to different degrees
        jobs.append({"id": len(jobs), "family": fn, "kind": kind, "impl": impl, "keys": keys, "sizes": rng.choice([[2, 2], [1, 2], [3, 3], [2, 3], [4, 4], [6, 3]]),
                     "source": source, "steps": steps, "range": rg, "order": order})
    child = os.path.join(os.path.dirname(os.path.dirname(os.path.abspath(__file__))), "c15_child.py")
    env = dict(os.environ, MALLOC_CHECK_="3", MALLOC_PERTURB_="90")

    def run_batch(batch):
        try:
            proc = subprocess.run([sys.executable, child], input="\n".join(json.dumps(j) for j in batch) + "\n",
                                  capture_output=True, text=True, env=env, timeout=300)
            prc, pout, perr = proc.returncode, proc.stdout, proc.stderr
        except subprocess.TimeoutExpired as e:      # a step that never returns: the job that was running is the culprit
            pout = e.stdout.decode(errors="replace") if isinstance(e.stdout, bytes) else (e.stdout or "")
            prc, perr = -999, "the step did not return within 300 s"
        results, last = {}, None
        for line in pout.splitlines():
            try:
                r = json.loads(line)
            except ValueError:
                continue
            if "start" in r:
                last = r["start"]
            else:
                results[r["id"]] = r
        return prc, results, last, perr

    from concurrent.futures import ThreadPoolExecutor
    batches = [jobs[i:i + 100] for i in range(0, len(jobs), 100)]
    with ThreadPoolExecutor(8) as ex:
        outs = list(ex.map(run_batch, batches))
    hist = {}
    iterms, imeta = [], []
    pterms, pmeta = [], []
    for batch, (rc, results, last, err) in zip(batches, outs):
        pending = batch
        while True:
            for j in pending:
                r = results.get(j["id"])
                if r is None:
                    continue
                nontriv = any(s[0] in ("ins", "del", "popmin", "clear") for s in j["steps"][1:-1] or j["steps"])
                ctx.count((j["family"], j["kind"], j["impl"], tuple(j["keys"]), j["source"], json.dumps(j["steps"])), nontrivial=nontriv)
                for o in r["outcomes"]:
                    hist[o] = hist.get(o, 0) + 1
                tr = r.get("trace")
                if tr and tr["steps"] and tr.get("py"):
                    pterms.append(ptrace_term(tr))
                    pmeta.append(j)
                elif tr and tr["steps"]:
                    iterms.append(itrace_term(tr))
                    imeta.append(j)
                if r["bad"]:
                    ctx.oracle_failure("%s:%s:%s:%s" % (j["impl"], j["kind"], j["source"], r["bad"].split(":")[0]),
                                       "%s%s/%s keys=%r %s steps=%r: %s" % (j["family"], j["kind"], j["impl"], j["keys"], j["source"], j["steps"], r["bad"]), {"job": j})
            if rc == 0 or last is None or last in results:
                if rc != 0 and not results:
                    ctx.corr_mismatch("C15 child failed", {"rc": rc, "stderr": err[-800:]})
                break
            j = next(x for x in pending if x["id"] == last)
            ctx.count((j["family"], j["kind"], j["impl"], tuple(j["keys"]), j["source"], json.dumps(j["steps"])))
            ctx.oracle_failure("%s:%s:%s:%s" % (j["impl"], j["kind"], j["source"], "did-not-terminate" if rc == -999 else "process-died"),
                               "%s%s/%s keys=%r %s steps=%r: the process died (rc=%s) %s" % (j["family"], j["kind"], j["impl"], j["keys"], j["source"], j["steps"], rc,
                                                                                        err.strip().splitlines()[-1][:100] if err.strip() else ""), {"job": j})
            pending = [x for x in pending if x["id"] > last]
            if not pending:
                break
            rc, results, last, err = run_batch(pending)
    # ---- correspondence: the C iterator against Model/Iter.v (iter_next on the observed leaf store)
    from harness import caseutil
    hdr = ("From Coq Require Import ZArith List.\nFrom BT Require Import Model.CaseUtil Model.Iter.\n"
           "Import ListNotations.\nOpen Scope Z_scope.\n")
    total, badi, errs = caseutil.eval_cases("c15", hdr, "icase_ok", iterms, shard=300, ctype="wicase")
    for e in errs:
        ctx.corr_mismatch("c15 case file", e)
    for i in badi[:5]:
        ctx.corr_mismatch("Iter model (iter_next on the observed leaf store) vs the C iterator", {"job": imeta[i]})
    ctx.cov["iterator_traces_compared_with_model"] = total
    hdr_py = hdr.replace("Model.Iter.", "Model.Iter Model.IterPy.")
    total_p, badp, errsp = caseutil.eval_cases("c15py", hdr_py, "pcase_py_ok", pterms, shard=300, ctype="wpcase")
    for e in errsp:
        ctx.corr_mismatch("c15 python case file", e)
    for i in badp[:5]:
        ctx.corr_mismatch("IterPy model (py_next on the observed leaf store) vs the Python generator", {"job": pmeta[i]})
    ctx.cov["python_iterator_traces_compared_with_model"] = total_p
    ctx.cov["iterator_step_outcomes"] = hist
    ctx.traces = ctx.evaluations
    ctx.sample({"job": jobs[0]})


def itrace_term(tr):
    Z = lambda n: "(%d)" % n   # noqa
    def leaf(l):
        return "WLf %d [%s] %s" % (l[0], "; ".join(Z(k) for k in l[1]), "None" if l[2] is None else "(Some %d%%nat)" % l[2])
    def step(s):
        out = {"stop": "WStop", "runtime": "WRuntime"}.get(s[1]) or ("(WEntry %s)" % Z(s[2] if s[2] is not None else -999999))
        return "WIS [%s] %s" % ("; ".join(leaf(l) for l in s[0]), out)
    return "IC %s %d %d [%s]" % ("None" if tr["cur"] is None else "(Some %d%%nat)" % tr["cur"], tr["last"], tr["lastoff"],
                                  "; ".join(step(s) for s in tr["steps"]))


def ptrace_term(tr):
    Z = lambda n: "(%d)" % n   # noqa
    def leaf(l):
        return "WLf %d [%s] %s" % (l[0], "; ".join(Z(k) for k in l[1]), "None" if l[2] is None else "(Some %d%%nat)" % l[2])
    def step(s):
        out = {"stop": "WPStop", "indexerror": "WPIndexError"}.get(s[1]) or ("(WPEntry %s)" % Z(s[2] if s[2] is not None else -999999))
        return "WPS [%s] %s" % ("; ".join(leaf(l) for l in s[0]), out)
    return "PIC %s [%s]" % ("None" if tr["cur"] is None else "(Some %d%%nat)" % tr["cur"], "; ".join(step(s) for s in tr["steps"]))


def replay(ctx, data):
    print(data["replay"])
    return 0
