"""C18 -- the diagnostic checkers accept every valid tree and detect every corruption."""
import copy

from harness import caseutil
from harness.families import ALL_FAMS
from harness.treelib import TreeEnv
from harness.props.c02 import build_by_history, shape_with_values, nleaves

PROPS_FILE = "Props/C18.v"
MODEL_FILES = ["Model/Check.v"]
RULE = ("valid trees (API-built, thinned; <= 30 keys, node sizes (1,2)..(4,4)) and ALL single corruptions of their "
        "stored state from the classes: swap / duplicate / shift a leaf key, move a separator out of its interval, "
        "drop / redirect a next pointer, empty a leaf, empty an interior node, wrong firstbucket (root or interior), "
        "mixed child kinds; installed through __setstate__ on C and Python objects; check() and _check() outcomes "
        "compared with the model and with an independent statement of the stored invariant; distinct by state; "
        "non-trivial = a corrupted state")
ASSUMPTIONS = ["states are trees of nodes with arbitrary next/firstbucket pointers; states in which one leaf object is the child of two parents are not generated",
               "keys modelled as Z"]
Z = caseutil.z
HDR = ("From Coq Require Import ZArith List.\nFrom BT Require Import Model.CaseUtil Model.Check.\n"
       "Import ListNotations.\nOpen Scope Z_scope.\n")
SIZES = [(1, 2), (2, 2), (2, 3), (3, 3), (4, 4)]


# ---------------------------------------------------------------- states
def to_state(sh):
    """shape-with-values -> pointer state with ids, correct next/first pointers"""
    counter = [0]
    leaves = []

    def rec(node):
        counter[0] += 1
        if node[0] == "leaf":
            d = {"t": "leaf", "id": counter[0], "keys": [k for k, _ in node[1]], "vals": [v for _, v in node[1]], "next": None}
            leaves.append(d)
            return d
        d = {"t": "node", "id": counter[0], "first": None, "kids": []}
        for s, c in node[1]:
            d["kids"].append([s, rec(c)])
        return d
    root = rec(sh)
    for a, b in zip(leaves, leaves[1:]):
        a["next"] = b["id"]

    def setfirst(d):
        if d["t"] == "leaf":
            return d["id"]
        f = None
        for i, (_, c) in enumerate(d["kids"]):
            x = setfirst(c)
            if i == 0:
                f = x
        d["first"] = f
        return f
    setfirst(root)
    return root


def all_nodes(d, out=None, parent=None, idx=None):
    out = [] if out is None else out
    out.append((d, parent, idx))
    if d["t"] == "node":
        for i, (_, c) in enumerate(d["kids"]):
            all_nodes(c, out, d, i)
    return out


def leaf_ids(d):
    return [x["id"] for x, _, _ in all_nodes(d) if x["t"] == "leaf"]


def corruptions(root, rng, limit):
    """yield (class, corrupted copy) for single corruptions"""
    out = []
    nodes = all_nodes(root)
    lids = leaf_ids(root)

    def variant(cls, fn):
        c = copy.deepcopy(root)
        byid = {x["id"]: x for x, _, _ in all_nodes(c)}
        if fn(c, byid) is not False:
            out.append((cls, c))
    for d, parent, idx in nodes:
        i = d["id"]
        if d["t"] == "leaf":
            n = len(d["keys"])
            if n >= 2:
                j = rng.randrange(n - 1)
                variant("swap-keys", lambda c, b, i=i, j=j: b[i]["keys"].__setitem__(slice(j, j + 2), b[i]["keys"][j:j + 2][::-1]))
                variant("duplicate-key", lambda c, b, i=i, j=j: b[i]["keys"].__setitem__(j + 1, b[i]["keys"][j]))
            if n >= 1:
                variant("shift-key-up", lambda c, b, i=i: b[i]["keys"].__setitem__(-1, b[i]["keys"][-1] + 1000))
                variant("shift-key-down", lambda c, b, i=i: b[i]["keys"].__setitem__(0, b[i]["keys"][0] - 1000))
            variant("empty-leaf", lambda c, b, i=i: (b[i].__setitem__("keys", []), b[i].__setitem__("vals", [])))
            variant("drop-next", lambda c, b, i=i: b[i].__setitem__("next", None) if b[i]["next"] is not None else False)
            others = [x for x in lids if x != d["next"]]
            if others:
                tgt = rng.choice(others)
                variant("redirect-next", lambda c, b, i=i, tgt=tgt: b[i].__setitem__("next", tgt))
        else:
            if parent is not None:
                variant("empty-interior", lambda c, b, i=i: b[i].__setitem__("kids", []) or b[i].__setitem__("first", None))
            others = [x for x in lids if x != d["first"]]
            if others and d["kids"]:
                tgt = rng.choice(others)
                variant("wrong-firstbucket", lambda c, b, i=i, tgt=tgt: b[i].__setitem__("first", tgt))
            if d["kids"] and d["first"] is not None:
                # firstbucket is a stale COPY of the leftmost leaf (same keys, same next, another object): identity 20000 + id
                variant("firstbucket-copy", lambda c, b, i=i: b[i].__setitem__("first", 20000 + b[i]["first"]))
            for k in range(1, len(d["kids"])):
                variant("separator-too-high", lambda c, b, i=i, k=k: b[i]["kids"][k].__setitem__(0, b[i]["kids"][k][0] + 1000))
                variant("separator-too-low", lambda c, b, i=i, k=k: b[i]["kids"][k].__setitem__(0, b[i]["kids"][k][0] - 1000))
            if len(d["kids"]) >= 2:
                k = rng.randrange(len(d["kids"]))
                ch = d["kids"][k][1]

                def mix(c, b, i=i, k=k):
                    child = b[i]["kids"][k][1]
                    if child["t"] == "leaf":
                        wrap = {"t": "node", "id": 10000 + child["id"], "first": child["id"], "kids": [[0, child]]}
                        b[i]["kids"][k][1] = wrap
                    else:
                        # replace an interior child by its leftmost leaf (other leaves below it become unreachable by descent)
                        x = child
                        while x["t"] == "node" and x["kids"]:
                            x = x["kids"][0][1]
                        if x["t"] != "leaf":
                            return False
                        b[i]["kids"][k][1] = x
                variant("mixed-child-kinds", mix)
    rng.shuffle(out)
    return out[:limit]


# ---------------------------------------------------------------- independent statement of the stored invariant
def inv_stored(root):
    """returns set of broken classes (empty = valid)"""
    broken = set()
    leaves = []

    def rec(d, lo, hi, is_root):
        if d["t"] == "leaf":
            leaves.append(d)
            ks = d["keys"]
            if not ks:
                broken.add("non-emptiness")
            if any(a >= b for a, b in zip(ks, ks[1:])):
                broken.add("key-order")
            if any((lo is not None and k < lo) or (hi is not None and k >= hi) for k in ks):
                broken.add("containment")
            return
        kids = d["kids"]
        if not kids:
            if not is_root:
                broken.add("non-emptiness")
            elif d["first"] is not None:
                broken.add("linking")
            return
        if len({c["t"] for _, c in kids}) != 1:
            broken.add("uniform-kinds")
        seps = [s for s, _ in kids[1:]]
        if any(a >= b for a, b in zip(seps, seps[1:])):
            broken.add("key-order")
        if any((lo is not None and s < lo) or (hi is not None and s >= hi) for s in seps):
            broken.add("containment")
        start = len(leaves)
        for i, (s, c) in enumerate(kids):
            rec(c, lo if i == 0 else s, kids[i + 1][0] if i + 1 < len(kids) else hi, False)
        mine = leaves[start:]
        if d["first"] != (mine[0]["id"] if mine else None) or d["first"] is None:
            broken.add("linking")
    rec(root, None, None, True)
    for a, b in zip(leaves, leaves[1:] + [None]):
        if a["next"] != (b["id"] if b else None):
            broken.add("linking")
    return broken


# ---------------------------------------------------------------- real objects
def install(env, root):
    byid = {}
    leafcls = env.f.cls("Set" if env.setlike else "Bucket", env.impl)
    nodes = all_nodes(root)
    for d, _, _ in nodes:
        if d["t"] == "leaf":
            byid[d["id"]] = leafcls()
    for d, _, _ in nodes:
        if d["t"] == "leaf":
            ks, vs = d["keys"], d["vals"] + [0] * len(d["keys"])
            flat = tuple(env.k(k) for k in ks) if env.setlike else tuple(x for k, v in zip(ks, vs) for x in (env.k(k), env.v(v % 4)))
            nxt = byid.get(d["next"]) if d["next"] is not None else None
            byid[d["id"]].__setstate__((flat, nxt) if nxt is not None else (flat,))

    def mk(d):
        if d["t"] == "leaf":
            return byid[d["id"]]
        t = env.cls()
        if not d["kids"]:
            return t
        data = []
        for i, (s, c) in enumerate(d["kids"]):
            if i:
                data.append(env.k(s))
            data.append(mk(c))
        first = d["first"]
        if first is not None and first >= 20000 and first not in byid:
            twin = leafcls()
            twin.__setstate__(byid[first - 20000].__getstate__())
            byid[first] = twin
        t.__setstate__((tuple(data), byid[first]))
        return t
    return mk(root)


def state_term(d):
    def o(x):
        return "WNoneP" if x is None else "(WSomeP %d)" % x
    if d["t"] == "leaf":
        return "(WPL %d [%s] %s)" % (d["id"], "; ".join(Z(k) for k in d["keys"]), o(d["next"]))
    return "(WPN %d %s [%s])" % (d["id"], o(d["first"]), "; ".join("WPK %s %s" % (Z(s if s is not None else 0), state_term(c)) for s, c in d["kids"]))


def outcome(fn):
    try:
        fn()
        return True
    except AssertionError:
        return False


def stored_and_evicted(ctx, rng):
    """valid trees that live in a database, with all or some of their nodes evicted (ghosts): accepted too"""
    import BTrees.check
    import random as _r
    from harness.minijar import Storage, Jar
    from harness.props.c16 import all_nodes
    from harness.props.c04 import f16_condition
    n = 0
    for it in range(ctx.n(40, 800)):
        kind = rng.choice(["BTree", "TreeSet"])
        fn = rng.choice(ALL_FAMS)
        impl = rng.choice(["C", "C", "Py"])
        ml, mi = rng.choice([(2, 2), (2, 3), (3, 3)])
        env = TreeEnv(fn, kind, impl, "int" if fn[0] == "O" else None)
        with env.sized(ml, mi):
            t = env.new()
            for k in rng.sample(range(80), rng.randint(8, 40)):
                env.call(t, ("add", k) if env.setlike else ("set", k, k % 4))
            if f16_condition(env, t):
                continue
            jar = Jar(Storage())
            jar.add(t)
            jar.commit()
            nodes = all_nodes(t)
            mode = rng.choice(["all", "some", "some"])
            if mode == "all":
                jar.minimize()
            else:
                for o in rng.sample(nodes, max(1, len(nodes) // 2)):
                    o._p_deactivate()
            if mode == "all":
                # a fresh connection: the tree is loaded from its records, interior nodes still ghosts
                t_fresh = Jar(jar.storage).get(t._p_oid)
                try:
                    t_fresh._check()
                    BTrees.check.check(t_fresh)
                except AssertionError as e:
                    ctx.oracle_failure("%s:valid-tree-rejected:fresh-reader" % impl, "%s%s/%s sizes=(%d,%d), %d nodes, loaded by a fresh connection: rejected: %s" % (
                        fn, kind, impl, ml, mi, len(nodes), str(e)[:80]), {"family": fn, "kind": kind, "impl": impl, "sizes": [ml, mi]})
            for name, fn_ in (("_check", t._check), ("check", lambda: BTrees.check.check(t))):
                if mode != "all":
                    for o in rng.sample(nodes, max(1, len(nodes) // 3)):
                        o._p_deactivate()
                try:
                    fn_()
                except AssertionError as e:
                    ctx.oracle_failure("%s:valid-tree-rejected:%s:evicted-nodes" % (impl, name), "%s%s/%s sizes=(%d,%d), %d nodes, stored and %s evicted: %s() rejects it: %s" % (
                        fn, kind, impl, ml, mi, len(nodes), mode, name, str(e)[:80]), {"family": fn, "kind": kind, "impl": impl, "sizes": [ml, mi]})
                    break
            n += 1
            ctx.count(("evicted", fn, kind, impl, ml, mi, it))
    ctx.cov["stored_trees_checked_with_evicted_nodes"] = n


def inplace_corruptions(ctx, rng):
    """corruptions applied IN PLACE to the nodes of a tree that was built through the API (the objects keep their
    allocated capacity, their reference counts, their place in the chain), not installed into fresh objects"""
    import BTrees.check
    import random as _r
    n = 0
    for it in range(ctx.n(60, 1500)):
        kind = rng.choice(["BTree", "TreeSet"])
        fn = rng.choice(ALL_FAMS)
        impl = rng.choice(["C", "Py"])
        ml, mi = rng.choice([(2, 2), (2, 3), (3, 3), (4, 4)])
        env = TreeEnv(fn, kind, impl, "int" if fn[0] == "O" else None)
        with env.sized(ml, mi):
            t = env.new()
            for k in rng.sample(range(60), rng.randint(6, 30)):
                env.call(t, ("add", k) if env.setlike else ("set", k, k % 4))
            leaves = env.leaf_objects(t)
            if len(leaves) < 2:
                continue
            which = rng.randrange(len(leaves))
            leaf = leaves[which]
            st = leaf.__getstate__()
            how = rng.choice(["emptied", "emptied", "last-key-dropped-to-front"])
            if how == "emptied":
                leaf.__setstate__(((),) + tuple(st[1:]))
                must_reject = True
            else:
                items = st[0]
                step = 1 if env.setlike else 2
                if len(items) < 2 * step:
                    continue
                leaf.__setstate__((tuple(items[-step:]) + tuple(items[:-step]),) + tuple(st[1:]))     # keys out of order
                must_reject = True
            verdicts = {}
            for name, f_ in (("_check", t._check), ("check", lambda: BTrees.check.check(t))):
                try:
                    f_(); verdicts[name] = "accepts"
                except AssertionError:
                    verdicts[name] = "rejects"
                except Exception as e:  # noqa
                    verdicts[name] = "raises-" + type(e).__name__
            n += 1
            ctx.count(("inplace", fn, kind, impl, how, which, ml, mi, it))
            if must_reject and "rejects" not in verdicts.values():
                ctx.oracle_failure("%s:undetected:in-place:%s" % (impl, how), "%s%s/%s sizes=(%d,%d): leaf #%d of %d %s in place through __setstate__: %r" % (
                    fn, kind, impl, ml, mi, which, len(leaves), how, verdicts), {"family": fn, "kind": kind, "impl": impl, "sizes": [ml, mi], "how": how})
    ctx.cov["in_place_corruptions"] = n


def run(ctx):
    import BTrees.check
    import random as _r
    rng = ctx.rng
    stored_and_evicted(ctx, rng)
    inplace_corruptions(ctx, rng)
    ntrees = ctx.n(60, 1500)
    percor = ctx.n(40, 200)
    terms, meta = [], []
    classes = {}
    for it in range(ntrees):
        kind = rng.choice(["BTree", "TreeSet"])
        fn = rng.choice(ALL_FAMS)
        ml, mi = rng.choice(SIZES)
        envs = {impl: TreeEnv(fn, kind, impl, "int" if fn[0] == "O" else None) for impl in ("C", "Py")}
        for e in envs.values():
            e.km.span = 3000
        with envs["C"].sized(ml, mi):
            t = build_by_history(_r.Random(rng.random()), envs["C"], ml, mi, centred=(it % 2 == 0))
            sh = shape_with_values(envs["C"], t)
        if sh == ("node", []):
            continue
        root = to_state(sh)
        states = [("valid", root)] + corruptions(root, rng, percor)
        for cls, st in states:
            broken = inv_stored(st)
            res = {}
            for impl in ("C", "Py"):
                env = envs[impl]
                try:
                    obj = install(env, st)
                except Exception as e:  # noqa
                    res[impl] = ("install-failed", type(e).__name__)
                    continue
                res[impl] = (outcome(lambda: BTrees.check.check(obj)), outcome(obj._check))
            if any(r[0] == "install-failed" for r in res.values()):
                continue
            classes[cls] = classes.get(cls, 0) + 1
            ctx.count((fn, kind, repr(st)), nontrivial=cls != "valid")
            for impl in ("C", "Py"):
                a, b = res[impl]
                if broken and a and b:
                    ctx.oracle_failure("%s:undetected:%s:%s" % (impl, cls, "+".join(sorted(broken))),
                                       "%s%s/%s: corruption '%s' (breaks %s) passes check() and _check(): %s" % (fn, kind, impl, cls, sorted(broken), state_term(st)[:300]),
                                       {"family": fn, "kind": kind, "impl": impl, "class": cls, "state": st})
                if not broken and not (a and b):
                    ctx.oracle_failure("%s:valid-rejected:%s" % (impl, cls),
                                       "%s%s/%s: valid state rejected (check=%s _check=%s): %s" % (fn, kind, impl, a, b, state_term(st)[:300]),
                                       {"family": fn, "kind": kind, "impl": impl, "class": cls, "state": st})
            terms.append("CC %s %s %s %s %s" % (state_term(st), str(res["C"][0]).lower(), str(res["Py"][0]).lower(),
                                               str(res["C"][1]).lower(), str(res["Py"][1]).lower()))
            meta.append((fn, kind, cls, st))
            if cls in ("redirect-next", "separator-too-low") and len(ctx.samples) < 2 and nleaves(sh) <= 4:
                ctx.sample({"class": cls, "state": state_term(st), "check()": res["C"][0], "_check()": res["C"][1], "breaks": sorted(broken)})
    total, bad, errs = caseutil.eval_cases("c18", HDR, "ccase_ok", terms, shard=300, ctype="wccase")
    ctx.traces = total
    for e in errs:
        ctx.corr_mismatch("c18 case file", e)
    for i in bad[:5]:
        ctx.corr_mismatch("Check model vs implementation", {"case": [meta[i][0], meta[i][1], meta[i][2], state_term(meta[i][3])[:400]]})
    ctx.cov["corruption_classes"] = classes


def replay(ctx, data):
    import BTrees.check
    r = data["replay"]
    env = TreeEnv(r["family"], r["kind"], r["impl"], "int" if r["family"][0] == "O" else None)
    env.km.span = 3000

    def fix(d):
        if d["t"] == "node":
            d["kids"] = [[s, fix(c)] for s, c in d["kids"]]
        return d
    obj = install(env, fix(r["state"]))
    print("check():", outcome(lambda: BTrees.check.check(obj)), "_check():", outcome(obj._check), "invariant broken:", inv_stored(r["state"]))
    return 0
