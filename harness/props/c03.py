"""C03 -- a container used only through its API is never internally damaged."""
from harness import caseutil
from harness.families import ALL_FAMS
from harness.treelib import TreeEnv, HDR, call_term, shape_term, walk_invariants, chain_obs, chobs_term
from harness.props.c09 import call_raw
from harness.props.c13 import Plain
from harness.families import BOUNDS
from harness.props.c01 import gen_history, height

PROPS_FILE = "Props/C03.v"
MODEL_FILES = ["Model/RTree.v", "Model/TreeSpec.v", "Model/TreeRun.v", "Model/Chain.v", "Model/ChainRun.v"]
HDR_CH = HDR.replace("Model.TreeRun.", "Model.TreeRun Model.Chain Model.ChainRun.")
RULE = ("insert/delete/clear/update histories on BTree and TreeSet at node sizes (2,2),(2,3),(3,2),(3,3),(4,4),(6,3),(1,2) "
        "set on the class or on a subclass before first use; after EVERY call: _check(), BTrees.check.check(), an "
        "independent walker (chain = descent order, nothing empty, uniform kinds, key ranges, size bounds), shape "
        "equality with the model, and the pointer model (Model/Chain.v: next / firstbucket written at the code's sites) "
        "against the buckets met along _firstbucket/_next and the _firstbucket of every interior node; "
        "distinct by (kind, sizes, history); non-trivial = reaches height >= 2")
ASSUMPTIONS = ["RTree.v does not store the leaf chain; Model/Chain.v does (a heap of next / firstbucket fields written by the code's own assignments), C03_chain_* prove that it realises the in-order leaf sequence, and this run compares that heap with the implementation's pointers after every call",
               "keys modelled as Z"]
SIZES = [(2, 2), (2, 3), (3, 2), (3, 3), (4, 4), (6, 3), (1, 2)]


def run(ctx):
    import BTrees.check
    rng = ctx.rng
    nhist = ctx.n(260, 8000)
    terms, meta = [], []
    chterms = []
    heights = {}
    nsteps = 0
    nrejected = 0
    for it in range(nhist):
        kind = rng.choice(["BTree", "TreeSet"])
        fn = rng.choice(ALL_FAMS)
        ml, mi = rng.choice(SIZES)
        u = rng.choice([6, 14, 30, 60])
        calls = [c for c in gen_history(rng, kind, u, rng.choice([8, 20, 40, 70]), selfops=True)]
        mode = rng.choice({"O": ["none-int", "str", "int"]}.get(fn[0], [None, "extreme"]))
        if mode == "none-int":
            calls = gen_history(rng, kind, u, len(calls), avoid0=True, selfops=True)
        use_subclass = rng.random() < 0.25
        ctx.progress({"family": fn, "kind": kind, "mode": mode, "sizes": [ml, mi], "calls": calls, "subclass": use_subclass})
        for impl in ("C", "Py"):
            env = TreeEnv(fn, kind, impl, mode)
            shapes = []
            chobs = []
            bad = None
            skipped = False
            if use_subclass:
                sub = type("Sub" + env.cls.__name__, (env.cls,), {"max_leaf_size": ml, "max_internal_size": mi})
                ctxmgr = env.sized(env.cls.max_leaf_size, env.cls.max_internal_size)  # no-op
                t = sub()
            else:
                ctxmgr = env.sized(ml, mi)
            with ctxmgr:
                if not use_subclass:
                    t = env.new()
                for i, c in enumerate(calls):
                    # a write the family rejects (unusable key or value) is a public operation too: it must
                    # leave the tree as it was -- the model's step for it is the identity
                    if (i == 0 and rng.random() < 0.5) or rng.random() < 0.08:
                        rej = rejected_write(rng, env, kind)
                        if rej is not None:
                            snap = list(t) if kind == "TreeSet" else list(t.items())
                            r = call_raw(t, kind, rej[0], rej[1], rej[2])
                            if r[0] == "ok":
                                skipped = True   # not rejected (C13's / C09's business): the model no longer applies
                                break
                            nrejected += 1
                            c = ("rejected-" + rej[0], repr(rej[1])[:20], repr(rej[2])[:20])
                            bad = verify(env, t, ml, mi, use_subclass)
                            if bad is None and (list(t) if kind == "TreeSet" else list(t.items())) != snap:
                                bad = ("contents-changed", "the rejected write changed the contents")
                            if bad:
                                ctx.oracle_failure("%s:%s:%s:after-rejected-write" % (impl, kind, bad[0]),
                                                   "%s%s/%s sizes=(%d,%d) after the REJECTED write %r (before call #%d, %d keys stored): %s" % (fn, kind, impl, ml, mi, c, i, len(t), bad[1]),
                                                   {"family": fn, "kind": kind, "impl": impl, "mode": mode, "sizes": [ml, mi], "calls": calls[:i], "rejected": c})
                                break
                            c = calls[i]
                    env.call(t, c)
                    nsteps += 1
                    try:
                        t._check()
                    except AssertionError as e:
                        bad = ("_check-fails", str(e))
                    if not use_subclass:
                        try:
                            BTrees.check.check(t)
                        except AssertionError as e:
                            bad = bad or ("check()-fails", str(e)[:200])
                    inv = walk_invariants(env, t, ml, mi)
                    if inv:
                        bad = bad or ("walker:" + inv[0], str(inv))
                    if bad:
                        ctx.oracle_failure("%s:%s:%s" % (impl, kind, bad[0]),
                                           "%s%s/%s sizes=(%d,%d)%s after call #%d %r: %s" % (fn, kind, impl, ml, mi, " subclass" if use_subclass else "", i, c, bad[1]),
                                           {"family": fn, "kind": kind, "impl": impl, "mode": mode, "sizes": [ml, mi], "subclass": use_subclass, "calls": calls[:i + 1]})
                        break
                    shapes.append(env.shape(t))
                    chobs.append(chain_obs(env, t))
            if bad is None and not skipped:
                vs = "true" if (impl == "C" and fn[1] in "IULQF" and kind == "BTree" and fn != "fs") else "false"
                terms.append("TC3 %d %d %s %s [%s] [%s]" % (ml, mi, vs, "true" if impl == "C" else "false",
                                                           "; ".join(call_term(c) for c in calls), "; ".join(shape_term(s) for s in shapes)))
                chterms.append("CH %d %d %s %s [%s] [%s]" % (ml, mi, vs, "true" if impl == "C" else "false",
                                                            "; ".join(call_term(c) for c in calls), "; ".join(chobs_term(o) for o in chobs)))
                meta.append((fn, kind, impl, mode, ml, mi, use_subclass, calls))
                h = max(height(s) for s in shapes)
                heights[h] = heights.get(h, 0) + 1
        ctx.count((kind, ml, mi, repr(calls)), nontrivial=shapes and max(height(s) for s in shapes) >= 2)
        if len(ctx.samples) < 2 and shapes and height(shapes[-1]) >= 2 and len(calls) < 25:
            ctx.sample({"family": fn, "kind": kind, "sizes": [ml, mi], "calls": [list(map(str, c)) for c in calls], "final_shape": str(shapes[-1])})
    total, bad, errs = caseutil.eval_cases("c03", HDR, "t3case_ok", terms, shard=40, ctype="wt3case")
    ctx.traces = total
    for e in errs:
        ctx.corr_mismatch("c03 case file", e)
    for i in bad[:5]:
        ctx.corr_mismatch("RTree model shape/invariant vs implementation (per step)", {"case": meta[i]})
    total2, bad2, errs2 = caseutil.eval_cases("c03ch", HDR_CH, "chcase_ok", chterms, shard=40, ctype="wchcase")
    ctx.traces += total2
    for e in errs2:
        ctx.corr_mismatch("c03 chain case file", e)
    for i in bad2[:5]:
        ctx.corr_mismatch("pointer model (next / firstbucket, Model/Chain.v) vs implementation (per step)", {"case": meta[i]})
    ctx.cov["histories_compared_with_pointer_model"] = total2
    ctx.cov["max_height_per_history"] = {str(k): v for k, v in sorted(heights.items())}
    ctx.cov["steps_checked_with__check_check_walker"] = nsteps
    ctx.cov["rejected_writes_checked"] = nrejected


def rejected_write(rng, env, kind):
    """(name, key, value) of a write this family must reject, or None"""
    f = env.f
    setlike = kind in ("TreeSet", "Set")
    goodk, goodv = env.k(rng.randrange(3, 6)), (None if setlike else env.v(1))
    roles = ["key"] + ([] if setlike or f.vk == "O" else ["value"])
    role = rng.choice(roles)
    if role == "key":
        if f.kk in BOUNDS:
            a = rng.choice(["x", 2**70, None, 1.5])
        elif f.kk == "O":
            a = Plain()
        else:
            a = rng.choice([b"abc", "ab", 7])
        b = goodv
    else:
        a = goodk
        if f.vk in BOUNDS:
            b = rng.choice(["x", 2**70, None])
        elif f.vk == "F":
            b = rng.choice(["x", None, (1,)])
        else:
            b = rng.choice([b"ab", "abcdef", 7])
    name = rng.choice(["set", "set", "setdefault", "insert", "update"]) if not setlike else rng.choice(["set", "update"])
    return name, a, b


def verify(env, t, ml, mi, use_subclass):
    import BTrees.check
    bad = None
    try:
        t._check()
    except AssertionError as e:
        bad = ("_check-fails", str(e))
    if not use_subclass:
        try:
            BTrees.check.check(t)
        except AssertionError as e:
            bad = bad or ("check()-fails", str(e)[:200])
    inv = walk_invariants(env, t, ml, mi)
    if inv:
        bad = bad or ("walker:" + inv[0], str(inv))
    if bad is None and (len(t) == 0) != (not t):
        bad = ("bool-disagrees-with-len", "len=%d bool=%r" % (len(t), bool(t)))
    return bad


def replay(ctx, data):
    import BTrees.check
    r = data["replay"]
    env = TreeEnv(r["family"], r["kind"], r["impl"], r["mode"])
    ml, mi = r["sizes"]
    with env.sized(ml, mi):
        t = env.new()
        for c in r["calls"]:
            c = tuple(c)
            if c[0] == "update":
                c = (c[0], [tuple(p) for p in c[1]], c[2])
            print(c, env.call(t, c))
        try:
            t._check(); BTrees.check.check(t); print("checks pass", walk_invariants(env, t, ml, mi))
        except AssertionError as e:
            print("check fails:", e); return 1
    return 0
