"""C02 -- range searches and lazy key/value/item sequences are exact."""
from harness import caseutil
from harness.families import ALL_FAMS
from harness.treelib import TreeEnv, walk_invariants
from harness.props.c01 import gen_history, height

PROPS_FILE = "Props/C02.v"
MODEL_FILES = ["Model/RTree.v", "Model/Range.v"]
RULE = ("trees built by insert/delete histories (thinned, single-child roots, one-key end leaves) and trees installed "
        "through __setstate__ with stale separators; for each: bound pairs from {present keys, gaps, below all, above "
        "all, None} x the four exclusion flags for keys/values/items, minKey/maxKey for every bound, and lazy sequences "
        "under len(), index runs over [-len-1, len] (forward and backward moves of the finger) and slices; distinct by "
        "(tree shape, query); non-trivial = the tree has >= 2 leaves")
ASSUMPTIONS = ["keys modelled as Z; model keys are even numbers so that every gap holds an odd probe",
               "the C slice of a lazy sequence is compared with the list slice (the slice finger is not modelled separately)"]
Z = caseutil.z
HDR = ("From Coq Require Import ZArith List.\nFrom BT Require Import Model.CaseUtil Model.RTree Model.Range.\n"
       "Import ListNotations.\nOpen Scope Z_scope.\n")
SIZES = [(1, 2), (2, 2), (2, 3), (3, 2), (3, 3), (4, 4)]


# ---------------------------------------------------------------- trees
def build_by_history(rng, env, ml, mi, centred=False):
    t = env.new()
    u = rng.choice([6, 10, 16, 30])
    keys = list(range(u))
    if centred:
        keys = [k - u // 2 for k in keys]       # negative and positive keys: 0 sits in the middle (a falsy separator)
    rng.shuffle(keys)
    nins = rng.randint(1, u)
    for k in keys[:nins]:
        if env.setlike:
            t.add(env.k(2 * k))
        else:
            t[env.k(2 * k)] = env.v(k % 4)
    style = rng.choice(["none", "thin", "head", "tail", "heavy"])
    present = sorted(keys[:nins])
    if style == "thin":
        dels = [k for k in present if rng.random() < 0.5]
    elif style == "head":
        dels = present[:rng.randint(0, max(0, len(present) - 1))]
    elif style == "tail":
        dels = present[rng.randint(1, len(present)):]
    elif style == "heavy":
        dels = [k for k in present if rng.random() < 0.8]
    else:
        dels = []
    for k in dels:
        if env.setlike:
            t.remove(env.k(2 * k))
        else:
            del t[env.k(2 * k)]
    return t


def shape_with_values(env, t):
    """('node', [(sep, child)]) / ('leaf', [(k, v)]) from __getstate__"""
    st = t.__getstate__()

    def leaf(lst):
        items = lst[0]
        if env.setlike:
            return ("leaf", [(env.km.ik(k), 0) for k in items])
        return ("leaf", [(env.km.ik(items[i]), env.vm.iv(items[i + 1])) for i in range(0, len(items), 2)])
    if st is None:
        return ("node", [])
    if len(st) == 1:
        return ("node", [(None, leaf(st[0][0]))])
    data, kids = st[0], []
    for i in range(0, len(data), 2):
        c = data[i]
        sep = None if i == 0 else env.km.ik(data[i - 1])
        kids.append((sep, shape_with_values(env, c) if type(c) is type(t) else leaf(c.__getstate__())))
    return ("node", kids)


def stale(rng, sh, lo=None):
    """lower some separators into the gap below their subtree (still > every key on the left)"""
    if sh[0] == "leaf":
        return sh, (sh[1][-1][0] if sh[1] else lo)
    kids, prevmax = [], lo
    for i, (sep, c) in enumerate(sh[1]):
        c2, cmax = stale(rng, c, prevmax)
        if i > 0 and rng.random() < 0.6:
            floor = prevmax + 1
            sep = rng.randint(floor, sep)
        kids.append((sep, c2))
        prevmax = cmax
    return ("node", kids), prevmax


def install(env, sh):
    """build real objects for shape sh through __setstate__; returns the root"""
    # leaves must be linked before the trees refer to firstbucket: two passes
    def collect(node, acc):
        if node[0] == "leaf":
            acc.append(node)
        else:
            for _, c in node[1]:
                collect(c, acc)
    order = []
    collect(sh, order)
    objs = {}
    nxt = None
    for node in reversed(order):
        b = env.f.cls("Set" if env.setlike else "Bucket", env.impl)()
        flat = tuple(env.k(k) for k, _ in node[1]) if env.setlike else tuple(x for k, v in node[1] for x in (env.k(k), env.v(v)))
        b.__setstate__((flat, nxt) if nxt is not None else (flat,))
        objs[id(node)] = b
        nxt = b

    def mk2(node):
        if node[0] == "leaf":
            return objs[id(node)], objs[id(node)]
        t = env.cls()
        data, first = [], None
        for i, (s, c) in enumerate(node[1]):
            o, f = mk2(c)
            if i == 0:
                first = f
            else:
                data.append(env.k(s))
            data.append(o)
        t.__setstate__((tuple(data), first))
        return t, first
    return mk2(sh)[0]


def tree_term(sh):
    if sh[0] == "leaf":
        return "(WLeafT [%s])" % "; ".join("KV %s %s" % (Z(k), Z(v)) for k, v in sh[1])
    return "(WNodeT [%s])" % "; ".join("WKidT %s %s" % (Z(0 if s is None else s), tree_term(c)) for s, c in sh[1])


def nleaves(sh):
    return 1 if sh[0] == "leaf" else sum(nleaves(c) for _, c in sh[1])


def flat(sh):
    return sh[1] if sh[0] == "leaf" else [x for _, c in sh[1] for x in flat(c)]


# ---------------------------------------------------------------- queries
def ob(b):
    return "BNone" if b is None else "(BSome %s)" % Z(b)


def expect_range(items, lo, hi, exlo, exhi):
    m = list(items)
    if lo is None and exlo:
        m = m[1:]
    if hi is None and exhi:
        m = m[:-1]
    out = []
    for k, v in m:
        if lo is not None and (k <= lo if exlo else k < lo):
            continue
        if hi is not None and (k >= hi if exhi else k > hi):
            continue
        out.append((k, v))
    return out


def kvs(l):
    return "[%s]" % "; ".join("KV %s %s" % (Z(k), Z(v)) for k, v in l)


def run_queries(ctx, rng, envs, trees, sh, nq, tag):
    """envs/trees: {'C': .., 'Py': ..}; returns list of wq terms"""
    items = flat(sh)
    keys = [k for k, _ in items]
    lo_all = (min(keys) if keys else 0) - 3
    hi_all = (max(keys) if keys else 0) + 3
    probes = sorted(set(keys + [k + 1 for k in keys] + [k - 1 for k in keys] + [lo_all, hi_all])) + [None, None, None]
    terms = []
    setlike = envs["C"].setlike

    def conv(env, seq):
        if setlike:
            return [(env.km.ik(k), 0) for k in seq]
        return [(env.km.ik(k), env.vm.iv(v)) for k, v in seq]

    def seqof(impl, lo, hi, exlo, exhi, how):
        env, t = envs[impl], trees[impl]
        a = [] if how == "kw" else [None if lo is None else env.k(lo), None if hi is None else env.k(hi)]
        kw = dict(excludemin=exlo, excludemax=exhi)
        if how == "kw":
            if lo is not None:
                kw["min"] = env.k(lo)
            if hi is not None:
                kw["max"] = env.k(hi)
        return (t.keys if setlike else t.items)(*a, **kw)

    def report(sigtail, what, replay):
        ctx.oracle_failure(sigtail, what, replay)

    for qi in range(nq):
        kindq = rng.choice(["range", "range", "range", "min", "max", "index", "slice"])
        lo, hi = rng.choice(probes), rng.choice(probes)
        exlo, exhi = rng.random() < 0.5, rng.random() < 0.5
        res = {}
        if kindq == "range":
            want = expect_range(items, lo, hi, exlo, exhi)
            for impl in ("C", "Py"):
                env, t = envs[impl], trees[impl]
                how = rng.choice(["pos", "kw"])
                try:
                    r = conv(env, list(seqof(impl, lo, hi, exlo, exhi, how)))
                    if not setlike and rng.random() < 0.3:
                        # keys()/values()/iter* forms must agree with items()
                        kk = [env.km.ik(k) for k in t.keys(None if lo is None else env.k(lo), None if hi is None else env.k(hi), exlo, exhi)]
                        vv = [env.vm.iv(v) for v in t.itervalues(None if lo is None else env.k(lo), None if hi is None else env.k(hi), exlo, exhi)]
                        ik = [env.km.ik(k) for k in t.iterkeys(None if lo is None else env.k(lo), None if hi is None else env.k(hi), exlo, exhi)]
                        if kk != [k for k, _ in r] or vv != [v for _, v in r] or ik != kk:
                            r = ("forms-disagree", kk, vv, r)
                except Exception as e:  # noqa
                    r = ("raised", type(e).__name__)
                res[impl] = r
                if r != want:
                    cls = ("omitted-%s-exclusive" % ("min" if lo is None and exlo else "max") if ((lo is None and exlo) or (hi is None and exhi)) else "explicit-bounds")
                    report("%s:range:%s:%s" % (impl, cls, tag), "%s %s keys/items(%r, %r, excludemin=%s, excludemax=%s) on %s -> %r, expected %r" % (
                        env.f.name, impl, lo, hi, exlo, exhi, sh, r, want), {"tree": sh, "q": ["range", lo, hi, exlo, exhi], "impl": impl, "family": env.f.name, "tag": tag})
            for w, impl in ([(0, "C")] if res["C"] == res["Py"] else [(1, "C"), (2, "Py")]):
                if isinstance(res[impl], list):
                    terms.append("QRange %d %s %s %s %s %s" % (w, ob(lo), ob(hi), str(exlo).lower(), str(exhi).lower(), kvs(res[impl])))
        elif kindq in ("min", "max"):
            b = lo
            if kindq == "min":
                cand = [k for k in keys if b is None or k >= b]
                want = min(cand) if cand else None
            else:
                cand = [k for k in keys if b is None or k <= b]
                want = max(cand) if cand else None
            for impl in ("C", "Py"):
                env, t = envs[impl], trees[impl]
                fn = t.minKey if kindq == "min" else t.maxKey
                try:
                    r = env.km.ik(fn(env.k(b)) if b is not None else (fn() if rng.random() < 0.5 else fn(None)))
                except ValueError:
                    r = None
                except Exception as e:  # noqa
                    r = ("raised", type(e).__name__)
                res[impl] = r
                if r != want:
                    report("%s:%sKey:%s" % (impl, kindq, tag), "%s %s %sKey(%r) on %s -> %r, expected %r" % (env.f.name, impl, kindq, b, sh, r, want),
                           {"tree": sh, "q": [kindq, b], "impl": impl, "family": env.f.name, "tag": tag})
            for w, impl in ([(0, "C")] if res["C"] == res["Py"] else [(1, "C"), (2, "Py")]):
                if not isinstance(res[impl], tuple):
                    terms.append("%s %d %s %s" % ("QMin" if kindq == "min" else "QMax", w, ob(b), ob(res[impl])))
        elif kindq == "index":
            want_l = expect_range(items, lo, hi, exlo, exhi)
            n = len(want_l)
            idx = [rng.randint(-n - 1, n) for _ in range(rng.randint(1, 8))]
            if rng.random() < 0.3:
                idx = list(range(n - 1, -1, -1))[:8]       # walk the finger backwards
            want = [want_l[i] if -n <= i < n else None for i in idx]
            for impl in ("C", "Py"):
                env = envs[impl]
                try:
                    s = seqof(impl, lo, hi, exlo, exhi, "pos")
                    out = []
                    for i in idx:
                        try:
                            e = s[i]
                            out.append(conv(env, [e])[0])
                        except IndexError:
                            out.append(None)
                    ln = len(s)
                    if bool(s) != (n > 0):
                        out = ("bool-wrong",)
                except Exception as e:  # noqa
                    out, ln = ("raised", type(e).__name__), -1
                res[impl] = (out, ln)
                if out != want or ln != n:
                    report("%s:lazyseq-index:%s" % (impl, tag), "%s %s seq(%r,%r,%s,%s)[%r] on %s -> %r len %r, expected %r len %d" % (
                        env.f.name, impl, lo, hi, exlo, exhi, idx, sh, out, ln, want, n), {"tree": sh, "q": ["index", lo, hi, exlo, exhi, idx], "impl": impl, "family": env.f.name, "tag": tag})
            for w, impl in ([(0, "C")] if res["C"] == res["Py"] else [(1, "C"), (2, "Py")]):
                out, ln = res[impl]
                if isinstance(out, list):
                    ents = "[%s]" % "; ".join("ENone" if e is None else "ESome %s %s" % (Z(e[0]), Z(e[1])) for e in out)
                    terms.append("QIndex %d %s %s %s %s [%s] %s %d" % (w, ob(lo), ob(hi), str(exlo).lower(), str(exhi).lower(),
                                                                     "; ".join(Z(i) for i in idx), ents, ln))
        else:
            want_l = expect_range(items, lo, hi, exlo, exhi)
            n = len(want_l)
            i, j = rng.randint(-n - 2, n + 2), rng.randint(-n - 2, n + 2)
            want = want_l[i:j]
            for impl in ("C", "Py"):
                env = envs[impl]
                try:
                    s = seqof(impl, lo, hi, exlo, exhi, "pos")
                    r = conv(env, list(s[i:j]))
                except Exception as e:  # noqa
                    r = ("raised", type(e).__name__)
                res[impl] = r
                if r != want:
                    report("%s:lazyseq-slice:%s" % (impl, tag), "%s %s seq(%r,%r,%s,%s)[%d:%d] on %s -> %r, expected %r" % (
                        env.f.name, impl, lo, hi, exlo, exhi, i, j, sh, r, want), {"tree": sh, "q": ["slice", lo, hi, exlo, exhi, i, j], "impl": impl, "family": env.f.name, "tag": tag})
            for w, impl in ([(0, "C")] if res["C"] == res["Py"] else [(1, "C"), (2, "Py")]):
                if isinstance(res[impl], list):
                    terms.append("QSlice %d %s %s %s %s %s %s %s" % (w, ob(lo), ob(hi), str(exlo).lower(), str(exhi).lower(), Z(i), Z(j), kvs(res[impl])))
        ctx.count((repr(sh), kindq, lo, hi, exlo, exhi), nontrivial=nleaves(sh) >= 2)
    return terms


def run(ctx):
    rng = ctx.rng
    ntrees = ctx.n(220, 15000)
    nq = ctx.n(40, 80)
    terms, meta = [], []
    stats = {"history": 0, "setstate-stale": 0, "single-child-root": 0, "leaves>=2": 0}
    for it in range(ntrees):
        kind = rng.choice(["BTree", "BTree", "TreeSet"])
        fn = rng.choice(ALL_FAMS)
        ml, mi = rng.choice(SIZES)
        mode = rng.choice({"O": ["none-int", "str", "int"]}.get(fn[0], [None, "extreme"]))
        if mode == "none-int":
            mode = "int"   # model keys 2k-1 may be negative probes; None is exercised in C01
        envs = {impl: TreeEnv(fn, kind, impl, mode) for impl in ("C", "Py")}
        for e in envs.values():
            e.km.span = 80
        use_stale = rng.random() < 0.4
        seed = rng.random()
        trees = {}
        import random as _r
        with envs["C"].sized(ml, mi), envs["Py"].sized(ml, mi):
            for impl in ("C", "Py"):
                trees[impl] = build_by_history(_r.Random(seed), envs[impl], ml, mi)
            sh = shape_with_values(envs["C"], trees["C"])
            if shape_with_values(envs["Py"], trees["Py"]) != sh:
                ctx.corr_mismatch("C and Python built different shapes", {"family": fn, "sizes": [ml, mi]})
                continue
            tag = "history"
            if use_stale and nleaves(sh) >= 2:
                sh, _ = stale(_r.Random(seed), sh)
                for impl in ("C", "Py"):
                    trees[impl] = install(envs[impl], sh)
                    if shape_with_values(envs[impl], trees[impl]) != sh:
                        ctx.corr_mismatch("__setstate__ did not install the shape", {"impl": impl, "shape": sh})
                tag = "setstate-stale"
            stats[tag] += 1
            if sh[0] == "node" and len(sh[1]) == 1 and sh[1][0][1][0] == "node":
                stats["single-child-root"] += 1
            if nleaves(sh) >= 2:
                stats["leaves>=2"] += 1
            qterms = run_queries(ctx, rng, envs, trees, sh, nq, tag)
        terms.append("RC %s [%s]" % (tree_term(sh), ";\n ".join(qterms)))
        meta.append((fn, kind, ml, mi, tag, sh))
        if len(ctx.samples) < 2 and nleaves(sh) >= 3 and len(flat(sh)) <= 8:
            ctx.sample({"family": fn, "kind": kind, "tree": str(sh), "built": tag, "queries": qterms[:4]})
    total, bad, errs = caseutil.eval_cases("c02", HDR, "rcase_ok", terms, shard=25, ctype="wrcase")
    ctx.traces = total
    for e in errs:
        ctx.corr_mismatch("c02 case file", e)
    for i in bad[:5]:
        ctx.corr_mismatch("Range model vs implementation (or vs reference)", {"case": meta[i]})
    ctx.cov["trees"] = stats


def replay(ctx, data):
    r = data["replay"]

    def tup(x):
        return tuple(tup(y) for y in x) if isinstance(x, list) else x
    sh = r["tree"]

    def fix(node):
        if node[0] == "leaf":
            return ("leaf", [tuple(p) for p in node[1]])
        return ("node", [(s, fix(c)) for s, c in node[1]])
    sh = fix(sh)
    env = TreeEnv(r["family"], "BTree", r["impl"], "int" if r["family"][0] == "O" else None)
    env.km.span = 80
    t = install(env, sh)
    q = r["q"]
    if q[0] == "range":
        lo, hi = q[1], q[2]
        got = [(env.km.ik(k), env.vm.iv(v)) for k, v in t.items(None if lo is None else env.k(lo), None if hi is None else env.k(hi), q[3], q[4])]
        want = expect_range(flat(sh), lo, hi, q[3], q[4])
        print("got", got, "expected", want)
        return 0 if got == want else 1
    print(q)
    return 0
