"""C14 -- an exception raised by a key comparison leaves the container intact."""
from harness import caseutil
from harness.families import fam, sizes

PROPS_FILE = "Props/C14.v"
MODEL_FILES = ["Model/RTree.v", "Model/Search.v"]
RULE = ("object-keyed containers (OO, OI, OL families; BTree, TreeSet, Bucket, Set) built by histories at node sizes "
        "(2,2),(2,3),(3,3),(1,2); for every operation kind (lookup, insert, replace, delete of a present / absent key, "
        "range search, minKey/maxKey, union/intersection/difference, conflict merge) and EVERY index n up to the number of "
        "primitive comparisons the operation performs, the n-th comparison raises; afterwards: exception propagated, "
        "contents = before or = completed change, _check(), check(), independent walk, follow-up calls; plus the sequence "
        "of stored keys each descent compares with, against the model; distinct by (tree, op, key, n); non-trivial = n-th "
        "comparison actually reached")
ASSUMPTIONS = ["a three-way comparison of the C macro COMPARE is one or two primitive comparisons (< then ==); failing either is failing the three-way comparison",
               "Python probes may repeat a stored key (== then <); consecutive repeats are collapsed before comparing with the model"]
Z = caseutil.z
HDR = ("From Coq Require Import ZArith List.\nFrom BT Require Import Model.CaseUtil Model.RTree Model.Search.\n"
       "Import ListNotations.\nOpen Scope Z_scope.\n")


class Boom(Exception):
    pass


class BoomT(Boom, TypeError):
    """a failing comparison whose exception happens to be a TypeError"""


class BoomK(Boom, KeyError):
    """a failing comparison whose exception happens to be a KeyError (e.g. a POSKeyError while loading the other key)"""


class BoomV(Boom, ValueError):
    """a failing comparison whose exception happens to be a ValueError (the class the range code itself raises for
    "no key satisfies the conditions")"""


class TV:
    """value object whose instances are counted (leak detection)"""
    __slots__ = ("n",)
    live = 0

    def __init__(self, n):
        self.n = n
        TV.live += 1

    def __del__(self):
        TV.live -= 1

    def __eq__(self, o):
        return isinstance(o, TV) and o.n == self.n

    def __hash__(self):
        return hash(self.n)

    def __repr__(self):
        return "TV%d" % self.n


class CK:
    """key whose comparisons are counted, recorded and can be made to fail"""
    __slots__ = ("n",)
    count = 0
    fail_at = None
    probes = None
    target = None
    exc = Boom        # what a failing comparison raises
    live = 0          # instances alive (leak detection)

    def __init__(self, n):
        self.n = n
        CK.live += 1

    def __del__(self):
        CK.live -= 1

    def _hit(self, other):
        CK.count += 1
        if CK.probes is not None:
            if other is CK.target:
                CK.probes.append(self.n)
            elif self is CK.target:
                CK.probes.append(other.n)
        if CK.fail_at is not None and CK.count == CK.fail_at:
            raise CK.exc(CK.count)

    def __lt__(self, o):
        self._hit(o); return self.n < o.n

    def __gt__(self, o):
        self._hit(o); return self.n > o.n

    def __le__(self, o):
        self._hit(o); return self.n <= o.n

    def __ge__(self, o):
        self._hit(o); return self.n >= o.n

    def __eq__(self, o):
        if not isinstance(o, CK):
            return False
        self._hit(o); return self.n == o.n

    def __ne__(self, o):
        if not isinstance(o, CK):
            return True
        self._hit(o); return self.n != o.n

    def __hash__(self):
        return hash(self.n)

    def __repr__(self):
        return "CK%d" % self.n


def quiet():
    CK.fail_at, CK.probes, CK.target, CK.exc = None, None, None, Boom


def build(cls, setlike, keys_in, keys_del, val):
    quiet()
    t = cls()
    for k in keys_in:
        if setlike:
            t.add(CK(k))
        else:
            t[CK(k)] = val(k)
    for k in keys_del:
        if setlike:
            t.remove(CK(k))
        else:
            del t[CK(k)]
    return t


def shape(t, setlike):
    st = t.__getstate__()

    def leaf(ls):
        items = ls[0]
        return ("leaf", [k.n for k in (items if setlike else items[0::2])])
    if st is None:
        return ("node", [])
    if len(st) == 1:
        return ("node", [(0, leaf(st[0][0]))])
    data, kids = st[0], []
    for i in range(0, len(data), 2):
        c = data[i]
        kids.append((0 if i == 0 else data[i - 1].n, shape(c, setlike) if type(c) is type(t) else leaf(c.__getstate__())))
    return ("node", kids)


def shape_term(sh):
    if sh[0] == "leaf":
        return "(WTL [%s])" % "; ".join(Z(k) for k in sh[1])
    return "(WTN [%s])" % "; ".join("WTK %s %s" % (Z(s), shape_term(c)) for s, c in sh[1])


def contents(t, setlike):
    quiet()
    return [k.n for k in t] if setlike else [(k.n, v.n if isinstance(v, TV) else v) for k, v in t.items()]


def collapse(seq):
    out = []
    for x in seq:
        if not out or out[-1] != x:
            out.append(x)
    return out


def sound(t, kind):
    import BTrees.check
    quiet()
    if kind in ("BTree", "TreeSet"):
        t._check()
        BTrees.check.check(t)
        # chain vs descent, no empty leaves
        ks = [k.n for k in t]
        if ks != sorted(set(ks)):
            raise AssertionError("iteration not strictly ascending")
        b = t._firstbucket
        n = 0
        while b is not None:
            if len(b) == 0:
                raise AssertionError("empty leaf on the chain")
            n += len(b)
            b = b._next
        if n != len(ks):
            raise AssertionError("chain length differs")


def run(ctx):
    rng = ctx.rng
    terms = []
    ntrees = ctx.n(40, 600)
    reached = {}
    for it in range(ntrees):
        fn = rng.choice(["OO", "OI", "OL", "OO"])
        kind = rng.choice(["BTree", "BTree", "TreeSet", "Bucket", "Set"])
        impl = rng.choice(["C", "C", "Py"])
        f = fam(fn)
        cls = f.cls(kind, impl)
        setlike = kind in ("TreeSet", "Set")
        vm = f.valmap()
        val = (lambda k: TV(k % 4)) if fn == "OO" else (lambda k: vm.v(k % 4))
        ml, mi = rng.choice([(2, 2), (2, 3), (3, 3), (1, 2)])
        u = rng.choice([6, 12, 20])
        keys_in = rng.sample(range(0, 2 * u, 2), rng.randint(1, u))
        keys_del = [k for k in keys_in if rng.random() < 0.3]
        with sizes([f.cls("BTree", impl), f.cls("TreeSet", impl)], ml, mi):
            base = build(cls, setlike, keys_in, keys_del, val)
            before = contents(base, setlike)
            sh = shape(base, setlike) if kind in ("BTree", "TreeSet") else ("node", [(0, ("leaf", [x if setlike else x[0] for x in before]))])
            present = [x if setlike else x[0] for x in before]
            import gc
            t = key = nk = None
            gc.collect()
            live0 = CK.live + TV.live       # the keys and values of 'base' only
            cand_keys = sorted(set(rng.sample(present, min(3, len(present))) + [rng.randrange(-1, 2 * u + 1) for _ in range(2)]))
            for k in cand_keys:
                ops = ["get", "set", "del", "range", "minkey", "maxkey", "rangelen"] + (["discard", "ixor", "ior", "isub", "iand"] if setlike else ["pop", "popitem"])
                held = []            # a lazy sequence kept across the failing call (rangelen)
                for op in ops:
                    def do(t, key):
                        if op == "popitem":
                            return t.popitem()
                        if op == "rangelen":
                            held[:] = [t.keys(key, CK(key.n + 5))]
                            return len(held[0])
                        if op == "get":
                            return (key in t) if setlike else t.get(key)
                        if op == "set":
                            return t.add(key) if setlike else t.__setitem__(key, val(7))
                        if op == "del":
                            return t.remove(key) if setlike else t.__delitem__(key)
                        if op == "range":
                            return [x for x in t.keys(key, CK(key.n + 5))]   # (not list(): its length hint swallows a TypeError raised by __len__)
                        if op == "minkey":
                            return t.minKey(key)
                        if op == "maxkey":
                            return t.maxKey(key)
                        if op in ("ixor", "ior", "isub", "iand"):
                            import operator
                            return getattr(operator, op)(t, [key])      # one element: a bulk operator is a fold of single operations
                        if op == "pop":
                            return t.pop(key, None)
                        if op == "discard":
                            return t.discard(key)
                    # ---- reference run: count comparisons, record probes, result
                    t = build(cls, setlike, keys_in, keys_del, val)
                    key = CK(k)
                    CK.count, CK.fail_at, CK.probes, CK.target = 0, None, [], key
                    try:
                        do(t, key)
                        ref_exc = None
                    except (KeyError, ValueError) as e:
                        ref_exc = type(e).__name__
                    total = CK.count
                    probes = collapse(CK.probes)
                    held[:] = []
                    quiet()
                    after = contents(t, setlike)
                    if op in ("get", "set", "del") and kind in ("BTree", "TreeSet", "Bucket", "Set"):
                        terms.append("CT %s %s %s [%s]" % (shape_term(sh), "true" if op == "del" else "false", Z(k), "; ".join(Z(p) for p in probes)))
                    # ---- fail every comparison in turn
                    for n in range(1, total + 1):
                        t = key = nk = None
                        t = build(cls, setlike, keys_in, keys_del, val)
                        key = CK(k)
                        CK.count, CK.fail_at, CK.probes, CK.target = 0, n, None, None
                        CK.exc = BoomT if (kind in ("BTree", "TreeSet") and op in ("get", "range", "minkey") and n % 2 == 0) else Boom
                        if op in ("discard", "get", "pop") and n % 3 == 1:
                            # a KeyError SUBCLASS raised by a comparison (a POSKeyError while the other key is loaded) is
                            # not "key not found": both implementations let it through
                            CK.exc = BoomK
                        if op in ("minkey", "maxkey", "range", "rangelen") and n % 3 == 2:
                            # "no key satisfies the conditions" is a ValueError too: one raised by a COMPARISON is not that
                            CK.exc = BoomV
                        CK_exc_was = CK.exc
                        outcome = None
                        try:
                            do(t, key)
                            outcome = "no-exception"
                        except Boom:
                            outcome = "boom"
                        except Exception as e:  # noqa
                            outcome = "other:" + type(e).__name__
                        quiet()
                        reached[op] = reached.get(op, 0) + 1
                        ctx.count((fn, kind, impl, tuple(keys_in), tuple(keys_del), op, k, n))
                        bad = None
                        if outcome != "boom":
                            bad = "exception-not-propagated%s:" % ("-keyerror-subclass" if CK_exc_was is BoomK else "-valueerror-subclass" if CK_exc_was is BoomV else "") + outcome
                        else:
                            try:
                                now = contents(t, setlike)
                                if now != before and now != after:
                                    bad = "partial-change"
                                else:
                                    sound(t, kind)
                                    if op == "rangelen" and held:
                                        # the very sequence whose len() failed must now report its true length
                                        if len(held[0]) != len([x for x in held[0]]):
                                            bad = "later-ops-misbehave:len-of-the-sequence-after-failed-len"
                                    held[:] = []
                                    # later operations behave normally
                                    nk = CK(2 * u + 3)
                                    if setlike:
                                        t.add(nk); ok = nk in t; t.remove(nk)
                                    else:
                                        t[nk] = val(1); ok = t.get(nk) == val(1); del t[nk]
                                    if bad is None and (not ok or contents(t, setlike) != now):
                                        bad = "later-ops-misbehave"
                                    else:
                                        sound(t, kind)
                            except AssertionError as e:
                                bad = "unsound:" + str(e)[:50]
                            except Exception as e:  # noqa
                                bad = "later-ops-raise:" + type(e).__name__
                        held[:] = []
                        if bad is None:
                            # no stored key is leaked: dropping the container frees every key object
                            t = key = nk = None
                            if CK.live + TV.live != live0:
                                gc.collect()
                            if CK.live + TV.live != live0:
                                bad = "leak:%d key / value object(s) still alive after the container was dropped" % (CK.live + TV.live - live0)
                                live0 = CK.live + TV.live
                        if bad:
                            ctx.oracle_failure("%s:%s:%s:%s" % (impl, kind, op, bad.split(":")[0] + (":" + bad.split(":")[1] if bad.startswith("unsound") else "")),
                                               "%s%s/%s sizes=(%d,%d) keys=%r deleted=%r: %s(%d) with comparison #%d of %d failing: %s" % (
                                                   fn, kind, impl, ml, mi, sorted(keys_in), sorted(keys_del), op, k, n, total, bad),
                                               {"family": fn, "kind": kind, "impl": impl, "sizes": [ml, mi], "keys_in": keys_in, "keys_del": keys_del, "op": op, "key": k, "n": n})
                            break
        # ---- set algebra and conflict merge with failing comparisons
        mod = f.mod
        a_keys = sorted(rng.sample(range(20), rng.randint(1, 6)))
        b_keys = sorted(rng.sample(range(20), rng.randint(1, 6)))
        for fname in ("union", "intersection", "difference"):
            fn_ = f.func(fname, impl)
            SetC = f.cls("Set", impl)
            quiet()
            A, B = SetC([CK(x) for x in a_keys]), SetC([CK(x) for x in b_keys])
            CK.count = 0
            fn_(A, B)
            total = CK.count
            for n in range(1, total + 1):
                quiet()
                A, B = SetC([CK(x) for x in a_keys]), SetC([CK(x) for x in b_keys])
                CK.count, CK.fail_at = 0, n
                try:
                    fn_(A, B); out = "no-exception"
                except Boom:
                    out = "boom"
                except Exception as e:  # noqa
                    out = "other:" + type(e).__name__
                quiet()
                ctx.count((fn, impl, fname, tuple(a_keys), tuple(b_keys), n))
                reached[fname] = reached.get(fname, 0) + 1
                if out != "boom" or [k.n for k in A] != a_keys or [k.n for k in B] != b_keys:
                    ctx.oracle_failure("%s:%s:failing-comparison" % (impl, fname), "%s %s(%r, %r) comparison #%d failing: %s, operands now %r %r" % (fn, fname, a_keys, b_keys, n, out, [k.n for k in A], [k.n for k in B]),
                                       {"family": fn, "impl": impl, "fn": fname, "a": a_keys, "b": b_keys, "n": n})
                    break
        # ---- set algebra with a plain iterable (with repeats) as operand: every comparison of the sort, of the
        #      de-duplication and of the merge fails in turn; afterwards no key object may stay alive
        import gc
        for fname in ("union", "intersection", "difference"):
            if impl != "C":
                break
            fn_ = f.func(fname, impl)
            SetC = f.cls("Set", impl)
            pattern = [rng.randrange(8) for _ in range(rng.randint(2, 7))]
            quiet()
            A = SetC([CK(x) for x in a_keys]); lst = [CK(x) for x in pattern]
            CK.count = 0
            fn_(A, lst)
            total = CK.count
            A = lst = None
            gc.collect()
            live0 = CK.live
            for n in range(1, total + 1):
                quiet()
                A = SetC([CK(x) for x in a_keys]); lst = [CK(x) for x in pattern]
                CK.count, CK.fail_at = 0, n
                try:
                    fn_(A, lst); out = "no-exception"
                except Boom:
                    out = "boom"
                except Exception as e:  # noqa
                    out = "other:" + type(e).__name__
                quiet()
                A = lst = None
                if CK.live != live0:
                    gc.collect()
                ctx.count((fn, impl, fname + "-iterable", tuple(a_keys), tuple(pattern), n))
                reached[fname + "-iterable"] = reached.get(fname + "-iterable", 0) + 1
                if out != "boom" or CK.live != live0:
                    ctx.oracle_failure("%s:%s:iterable-operand:%s" % (impl, fname, "leak" if out == "boom" else "failing-comparison"),
                                       "%s %s(Set%r, list%r) comparison #%d of %d failing: %s; %d key object(s) still alive after everything was dropped" % (
                                           fn, fname, a_keys, pattern, n, total, out, CK.live - live0), {"family": fn, "impl": impl, "fn": fname, "a": a_keys, "list": pattern, "n": n})
                    live0 = CK.live
                    break
        # conflict merge
        if not False:
            Bk = f.cls("Set", impl)
            old = sorted(rng.sample(range(12), rng.randint(1, 5)))
            com = sorted(set(old) | {rng.randrange(12, 16)})
            new = sorted(set(old) | {rng.randrange(16, 20)})
            mk = lambda ks: (tuple(CK(x) for x in ks),)   # noqa
            quiet()
            CK.count = 0
            try:
                Bk()._p_resolveConflict(mk(old), mk(com), mk(new))
            except Exception:  # noqa
                pass
            total = CK.count
            for n in range(1, total + 1):
                quiet()
                CK.count, CK.fail_at = 0, n
                try:
                    Bk()._p_resolveConflict(mk(old), mk(com), mk(new)); out = "no-exception"
                except Boom:
                    out = "boom"
                except Exception as e:  # noqa
                    out = "other:" + type(e).__name__
                quiet()
                ctx.count((fn, impl, "merge", tuple(old), tuple(com), tuple(new), n))
                reached["merge"] = reached.get("merge", 0) + 1
                if out != "boom":
                    ctx.oracle_failure("%s:merge:failing-comparison" % impl, "%s Set._p_resolveConflict comparison #%d failing: %s" % (fn, n, out),
                                       {"family": fn, "impl": impl, "old": old, "com": com, "new": new, "n": n})
                    break
    total, bad, errs = caseutil.eval_cases("c14", HDR, "cmpcase_ok", terms, shard=300, ctype="wcmpcase")
    ctx.traces = total
    for e in errs:
        ctx.corr_mismatch("c14 case file", e)
    for i in bad[:5]:
        ctx.corr_mismatch("Search model vs implementation (probe sequence)", {"case": terms[i][:600]})
    ctx.cov["failing_comparisons_injected_by_operation"] = reached
    ctx.sample({"case": terms[0][:300] if terms else None})


def replay(ctx, data):
    print(data["replay"])
    return 0
