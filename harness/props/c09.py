"""C09 -- the C extension and the pure-Python fallback are interchangeable."""
import pickle

from harness.families import ALL_FAMS, BOUNDS
from harness.treelib import TreeEnv
from harness.props.c01 import gen_history
from harness.props.c13 import Idx, Plain

PROPS_FILE = "Props/C09.v"
MODEL_FILES = ["Model/RTree.v", "Model/TreeRun.v", "Model/Conv.v"]
RULE = ("the same call history executed on the C and on the Python class of a family (all 22 families, 4 kinds, node sizes "
        "(2,2)..(4,4) and defaults), with arguments inside the family's domain and, interleaved, arguments outside it "
        "(out-of-range ints, wrong types, None, floats, bools, objects with default comparison, unhashable values) as key "
        "and as value of lookups and writes; after every call: equal result, same exception class, equal contents, equal "
        "shape, byte-identical pickle; distinct by (family, kind, history); non-trivial = history with an out-of-domain call")
ASSUMPTIONS = ["byValue, error message texts and the return value of update() are not compared (excluded by the property)",
               "has_key is compared by truth value"]


def bad_values(rng, f, role):
    tc = f.kk if role == "key" else f.vk
    out = [None, "x", 1.5, (1, 2), b"ab", Plain(), [1], True]
    if tc in BOUNDS:
        lo, hi = BOUNDS[tc]
        out += [lo - 1, hi + 1, 2**70, -2**70]
    if tc == "F":
        out += [2**2000]
    return rng.choice(out)


def call_raw(t, kind, name, a, b):
    """one public call with raw arguments; returns (class-of-outcome, value)"""
    setlike = kind in ("TreeSet", "Set")
    try:
        if name == "set":
            r = t.add(a) if setlike else t.__setitem__(a, b)
            r = bool(r) if setlike else None
        elif name == "del":
            r = t.remove(a) if setlike else t.__delitem__(a)
        elif name == "get":
            r = (a in t) if setlike else t.get(a)
        elif name == "getd":
            r = (a in t) if setlike else t.get(a, b)
        elif name == "item":
            r = (a in t) if setlike else t[a]
        elif name == "in":
            r = a in t
        elif name == "has_key":
            r = bool(t.has_key(a))
        elif name == "setdefault":
            r = None if setlike else t.setdefault(a, b)
        elif name == "pop":
            r = t.discard(a) if setlike else t.pop(a)
        elif name == "popd":
            r = t.discard(a) if setlike else t.pop(a, b)
        elif name == "insert":
            r = t.add(a) if setlike or kind == "Bucket" and False else (t.insert(a, b) if kind == "BTree" else t.__setitem__(a, b))
            r = bool(r) if r is not None else None
        elif name == "update":
            r = t.update([a] if setlike else [(a, b)]); r = None
        elif name in ("isub", "iand", "ior", "ixor"):
            import operator
            getattr(operator, name)(t, [a]); r = None
        elif name == "keys":
            r = list(t.keys(a))
        elif name == "minKey":
            r = t.minKey(a)
        elif name == "maxKey":
            r = t.maxKey(a)
        else:
            raise ValueError(name)
        return ("ok", r)
    except Exception as e:  # noqa
        return (type(e).__name__,)


def state_repr(t):
    """the serialized state, recursively, as a comparable value (class names without the Py suffix)"""
    from persistent import Persistent

    def conv(x, seen):
        if isinstance(x, Persistent):
            if id(x) in seen:
                return ("ref", seen[id(x)])
            seen[id(x)] = len(seen)
            name = type(x).__name__
            return (name[:-2] if name.endswith("Py") else name, conv(x.__getstate__(), seen))
        if isinstance(x, (tuple, list)):
            return tuple(conv(y, seen) for y in x)
        return repr(x)
    return conv(t, {})


def canon_result(env, r):
    """map family values back to model numbers where possible (C and Py use the same maps)"""
    return repr(r)


def stale_side_by_side(ctx, rng, n):
    """C and Python on the SAME stored state with stale separators (installed through __setstate__, as a database load
    would): minKey(k) / maxKey(k) / keys(lo, hi) for every probe of a small universe must agree -- range code that is
    only right for the shapes the current code produces differs here first"""
    import random as _r
    from harness.props import c02
    from harness.treelib import TreeEnv
    nq = 0
    for it in range(n):
        kind = rng.choice(["BTree", "TreeSet"])
        fn = rng.choice(ALL_FAMS)
        ml, mi = rng.choice(c02.SIZES)
        mode = "int" if fn[0] == "O" else None
        envs = {impl: TreeEnv(fn, kind, impl, mode) for impl in ("C", "Py")}
        for e in envs.values():
            e.km.span = 80
        seed = rng.random()
        with envs["C"].sized(ml, mi), envs["Py"].sized(ml, mi):
            trees = {impl: c02.build_by_history(_r.Random(seed), envs[impl], ml, mi) for impl in ("C", "Py")}
            sh = c02.shape_with_values(envs["C"], trees["C"])
            if c02.nleaves(sh) < 2 or c02.shape_with_values(envs["Py"], trees["Py"]) != sh:
                continue
            sh, _ = c02.stale(_r.Random(seed), sh)
            trees = {impl: c02.install(envs[impl], sh) for impl in ("C", "Py")}
            ks = [x[0] for x in c02.flat(sh)]
            lo_, hi_ = min(ks) - 2, max(ks) + 2
            bad = None
            for k in range(lo_, hi_ + 1):
                for name in ("minKey", "maxKey", "keys"):
                    r = {impl: call_raw(trees[impl], kind, name, envs[impl].k(k), None) for impl in ("C", "Py")}
                    nq += 1
                    if r["C"][0] != r["Py"][0] or (r["C"][0] == "ok" and repr(r["C"][1]) != repr(r["Py"][1])):
                        bad = (name, k, r["C"], r["Py"])
                        break
                if bad:
                    break
            if bad:
                ctx.oracle_failure("C-vs-Py:%s:stale-separators:%s" % (kind, bad[0]),
                                   "%s%s sizes=(%d,%d) state with stale separators %r: %s(%d): C %r, Python %r" % (fn, kind, ml, mi, sh, bad[0], bad[1], bad[2], bad[3]),
                                   {"family": fn, "kind": kind, "sizes": [ml, mi], "shape": repr(sh), "call": bad[0], "key": bad[1]})
            ctx.count(("stale", fn, kind, ml, mi, seed))
    ctx.cov["side_by_side_queries_on_states_with_stale_separators"] = nq


def run(ctx):
    rng = ctx.rng
    nh = ctx.n(1200, 80000)
    stats = {"calls": 0, "out_of_domain_calls": 0, "typeerror_both": 0, "absence_both": 0}
    for it in range(nh):
        kind = rng.choice(["BTree", "TreeSet", "Bucket", "Set", "BTree"])
        fn = rng.choice(ALL_FAMS)
        sz = rng.choice([(2, 2), (3, 3), (4, 4), (2, 3), None])
        mode = rng.choice({"O": ["int", "str"]}.get(fn[0], [None, "extreme"]))
        envs = {impl: TreeEnv(fn, kind, impl, mode) for impl in ("C", "Py")}
        # both implementations must use the very same key/value objects
        envs["Py"].km, envs["Py"].vm = envs["C"].km, envs["C"].vm
        f = envs["C"].f
        setlike = kind in ("TreeSet", "Set")
        ml, mi = sz if sz else (envs["C"].treecls[0].max_leaf_size, envs["C"].treecls[0].max_internal_size)
        u = rng.choice([6, 14, 30])
        calls = gen_history(rng, kind, u, rng.choice([10, 30, 60]), avoid0=False)
        had_bad = False
        iand_probe = False      # an out-of-domain probe ran &= on both implementations (finding F17 then applies to the shapes)
        with envs["C"].sized(ml, mi), envs["Py"].sized(ml, mi):
            ts = {impl: envs[impl].new() for impl in ("C", "Py")}
            for i, c in enumerate(calls):
                # ---- an in-domain call through the shared adapter
                res = {impl: envs[impl].call(ts[impl], c) for impl in ("C", "Py")}
                stats["calls"] += 1
                bad = None
                if res["C"] != res["Py"] and c[0] != "update":
                    bad = ("result", c[0], res["C"], res["Py"])
                # ---- a range view, indexed inside and outside its bounds (positive and negative), side by side
                if bad is None and rng.random() < 0.2:
                    meth = rng.choice(["keys"] if setlike else ["keys", "values", "items"])
                    lo_k = None if rng.random() < 0.3 else envs["C"].k(rng.randrange(u))
                    hi_k = None if rng.random() < 0.3 else envs["C"].k(rng.randrange(u))
                    exmin, exmax = rng.random() < 0.4, rng.random() < 0.4

                    def view_probe(t):
                        try:
                            seq = getattr(t, meth)(lo_k, hi_k, exmin, exmax)
                            n = len(seq)
                            out = [n]
                            for ix in (0, 1, -1, n - 1, n, n + 1, -n, -n - 1, -n - 2, -n - 7, n + 7):
                                try:
                                    out.append(repr(seq[ix]))
                                except Exception as e:  # noqa
                                    out.append(type(e).__name__)
                            return out
                        except Exception as e:  # noqa
                            return [type(e).__name__]

                    def minmax_probe(t):        # without a bound, also on an empty container
                        out = []
                        for nm in ("minKey", "maxKey"):
                            try:
                                out.append(repr(getattr(t, nm)()))
                            except Exception as e:  # noqa
                                out.append(type(e).__name__)
                        return out
                    mm = {impl: minmax_probe(ts[impl]) for impl in ("C", "Py")}
                    if mm["C"] != mm["Py"]:      # reported, but the history goes on (finding F41 would end every history that empties a bucket)
                        ctx.oracle_failure("C-vs-Py:%s:minKey-maxKey-without-bound:%s" % (kind, "empty" if not len(ts["C"]) else "non-empty"),
                                           "%s%s sizes=%s after call #%d %r: minKey() / maxKey() without a bound: C %r, Python %r" % (fn, kind, (ml, mi), i, c, mm["C"], mm["Py"]),
                                           {"family": fn, "kind": kind, "mode": mode, "sizes": [ml, mi], "calls": calls[:i + 1], "difference": repr(mm)})
                    vp = {impl: view_probe(ts[impl]) for impl in ("C", "Py")}
                    stats["range_view_index_probes"] = stats.get("range_view_index_probes", 0) + 1
                    if bad is None and vp["C"] != vp["Py"]:
                        bad = ("range-view-index", meth, vp["C"], vp["Py"], repr((lo_k, hi_k, exmin, exmax)))
                # ---- an out-of-domain call
                if bad is None and rng.random() < 0.35:
                    role = rng.choice(["key", "value"]) if not setlike else "key"
                    name = rng.choice(["set", "del", "get", "getd", "item", "in", "has_key", "setdefault", "pop", "popd", "insert", "update", "keys", "minKey", "maxKey"])
                    if role == "value" and name not in ("set", "setdefault", "insert", "update", "getd", "popd"):
                        name = "set"
                    if setlike and role == "key" and rng.random() < 0.25:
                        name = rng.choice(["isub", "iand", "ior", "ixor"])        # an out-of-domain element in the operand of an in-place operator
                    good_k = envs["C"].k(rng.randrange(u))
                    good_v = envs["C"].v(rng.randrange(4))
                    a = bad_values(rng, f, "key") if role == "key" else good_k
                    b = bad_values(rng, f, "value") if role == "value" else good_v
                    if f.kk == "O" and role == "key" and not isinstance(a, Plain) and a is not None:
                        # other python values are legitimate object keys; one that cannot be ordered against the
                        # stored keys (str vs int) must fail -- or report absence -- the same way in both
                        a = Plain() if rng.random() < 0.5 else ("x" if mode == "int" else 5)
                        if not isinstance(a, Plain) and name in ("set", "setdefault", "insert", "update", "ior", "ixor", "isub", "iand"):
                            name = rng.choice(["get", "getd", "item", "in", "has_key", "pop", "popd", "del", "keys", "minKey"])  # an empty container would accept the write
                    if f.vk == "O" and role == "value":
                        continue
                    had_bad = True
                    stats["out_of_domain_calls"] += 1
                    if name == "iand":
                        iand_probe = True
                    before = {impl: list(ts[impl]) if setlike else list(ts[impl].items()) for impl in ("C", "Py")}
                    r2 = {impl: call_raw(ts[impl], kind, name, a, b) for impl in ("C", "Py")}
                    after = {impl: list(ts[impl]) if setlike else list(ts[impl].items()) for impl in ("C", "Py")}
                    def same_value(x, y):
                        try:
                            return bool(x == y) or repr(x) == repr(y)
                        except Exception:  # noqa
                            return repr(x) == repr(y)
                    if r2["C"][0] != r2["Py"][0] or (r2["C"][0] == "ok" and not same_value(r2["C"][1], r2["Py"][1])):
                        unord = f.kk == "O" and role == "key" and not isinstance(a, Plain) and a is not None
                        only_none = all((x if setlike else x[0]) is None for x in before["C"])     # no stored key whose comparison could be asked
                        bad = ("out-of-domain-" + role, name + (":empty-container" if (not before["C"] or only_none) else "") + (":unorderable-key" if unord else ""), r2["C"], r2["Py"], repr(a)[:40], repr(b)[:40])
                    else:
                        if r2["C"][0] == "TypeError":
                            stats["typeerror_both"] += 1
                        if name in ("set", "setdefault", "insert", "update") and r2["C"][0] != "ok":
                            for impl in ("C", "Py"):
                                if before[impl] != after[impl]:
                                    bad = ("rejected-write-modified", name, impl)
                        if name in ("get", "in", "has_key", "item", "getd", "pop", "popd") and r2["C"][0] in ("ok", "KeyError"):
                            stats["absence_both"] += 1
                # ---- keys / values at the edges of the family's domain: both must treat them alike (and restore)
                if bad is None and rng.random() < 0.12 and (f.kk in BOUNDS or (f.vk in BOUNDS and not setlike)):
                    role = rng.choice([r for r, tc in (("key", f.kk), ("value", f.vk)) if tc in BOUNDS and not (r == "value" and setlike)])
                    lo, hi = BOUNDS[f.kk if role == "key" else f.vk]
                    x = rng.choice([c for c in (lo, lo + 1, hi, hi - 1, (lo + hi) // 2, (lo + hi) // 2 + 1, 2**31 - 1, 2**31, 2**32 - 1, 2**63 - 1, 2**63, -2**31, -2**31 - 1) if lo <= c <= hi])
                    probe = {}
                    for impl in ("C", "Py"):
                        t = ts[impl]
                        try:
                            if role == "key":
                                if x in t:
                                    probe[impl] = "present"
                                    continue
                                if setlike:
                                    t.add(x)
                                else:
                                    t[x] = envs["C"].v(1)
                                back = [k for k in t if k == x]
                                probe[impl] = ("ok", repr(back), type(back[0]).__name__ if back else None)
                                if setlike:
                                    t.remove(x)
                                else:
                                    del t[x]
                            else:
                                k0 = envs["C"].k(rng.randrange(u)) if not probe else k0
                                had = k0 in t
                                old = t[k0] if had else None
                                t[k0] = x
                                probe[impl] = ("ok", repr(t[k0]), type(t[k0]).__name__)
                                if had:
                                    t[k0] = old
                                else:
                                    del t[k0]
                        except Exception as e:  # noqa
                            probe[impl] = ("raises", type(e).__name__)
                    stats["edge_value_probes"] = stats.get("edge_value_probes", 0) + 1
                    if probe.get("C") != probe.get("Py"):
                        bad = ("edge-of-domain-" + role, "set", probe.get("C"), probe.get("Py"), repr(x))
                # ---- contents, shape, serialized state
                if bad is None and (i % 5 == 4 or i == len(calls) - 1):
                    cont = {impl: list(ts[impl]) if setlike else list(ts[impl].items()) for impl in ("C", "Py")}
                    if cont["C"] != cont["Py"]:
                        bad = ("contents",)
                    elif kind in ("BTree", "TreeSet") and state_repr(ts["C"]) != state_repr(ts["Py"]):
                        if not iand_probe and not any(cc[0] == "iand" for cc in calls[:i + 1]):
                            bad = ("shape",)
                        else:
                            bad = ("shape-after-iand",)
                    elif pickle.dumps(ts["C"], 2) != pickle.dumps(ts["Py"], 2):
                        bad = (("pickle" if not iand_probe and not any(cc[0] == "iand" for cc in calls[:i + 1]) else "pickle-after-iand") + (":fs" if fn == "fs" else ""),)
                if bad:
                    try:
                        sizes_now = "C holds %d, Python holds %d entries: %r" % (len(ts["C"]), len(ts["Py"]), [repr(x)[:30] for x in list(ts["C"])[:4]])
                    except Exception:  # noqa
                        sizes_now = "?"
                    ctx.oracle_failure("C-vs-Py:%s:%s" % (kind, ":".join(str(x) for x in bad[:2])),
                                       "%s%s sizes=%s call #%d %r (%s): C and Python differ: %r" % (fn, kind, (ml, mi), i, c, sizes_now, bad),
                                       {"family": fn, "kind": kind, "mode": mode, "sizes": [ml, mi], "calls": calls[:i + 1], "difference": repr(bad)})
                    break
        ctx.count((fn, kind, repr(calls)), nontrivial=had_bad)
    # ---- the tie of C09's theorems to the code, in C09's own run: C09_results_equal / C09_shape_equal are about
    # ONE model with switches; both implementations must follow that model (results, contents, shape) on the
    # same in-domain histories
    from harness import caseutil
    from harness.treelib import HDR, call_term, out_term, shape_term
    terms, meta = [], []
    for it in range(ctx.n(120, 3000)):
        kind = rng.choice(["BTree", "TreeSet", "BTree", "Bucket", "Set"])
        fn = rng.choice(ALL_FAMS)
        setlike = kind in ("TreeSet", "Set")
        ml, mi = rng.choice([(2, 2), (3, 3), (2, 3), (4, 4), (1, 2)]) if kind in ("BTree", "TreeSet") else (100000, 100000)
        mode = rng.choice({"O": ["none-int", "str", "int"]}.get(fn[0], [None, "extreme"]))
        u = rng.choice([6, 14, 30])
        calls = gen_history(rng, kind, u, rng.choice([10, 25, 50]), avoid0=(mode == "none-int"), selfops=True)
        for impl in ("C", "Py"):
            env = TreeEnv(fn, kind, impl, mode)
            with env.sized(ml, mi):
                t = env.new()
                outs = [env.call(t, c) for c in calls]
                sh = env.shape(t) if kind in ("BTree", "TreeSet") else None
                items = [(env.km.ik(k), 0) for k in t] if setlike else [(env.km.ik(k), env.vm.iv(v)) for k, v in t.items()]
            vs = "true" if (impl == "C" and fn[1] in "IULQF" and not setlike and fn != "fs") else "false"
            terms.append("TC %d %d %s %s [%s] [%s] %s [%s]" % (
                ml, mi, vs, "true" if impl == "C" else "false",
                "; ".join(call_term(c) for c in calls), "; ".join(out_term(o) for o in outs),
                shape_term(sh) if sh is not None else "WAnyS",
                "; ".join("KV %s %s" % (caseutil.z(a), caseutil.z(b)) for a, b in items)))
            meta.append((fn, kind, impl, mode, ml, mi, calls))
    total, badi, errs = caseutil.eval_cases("c09", HDR, "tcase_ok", terms, shard=60, ctype="wtcase")
    for e in errs:
        ctx.corr_mismatch("c09 case file", e)
    for i in badi[:5]:
        ctx.corr_mismatch("the shared model (TreeRun with the isC / vsame switches) vs implementation", {"case": meta[i]})
    stats["histories_compared_with_the_shared_model"] = total
    stale_side_by_side(ctx, rng, ctx.n(60, 3000))
    ctx.cov.update(stats)
    ctx.traces = ctx.evaluations
    ctx.sample({"note": "paired execution of one history on the C and the Python class; see 'calls' counters"})


def replay(ctx, data):
    print(data["replay"])
    return 0
