"""C10 -- union / intersection / difference compute the mathematical result."""
from harness import caseutil
from harness.families import BOUNDS
from harness.setops_common import (Env, HDR, BT_KINDS, ITER_KINDS, SHAPES, gen_keys,
                                   gen_operand, opnd_term, res_term)

PROPS_FILE = "Props/C10.v"
MODEL_FILES = ["Model/SetOps.v"]
RULE = ("operand pairs: kind x kind over {Set, TreeSet, Bucket, BTree (multi-leaf at node size 3), "
        "list, tuple, generator, dict keys, None} x key relation {disjoint, equal, nested, alternating, "
        "overlapping} x sizes 0..13, iterables shuffled with repeated elements; distinct by (function, "
        "operand specs); non-trivial = both operands non-None")
ASSUMPTIONS = ["keys modelled as Z; family keys mapped order-isomorphically",
               "first operand of difference is a BTrees container (documented requirement)"]

OPS = {"union": "WUnion", "intersection": "WInter", "difference": "WDiff"}


def expect(fname, sa, sb):
    """The mathematical result by the property's words (python sets)."""
    if fname == "difference":
        if sa[0] == "none":
            return ("none",)
        if sb[0] == "none":
            return ("op1",)
        kb = set(sb[1])
        if sa[0] in ("Bucket", "BTree"):
            return ("map", [(k, v) for k, v in zip(sa[1], sa[2]) if k not in kb])
        return ("set", [k for k in sa[1] if k not in kb])
    if sa[0] == "none":
        return ("none",) if sb[0] == "none" else ("op2",)
    if sb[0] == "none":
        return ("op1",)
    A, B = set(sa[1]), set(sb[1])
    return ("set", sorted(A | B if fname == "union" else A & B))


def sig_of(fname, impl, sa, sb, got, exp):
    dup = any(s[0] in ("list", "tuple", "gen") and len(set(s[1])) != len(s[1]) for s in (sa, sb))
    if got[0] in ("set", "map") and exp[0] == got[0]:
        keys = [x if got[0] == "set" else x[0] for x in got[1]]
        if any(keys[i] >= keys[i + 1] for i in range(len(keys) - 1)):
            what = "duplicate-or-unsorted-keys"
        else:
            what = "wrong-contents"
    else:
        what = "wrong-kind:%s" % got[0]
    return "%s:%s:%s%s" % (impl, fname, what, ":iterable-with-duplicates" if dup else "")


def run(ctx):
    rng = ctx.rng
    fams = ["II", "OO", "fs", "LF", "QQ", "OI", "UU", "IO"] if ctx.quick() else \
        ["II", "OO", "fs", "LF", "QQ", "OI", "UU", "IO", "LL", "LO", "OQ", "IF", "UO", "QL", "OL", "OU", "IU", "UI", "UF", "LQ", "QO", "QF"]
    envs = {}
    for fn in fams:
        for impl in ("C", "Py"):
            for mode in (["none-int", "str"] if fn[0] == "O" else [None]):
                envs[(fn, impl, mode)] = Env(fn, impl, mode)
    ncase = ctx.n(2500, 60000)
    terms, meta = [], []
    kinds_all = BT_KINDS + ITER_KINDS + ["none"]
    kindpairs = {}
    variants = {}
    for _ in range(ncase):
        fname = rng.choice(list(OPS))
        ka, kb = gen_keys(rng, rng.choice(SHAPES), rng.choice([6, 16, 40]))
        if not ka and rng.random() < 0.5:
            ka = [0]
        sa = gen_operand(rng, ka, BT_KINDS + (["none"] if rng.random() < 0.2 else []) if fname == "difference" else kinds_all)
        sb = gen_operand(rng, kb, kinds_all)
        if sa[0] == "none" and fname != "difference" and rng.random() < 0.7:
            sa = gen_operand(rng, ka, BT_KINDS + ITER_KINDS)
        # object keys in none-int mode: model key 0 is None
        key = rng.choice(list(envs))
        if key[2] == "none-int":
            # a plain python list holding None and ints cannot be sorted by python itself
            sa, sb = [((s[0], [k for k in s[1] if k != 0]) if s[0] in ITER_KINDS else s) for s in (sa, sb)]
        exp = expect(fname, sa, sb)
        variant = rng.choice(["plain"] * 8 + ["evicted", "subclass"])
        variants[variant] = variants.get(variant, 0) + 1
        # run on one C and one Py env of the same family/mode + always II
        results = {}
        for ek in sorted({key, (key[0], "Py" if key[1] == "C" else "C", key[2]), ("II", "C", None), ("II", "Py", None)}, key=repr):
            env = envs[ek]
            env.variant = variant
            try:
                got, _, unchanged = env.call(fname, sa, sb)
            finally:
                env.variant = "plain"
            results[ek] = got
            if not unchanged:
                ctx.oracle_failure("%s:%s:operand-modified" % (ek[1], fname), "operand modified by %s(%r, %r) in %s" % (fname, sa, sb, ek),
                                   {"fn": fname, "a": sa, "b": sb, "env": ek})
            if got != exp:
                ctx.oracle_failure(sig_of(fname, ek[1], sa, sb, got, exp),
                                   "%s %s(%r, %r) -> %r, expected %r" % (ek, fname, sa, sb, got, exp),
                                   {"fn": fname, "a": sa, "b": sb, "env": ek, "got": got, "expected": exp})
        for ek, got in results.items():
            terms.append("SC %s 0 %s %s 0 %s" % (OPS[fname], opnd_term(sa), opnd_term(sb), res_term(got)))
            meta.append((ek, fname, sa, sb, got))
        kindpairs[(sa[0], sb[0])] = kindpairs.get((sa[0], sb[0]), 0) + 1
        ctx.count((fname, repr(sa), repr(sb)), nontrivial=sa[0] != "none" and sb[0] != "none")
        if sa[0] == "BTree" and sb[0] == "list" and len(sb[1]) > 3:
            ctx.sample({"fn": fname, "a": sa, "b": sb, "result": results[("II", "C", None)]}, 3)
    total, bad, errs = caseutil.eval_cases("c10", HDR, "setcase_ok", terms, shard=1500, ctype="wsetcase")
    ctx.traces = total
    for e in errs:
        ctx.corr_mismatch("c10 case file", e)
    for i in bad[:5]:
        ctx.corr_mismatch("SetOps model vs implementation", {"case": meta[i]})
    operators(ctx, envs)
    small_against_large(ctx, envs)
    ctx.cov["operand_kind_pairs"] = len(kindpairs)
    ctx.cov["operand_variants"] = variants
    ctx.cov["families"] = fams


def small_against_large(ctx, envs):
    """a small unsorted operand with repeats against a LARGE tree (size ratios beyond any fast-path threshold):
    the result is still the sorted, duplicate-free mathematical result, whichever side the small one is on"""
    rng = ctx.rng
    n = 0
    for ek, env in envs.items():
        if ek[2] == "none-int":
            continue
        big = sorted(rng.sample(range(0, 400), 200))
        for kindbig in ("TreeSet", "BTree", "Set"):
            for small in ([5, 4, 3, 2, 1], [big[7], big[3], big[3], 401, big[150]], [big[199], big[0]], [402, 401], [big[5]] * 3):
                for skind in ("list", "tuple", "pyset"):
                    for fname in ("intersection", "union", "difference"):
                        for order in (0, 1):
                            sa = (kindbig, big, [1] * len(big)) if kindbig == "BTree" else (kindbig, big)
                            sb = (skind, list(small))
                            if fname == "difference" and order == 1:
                                continue             # difference wants a BTrees container first
                            a, b = env.build(sa), env.build(sb)
                            try:
                                r = env.f.func(fname, env.impl)(a, b) if order == 0 else env.f.func(fname, env.impl)(b, a)
                                keys = [env.km.ik(k) for k in r]
                            except Exception as e:  # noqa
                                keys = "raised %s" % type(e).__name__
                            A, B = set(big), set(small)
                            want = sorted({"intersection": A & B, "union": A | B, "difference": A - B}[fname])
                            n += 1
                            ctx.count(("small-vs-large", ek, kindbig, skind, fname, order, tuple(small)))
                            if keys != want:
                                ctx.oracle_failure("%s:%s:small-operand-against-large-%s" % (ek[1], fname, kindbig),
                                                   "%s: %s(%s of 200 keys, %s %r)%s -> %s..., expected %s..." % (ek, fname, kindbig, skind, small, " (operands swapped)" if order else "", str(keys)[:80], str(want)[:80]),
                                                   {"env": ek, "fn": fname, "big": big, "small": small, "small_kind": skind, "order": order})
    ctx.cov["small_against_large_cases"] = n


def operators(ctx, envs):
    """| & - ^ and in-place forms against python set algebra (direct oracle and C vs Py)."""
    import operator
    rng = ctx.rng
    ops = {"|": operator.or_, "&": operator.and_, "-": operator.sub, "^": operator.xor,
           "|=": operator.ior, "&=": operator.iand, "-=": operator.isub, "^=": operator.ixor}
    for _ in range(ctx.n(1500, 30000)):
        ek = rng.choice(list(envs))
        env = envs[ek]
        sym = rng.choice(list(ops))
        ka, kb = gen_keys(rng, rng.choice(SHAPES), rng.choice([6, 16]))
        inplace = sym.endswith("=")
        vlo = 0
        sa = gen_operand(rng, ka, ["Set", "TreeSet"] if inplace or sym == "^" else BT_KINDS, 3)  # ^ is documented for sets only
        if sa[0] in ("Bucket", "BTree"):
            sa = (sa[0], sa[1], [abs(v) for v in sa[2]])
        sb = gen_operand(rng, kb, ["Set", "TreeSet", "Bucket", "BTree", "pyset"] + (["list", "tuple"] if sym not in ("^",) else []), 3)
        if sb[0] in ("Bucket", "BTree"):
            sb = (sb[0], sb[1], [abs(v) for v in sb[2]])
        if sym == "^=" and sb[0] in ("list", "tuple"):
            sb = (sb[0], sorted(set(sb[1])))
        if sym == "&=" and sb[0] in ("list", "tuple") and sa[1] and rng.random() < 0.3:
            # repeats in the operand: as many HITS as the set has members, but fewer distinct ones
            hit = rng.sample(sa[1], rng.randint(1, max(1, len(sa[1]) - 1)))
            lst = [hit[i % len(hit)] for i in range(len(sa[1]))]
            rng.shuffle(lst)
            sb = (sb[0], lst)
        if ek[2] == "none-int" and sb[0] in ("list", "tuple", "pyset"):
            sb = (sb[0], [k for k in sb[1] if k != 0])
        from harness.families import sizes
        cl = [env.f.cls(k, env.impl) for k in ("BTree", "TreeSet")]
        with sizes(cl, 3, 3):
            a, b = env.build(sa), env.build(sb)
            bsnap = env.snapshot(sb, b)
            A, B = set(sa[1]), set(sb[1])
            want = {"|": A | B, "&": A & B, "-": A - B, "^": A ^ B}[sym[0]]
            if inplace and rng.random() < 0.1:
                # the target (and the operand) live in a database and have been evicted
                from harness.minijar import Storage, Jar
                jar_ = Jar(Storage())
                for o_ in (a, b):
                    if hasattr(o_, "_p_oid"):
                        jar_.add(o_)
                jar_.commit()
                jar_.minimize()
            barg = b
            if inplace and rng.random() < 0.08:
                barg = a                  # s |= s, s &= s, s -= s, s ^= s
                B = set(A)
                want = {"|": A | B, "&": A & B, "-": A - B, "^": A ^ B}[sym[0]]
            elif not inplace and rng.random() < 0.08:
                barg = a                  # x | x, x & x, x - x, x ^ x: the same OBJECT on both sides
                B = set(A)
                want = {"|": A | B, "&": A & B, "-": A - B, "^": A ^ B}[sym[0]]
            elif inplace and sb[0] in ("list", "tuple") and rng.random() < 0.4:
                # a one-shot iterable operand (iterator / generator)
                barg = iter(b) if rng.random() < 0.5 else (x for x in b)
            try:
                r = ops[sym](a, barg)
                got = sorted(env.km.ik(k) for k in r)
                keys = [env.km.ik(k) for k in r]
                ok = keys == sorted(want)
                if inplace and r is not a:
                    ok = False
                if not inplace and barg is a and ok:
                    # ... must give what an equal but distinct operand gives: same kind of result, same entries
                    r2 = ops[sym](a, env.build(sa))
                    same_entries = (list(r.items()) == list(r2.items())) if hasattr(r2, "items") and hasattr(r, "items") else (list(r) == list(r2))
                    if type(r) is not type(r2) or not same_entries:
                        ok, keys = False, "x %s x gives a %s, x %s equal-copy gives a %s" % (sym, type(r).__name__, sym, type(r2).__name__)
                if sym == "-" and sa[0] in ("Bucket", "BTree") and ok:
                    ok = [(env.km.ik(k), env.unval(v)) for k, v in r.items()] == [(k, v) for k, v in zip(sa[1], sa[2]) if k in want]
            except Exception as e:  # noqa
                ok, keys = False, "raised %s" % type(e).__name__
            if env.snapshot(sb, b) != bsnap:
                ok, keys = False, "operand modified"
        ctx.count(("op", sym, repr(sa), repr(sb)))
        if not ok:
            dup = sb[0] in ("list", "tuple") and len(set(sb[1])) != len(sb[1])
            ctx.oracle_failure("%s:operator%s:%s%s" % (ek[1], sym, sa[0], ":iterable-with-duplicates" if dup else ""),
                               "%s: %r %s %r -> %r, expected keys %r" % (ek, sa, sym, sb, keys, sorted(want)),
                               {"env": ek, "a": sa, "op": sym, "b": sb})


def replay(ctx, data):
    r = data["replay"]
    ek = tuple(r["env"])
    env = Env(ek[0], ek[1], ek[2])
    if "fn" in r:
        sa, sb = tuple(r["a"]), tuple(r["b"])
        print(env.call(r["fn"], sa, sb), "expected", expect(r["fn"], sa, sb))
    else:
        print(r)
    return 0
