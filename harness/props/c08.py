"""C08 -- concurrent transactions on a tree merge, serialize or conflict - nothing else."""
import random as _r

from harness import caseutil

from harness.families import ALL_FAMS
from harness.minijar import Storage, Jar, ConflictError
from harness.treelib import TreeEnv, walk_invariants
from harness.props.c04 import f16_condition, commit_detecting_f33

PROPS_FILE = "Props/C08.v"
MODEL_FILES = ["Model/RTree.v", "Model/TreeRun.v", "Model/Persist.v", "Model/PersistSpec.v", "Model/Concurrent.v", "Model/ConcurrentRun.v"]
RULE = ("a committed base tree (random history, 0..25 keys, node sizes (2,2)..(4,4) and defaults), two transactions of 1..3 "
        "operations (insert / delete / replace / clear) run on separate connections from the same base and committed one "
        "after the other with conflict resolution, both orders; a third connection reads the result; plus the read-dependency "
        "declarations of every write and of pure reads; distinct by (base, T1, T2, order); non-trivial = base has >= 2 leaves "
        "and both transactions change something")
ASSUMPTIONS = ["harness/minijar.py implements optimistic concurrency control as ZODB does: read-current check against objects not written, "
               "per-object conflict resolution through _p_resolveConflict with old/committed/new states (references as placeholders), "
               "the store call of an object covers its own read-current entry",
               "a base tree that is already unsound after its own commit (findings F16 / F33 of C04) is skipped"]
SIZES = [(2, 2), (2, 3), (3, 3), (4, 4), (6, 4), (8, 8), None, None]


def contents(env, t):
    if env.setlike:
        return {env.km.ik(k): 0 for k in t}
    return {env.km.ik(k): env.vm.iv(v) for k, v in t.items()}


def apply_op(env, t, op):
    """returns True if the op ran without raising"""
    n = op[0]
    try:
        if n == "ins":
            if env.setlike:
                t.add(env.k(op[1]))
            else:
                t[env.k(op[1])] = env.v(op[2])
        elif n == "del":
            if env.setlike:
                t.remove(env.k(op[1]))
            else:
                del t[env.k(op[1])]
        elif n == "clear":
            t.clear()
        return True
    except KeyError:
        return False


def apply_ref(d, op, setlike):
    n = op[0]
    if n == "ins":
        d[op[1]] = 0 if setlike else op[2]
    elif n == "del":
        d.pop(op[1], None)
    elif n == "clear":
        d.clear()


def gen_txn(rng, base_keys, u):
    ops = []
    for _ in range(rng.randint(1, 3)):
        r = rng.random()
        if r < 0.45:
            ops.append(("ins", rng.randrange(u), rng.randrange(4)))
        elif r < 0.9 and base_keys:
            ops.append(("del", rng.choice(base_keys)))
        elif r < 0.95:
            ops.append(("clear",))
        else:
            ops.append(("ins", rng.randrange(u), rng.randrange(4)))
    return ops


def path_nodes(env, t, key):
    """interior nodes (objects) the descent for key passes through, root first"""
    out = []
    node = t
    while True:
        out.append(node)
        st = node.__getstate__()
        if st is None or len(st) == 1:
            return out
        data = st[0]
        idx = 0
        for j in range(2, len(data), 2):
            if env.km.ik(data[j - 1]) <= key:
                idx = j
        child = data[idx]
        if type(child) is not type(t):
            return out
        node = child


def leaf_items(env, leaf):
    """(key, value) pairs of one leaf object in model numbers (sets: value 0)"""
    items = leaf.__getstate__()[0]
    if env.setlike:
        return [(env.km.ik(k), 0) for k in items]
    return [(env.km.ik(k), env.vm.iv(v)) for k, v in zip(items[0::2], items[1::2])]


def kvs(pairs):
    return "; ".join("KV %s %s" % (caseutil.z(a), caseutil.z(b)) for a, b in pairs)


def run(ctx):
    rng = ctx.rng
    cterms, cmeta = [], []
    ncases = ctx.n(1500, 40000)
    outcomes = {"conflict": 0, "serial": 0, "merged": 0, "skipped-base-unsound": 0, "pattern-edit-vs-emptied-neighbour": 0}
    for it in range(ncases):
        kind = rng.choice(["BTree", "BTree", "TreeSet"])
        fn = rng.choice(ALL_FAMS)
        impl = rng.choice(["C", "Py"])
        sz = rng.choice(SIZES)
        mode = "int" if fn[0] == "O" else None
        env = TreeEnv(fn, kind, impl, mode)
        ml, mi = sz if sz else (env.treecls[0].max_leaf_size, env.treecls[0].max_internal_size)
        u = rng.choice([6, 12, 24, 60])
        nbase = rng.randint(0, u)
        base_keys = sorted(rng.sample(range(u), nbase))
        dels = [k for k in base_keys if rng.random() < 0.25]
        t1ops, t2ops = gen_txn(rng, [k for k in base_keys if k not in dels], u), gen_txn(rng, [k for k in base_keys if k not in dels], u)
        # a tenth of the cases are the pattern "one transaction edits a leaf, the other empties the leaf's
        # successor (or predecessor)": the edited leaf's successor link changes underneath it
        pattern = rng.random() < 0.1
        pattern_ops = None
        for order in ((1, 2), (2, 1)):
            with env.sized(ml, mi):
                st = Storage()
                j0 = Jar(st)
                t = env.new()
                root = j0.add(t)
                j0.commit()
                for k in base_keys:
                    apply_op(env, t, ("ins", k, k % 4))
                j0.commit()
                for k in dels:
                    apply_op(env, t, ("del", k))
                unsound_base = f16_condition(env, t)
                if commit_detecting_f33(j0, t):
                    unsound_base = True       # finding F33 of C04: the root's record holds an inline copy of a leaf that has its own record
                base = contents(env, t)
                jr = Jar(st)
                tb = jr.get(root)
                if unsound_base or walk_invariants(env, tb) or contents(env, tb) != base:
                    outcomes["skipped-base-unsound"] += 1
                    continue
                nleaves = len(env.leaf_objects(tb))
                jars = {1: Jar(st), 2: Jar(st)}
                trees = {i: jars[i].get(root) for i in (1, 2)}
                # (taken from the reader's copy: the writers' nodes must stay ghosts until their first write)
                base_leaf_oids = {i: [o._p_oid for o in env.leaf_objects(tb)] for i in (1, 2)}
                base_leaf_items = [leaf_items(env, o) for o in env.leaf_objects(tb)]
                if pattern and pattern_ops is None and len(base_leaf_items) >= 2:
                    li = rng.randrange(len(base_leaf_items) - 1)
                    a_leaf, b_leaf = base_leaf_items[li], base_leaf_items[li + 1]
                    if rng.random() < 0.3:
                        a_leaf, b_leaf = b_leaf, a_leaf
                    edit = rng.choice(["val", "del-last", "ins-gap"])
                    if edit == "del-last" and len(a_leaf) >= 2:
                        aops = [("del", a_leaf[-1][0])]
                    elif edit == "ins-gap" and any(k2 - k1 > 1 for (k1, _), (k2, _) in zip(a_leaf, a_leaf[1:])):
                        g = [k1 + 1 for (k1, _), (k2, _) in zip(a_leaf, a_leaf[1:]) if k2 - k1 > 1]
                        aops = [("ins", rng.choice(g), 1)]
                    else:
                        aops = [("ins", a_leaf[-1][0], (a_leaf[-1][1] + 1) % 4)]
                    bops = [("del", k) for k, _ in b_leaf]
                    rng.shuffle(bops)
                    pattern_ops = (aops, bops)
                if pattern_ops is not None:
                    t1ops, t2ops = pattern_ops
                    outcomes["pattern-edit-vs-emptied-neighbour"] += 1
                refs = {}
                readdecl_ok = True
                for i, ops in ((1, t1ops), (2, t2ops)):
                    d = dict(base)
                    for opi, op in enumerate(ops):
                        # read-dependency declarations of this write.  For the FIRST write of a transaction the path is
                        # computed on another connection's copy of the same committed tree, so that in the writing
                        # connection the nodes are still ghosts when the write starts (they are loaded by the write)
                        if op[0] in ("ins", "del"):
                            src = tb if opi == 0 else trees[i]
                            pn_oids = [o._p_oid for o in path_nodes(env, src, op[1]) if o._p_oid is not None and o._p_oid in st.records]
                        ran = apply_op(env, trees[i], op)
                        if op[0] in ("ins", "del"):
                            regs = {o._p_oid for o in jars[i].registered}
                            missing = [x for x in pn_oids if x not in jars[i].readcurrent and x not in regs]
                            if missing and (ran or impl == "Py"):
                                ctx.oracle_failure("%s:%s:write-does-not-declare-read" % (impl, kind),
                                                   "%s%s/%s: %r descended through %d stored interior node(s) that are neither read-current nor changed" % (fn, kind, impl, op, len(missing)),
                                                   {"family": fn, "kind": kind, "impl": impl, "base": base_keys, "dels": dels, "op": op, "sizes": [ml, mi]})
                        if ran:
                            apply_ref(d, op, env.setlike)
                    refs[i] = d
                # a transaction that leaves its own tree in the shape of finding F16 (a non-root node holding one
                # never-stored leaf: C04 / C06) stores an unsound tree all by itself; that is F16, not a protocol outcome
                if any(f16_condition(env, trees[i]) for i in (1, 2)):
                    outcomes["skipped-transaction-in-F16-shape"] = outcomes.get("skipped-transaction-in-F16-shape", 0) + 1
                    continue
                # ---- correspondence with Model/Concurrent.v: both transactions leaf-local?
                local = {}
                for i in (1, 2):
                    lo_ = env.leaf_objects(trees[i])
                    same = [o._p_oid for o in lo_] == base_leaf_oids[i] and all(o._p_oid is not None for o in lo_) and len(lo_) >= 1
                    regs = jars[i].registered
                    if same and all(any(r is o for o in lo_) for r in regs) and all(len(o) > 0 for o in lo_):
                        local[i] = [(pos, leaf_items(env, o)) for pos, o in enumerate(lo_) if any(r is o for r in regs)]
                first, second = order
                jars[first].commit()
                outcome = None
                try:
                    jars[second].commit()
                except ConflictError:
                    outcome = "conflict"
                    jars[second].abort()
                # what a fresh reader sees
                j3 = Jar(st)
                t3 = j3.get(root)
                try:
                    t3._check()
                    inv = walk_invariants(env, t3)
                    final = contents(env, t3)
                except AssertionError as e:
                    inv, final = ["_check: " + str(e)[:60]], None
                except Exception as e:  # noqa
                    inv, final = ["raises " + type(e).__name__], None
                if len(local) == 2 and nleaves >= 2 and (outcome == "conflict" or not inv):
                    try:
                        fin = [] if outcome == "conflict" else [leaf_items(env, o) for o in env.leaf_objects(t3)]
                        cterms.append("CC [%s] [%s] [%s] %s [%s]" % (
                            "; ".join("WCL [%s]" % kvs(x) for x in base_leaf_items),
                            "; ".join("WCT %d [%s]" % (p_, kvs(x)) for p_, x in local[first]),
                            "; ".join("WCT %d [%s]" % (p_, kvs(x)) for p_, x in local[second]),
                            "true" if outcome == "conflict" else "false",
                            "; ".join("WCL [%s]" % kvs(x) for x in fin)))
                        cmeta.append((fn, kind, impl, (ml, mi), base_keys, dels, t1ops, t2ops, order))
                    except Exception:  # noqa
                        pass
                ops1, ops2 = (t1ops, t2ops) if first == 1 else (t2ops, t1ops)
                serial = dict(base)
                for op in ops1:
                    if op[0] != "del" or op[1] in serial:
                        apply_ref(serial, op, env.setlike)
                for op in ops2:
                    if op[0] != "del" or op[1] in serial:
                        apply_ref(serial, op, env.setlike)
                miss = object()
                keys = set(base) | set(refs[1]) | set(refs[2])
                touched = {i: {k for k in keys if base.get(k, miss) != refs[i].get(k, miss)} for i in (1, 2)}
                merged = None
                if not (touched[1] & touched[2]):
                    merged = dict(base)
                    for i in (1, 2):
                        for k in touched[i]:
                            if k in refs[i]:
                                merged[k] = refs[i][k]
                            else:
                                merged.pop(k, None)
                bad = None
                if inv:
                    bad = "stored-tree-unsound:" + str(inv[0])[:40]
                elif outcome == "conflict":
                    if final != refs[first]:
                        bad = "after-conflict-store-differs-from-first-transaction"
                elif final == serial:
                    outcome = "serial"
                elif merged is not None and final == merged:
                    outcome = "merged"
                else:
                    bad = "contents-neither-serial-nor-merged"
                ctx.count((fn, kind, impl, tuple(base_keys), tuple(dels), repr(t1ops), repr(t2ops), order),
                          nontrivial=nleaves >= 2 and touched[1] and touched[2])
                if bad:
                    ctx.oracle_failure("%s:%s:%s" % (impl, kind, bad.split(":")[0]),
                                       "%s%s/%s sizes=%s base=%r -dels %r; T1=%r T2=%r order=%r -> %s; final=%r serial=%r merged=%r" % (
                                           fn, kind, impl, (ml, mi), base_keys, dels, t1ops, t2ops, order, bad, final, serial, merged),
                                       {"family": fn, "kind": kind, "impl": impl, "base": base_keys, "dels": dels, "t1": t1ops, "t2": t2ops, "order": order, "sizes": [ml, mi]})
                else:
                    outcomes[outcome] += 1
                if len(ctx.samples) < 3 and outcome == "merged" and nleaves >= 2:
                    ctx.sample({"family": fn, "kind": kind, "impl": impl, "base": base_keys, "T1": t1ops, "T2": t2ops, "order": order, "outcome": outcome, "final": sorted(final.items())})
        # pure reads declare nothing
        with env.sized(ml, mi):
            st = Storage()
            j0 = Jar(st)
            t = env.new()
            root = j0.add(t)
            for k in base_keys:
                apply_op(env, t, ("ins", k, k % 4))
            j0.commit()
            j = Jar(st)
            tr = j.get(root)
            probe = env.k(rng.randrange(u))
            try:
                probe in tr
                list(tr.keys(probe))
                list(tr)
                len(tr)
                bool(tr)
                tr.has_key(probe)
                if base_keys:
                    tr.minKey(); tr.maxKey()
                if not env.setlike:
                    tr.get(probe); list(tr.items()); list(tr.values(probe, None))
            except (KeyError, ValueError):
                pass
            if j.readcurrent or j.registered:
                ctx.oracle_failure("%s:%s:pure-read-declares-dependency" % (impl, kind), "%s%s/%s: lookups/range queries/iteration/len left read-current=%d registered=%d" % (
                    fn, kind, impl, len(j.readcurrent), len(j.registered)), {"family": fn, "kind": kind, "impl": impl, "base": base_keys})
    hdr = ("From Coq Require Import ZArith List.\nFrom BT Require Import Model.CaseUtil Model.TreeRun Model.Concurrent Model.ConcurrentRun.\n"
           "Import ListNotations.\nOpen Scope Z_scope.\n")
    total, badc, errs = caseutil.eval_cases("c08", hdr, "cccase_ok", cterms, shard=400, ctype="wccase")
    for e in errs:
        ctx.corr_mismatch("c08 case file", e)
    for i in badc[:5]:
        ctx.corr_mismatch("Concurrent model (commit2) vs implementation on leaf-local transactions", {"case": cmeta[i]})
    ctx.cov["leaf_local_transaction_pairs_compared_with_commit2"] = total
    ctx.cov["outcomes"] = outcomes
    ctx.traces = ctx.evaluations


def replay(ctx, data):
    print(data["replay"])
    return 0
