"""C06 -- serialized state round-trips, identically in C and Python."""
import copy
import json
import os
import pickle
import subprocess
import sys

from harness import caseutil
from harness.families import ALL_FAMS
from harness.treelib import TreeEnv, walk_invariants, call_term
from harness.props.c01 import gen_history
from harness.props.c04 import f16_condition

PROPS_FILE = "Props/C06.v"
MODEL_FILES = ["Model/RTree.v", "Model/TreeRun.v", "Model/Persist.v", "Model/PersistSpec.v", "Model/Pickle.v"]
HDR = ("From Coq Require Import ZArith List.\nFrom BT Require Import Model.CaseUtil Model.RTree Model.TreeRun Model.Pickle.\n"
       "Import ListNotations.\nOpen Scope Z_scope.\n")
RULE = ("containers reached by random histories (empty, one embedded leaf, multi-level at small node sizes and family "
        "defaults), all families and kinds: __getstate__/__setstate__, pickle protocols 0..5, copy/deepcopy, in C and "
        "Python; byte comparison C vs Python; C pickles loaded by a pure-Python process (PURE_PYTHON=1) and vice versa; "
        "each reproduced container is checked for contents, soundness and replays follow-up calls; distinct by "
        "(family, kind, history); non-trivial = the container has >= 2 leaves")
ASSUMPTIONS = ["the byte level of pickle is CPython's; the model covers the state values only",
               "the pure-Python side of the cross-loading test runs in a child process with PURE_PYTHON=1"]
SIZES = [(2, 2), (3, 3), (4, 4), (1, 2), None]


def real_graph(env, t):
    """what __getstate__ returns for every object of the container, objects numbered in pre-order
    (node before its children); Coq terms of type wrec"""
    objs = []

    def kids_of(n):
        st = n.__getstate__()
        if st is None:
            return []
        if len(st) == 1:
            return [n._firstbucket]
        return list(st[0][0::2])

    def walk(n):
        objs.append(n)
        if type(n) is type(t):
            for c in kids_of(n):
                walk(c)
    walk(t)
    num = {id(o): i for i, o in enumerate(objs)}

    def ref(o):
        return -1 if o is None else num.get(id(o), -2)

    def kvs(leafstate):
        items = leafstate[0]
        if env.setlike:
            return "; ".join("KV %s 0" % caseutil.z(env.km.ik(k)) for k in items)
        return "; ".join("KV %s %s" % (caseutil.z(env.km.ik(k)), caseutil.z(env.vm.iv(v))) for k, v in zip(items[0::2], items[1::2]))

    out = []
    for o in objs:
        st = o.__getstate__()
        if type(o) is not type(t):
            out.append("WRLeaf [%s] %s" % (kvs(st), caseutil.z(ref(st[1]) if len(st) > 1 else -1)))
        elif st is None:
            out.append("WREmpty")
        elif len(st) == 1:
            ls = st[0][0]
            out.append("WREmb [%s] %s" % (kvs(ls), caseutil.z(ref(ls[1]) if len(ls) > 1 else -1)))
        else:
            data = st[0]
            kids = ["KV 0 %s" % caseutil.z(ref(data[0]))] + ["KV %s %s" % (caseutil.z(env.km.ik(data[i - 1])), caseutil.z(ref(data[i]))) for i in range(2, len(data), 2)]
            out.append("WRNode [%s] %s" % ("; ".join(kids), caseutil.z(ref(st[1]))))
    return out


def items_of(env, t):
    return [env.km.ik(k) for k in t] if env.setlike else [(env.km.ik(k), env.vm.iv(v)) for k, v in t.items()]


def check_copy(ctx, env, orig_items, o, how, followup, fn, kind, impl, info, orig, src=None):
    """o must have the contents, be sound, and behave like the original under follow-up calls.
    _check() runs FIRST: iterating an unsound C tree can crash the process."""
    bad = None
    try:
        if kind in ("BTree", "TreeSet"):
            o._check()
        if items_of(env, o) != orig_items:
            bad = "contents-differ"
        elif kind in ("BTree", "TreeSet"):
            inv = walk_invariants(env, o)
            if inv:
                bad = "unsound:" + inv[0]
        if bad is None:
            a = [env.call(o, c) for c in followup]
            b = [env.call(orig, c) for c in followup]
            if a != b or items_of(env, o) != items_of(env, orig):
                bad = "not-usable"
    except AssertionError as e:
        bad = "unsound:_check"
        msg = str(e)[:80]
    except Exception as e:  # noqa
        bad = "raises-" + type(e).__name__
    if bad:
        info = dict(info, message=locals().get("msg"))
        # (the shape that matters is the one of the container that was serialized: after &= the C twin
        #  used for the follow-up comparison can have another shape -- finding F17)
        f16 = kind in ("BTree", "TreeSet") and f16_condition(env, src if src is not None else orig)
        how2 = how.split("-proto-")[0]
        ctx.oracle_failure("%s:%s:%s:%s%s" % (impl, how2, kind, bad, ":embedded-leaf-below-root" if f16 else ""),
                           "%s%s/%s %s: %s%s" % (fn, kind, impl, how, bad, " (a non-root interior node holds a single leaf: its state is embedded in the node AND referenced by the chain)" if f16 else ""), info)
    return bad is None


def rejected_first_write(ctx):
    """An EMPTY container that rejected its first write (unusable key or value) is still the empty container:
    same state and byte-identical pickles in C and Python, and the copy is sound."""
    from harness.families import fam, BOUNDS
    from harness.props.c13 import Plain
    n = 0
    for fn in ALL_FAMS:
        f = fam(fn)
        for kind in ("BTree", "TreeSet", "Bucket", "Set"):
            setlike = kind in ("TreeSet", "Set")
            badkey = "x" if f.kk in BOUNDS else (Plain() if f.kk == "O" else b"abc")
            goodkey = f.keymap("int" if f.kk == "O" else None).k(3)
            badval = None if (setlike or f.vk == "O") else ("x" if (f.vk in BOUNDS or f.vk == "F") else b"ab")
            writes = [("set-badkey", lambda t: t.add(badkey) if setlike else t.__setitem__(badkey, f.valmap().v(1))),
                      ("update-badkey", lambda t: t.update([badkey] if setlike else [(badkey, f.valmap().v(1))]))]
            if badval is not None:
                writes += [("set-badvalue", lambda t: t.__setitem__(goodkey, badval)),
                           ("setdefault-badvalue", lambda t: t.setdefault(goodkey, badval)),
                           ("update-badvalue", lambda t: t.update([(goodkey, badval)]))]
                if kind == "BTree":
                    writes.append(("insert-badvalue", lambda t: t.insert(goodkey, badval)))
            for wname, w in writes:
                res = {}
                for impl in ("C", "Py"):
                    t = f.cls(kind, impl)()
                    try:
                        w(t)
                        out = "accepted"
                    except TypeError:
                        out = "TypeError"
                    except Exception as e:  # noqa
                        out = type(e).__name__
                    try:
                        st = t.__getstate__()
                        pk = [pickle.dumps(t, proto) for proto in (2, 3, 5)]
                        c = pickle.loads(pk[0])
                        ok = (len(c) == 0) and not c and list(c.keys()) == []
                        if kind in ("BTree", "TreeSet"):
                            c._check()
                        res[impl] = (out, repr(st), [p.replace(b"Py", b"") for p in pk], ok)
                    except Exception as e:  # noqa
                        res[impl] = (out, "raises " + type(e).__name__, None, False)
                n += 1
                ctx.count(("rejected-first-write", fn, kind, wname))
                if res["C"][0] != "accepted" and (res["C"][1:] != res["Py"][1:] or not res["C"][3]):
                    ctx.oracle_failure("state-after-rejected-first-write:%s" % kind,
                                       "%s%s: after the rejected first write %s into an empty container: C %s state %s copy-ok=%s; Python %s state %s copy-ok=%s" % (
                                           fn, kind, wname, res["C"][0], res["C"][1], res["C"][3], res["Py"][0], res["Py"][1], res["Py"][3]),
                                       {"family": fn, "kind": kind, "write": wname})
    ctx.cov["rejected_first_writes_compared"] = n


def run(ctx):
    rng = ctx.rng
    rejected_first_write(ctx)
    nh = ctx.n(400, 6000)
    jobs, expect = [], {}
    nbytes_cmp = 0
    terms, meta = [], []
    for it in range(nh):
        kind = rng.choice(["BTree", "TreeSet", "Bucket", "Set", "BTree"])
        fn = rng.choice(ALL_FAMS)
        sz = rng.choice(SIZES)
        mode = rng.choice({"O": ["none-int", "str", "int"]}.get(fn[0], [None, "extreme"]))
        u = rng.choice([3, 10, 30])
        calls = gen_history(rng, kind, u, rng.choice([0, 3, 12, 40]), avoid0=(mode == "none-int"))
        calls = [c for c in calls if c[0] not in ("keys", "items")]
        followup = [c for c in gen_history(rng, kind, u, 6, avoid0=(mode == "none-int")) if c[0] not in ("keys", "items")]
        info = {"family": fn, "kind": kind, "mode": mode, "sizes": sz, "calls": calls}
        dumps = {}
        leaves = 0
        for impl in ("C", "Py"):
            env = TreeEnv(fn, kind, impl, mode)
            other = TreeEnv(fn, kind, "Py" if impl == "C" else "C", mode)
            ml, mi = sz if sz else (env.treecls[0].max_leaf_size, env.treecls[0].max_internal_size)
            with env.sized(ml, mi), other.sized(ml, mi):
                t = env.new()
                for c in calls:
                    env.call(t, c)
                base = items_of(env, t)
                if kind in ("BTree", "TreeSet"):
                    leaves = max(leaves, len(env.leaf_objects(t)))
                    # ---- correspondence: the object graph __getstate__ describes vs the model's dump_all []
                    try:
                        recs = real_graph(env, t)
                    except Exception as e:  # noqa
                        recs = None
                        ctx.oracle_failure("%s:getstate-graph:%s:raises-%s" % (impl, kind, type(e).__name__), "%s%s/%s walking __getstate__ raised %r" % (fn, kind, impl, e), info)
                    if recs is not None:
                        vs = "true" if (impl == "C" and fn[1] in "IULQF" and kind == "BTree" and fn != "fs") else "false"
                        terms.append("PK %d %d %s %s [%s] [%s]" % (ml, mi, vs, "true" if impl == "C" else "false",
                                                                    "; ".join(call_term(c) for c in calls), "; ".join(recs)))
                        meta.append((fn, kind, impl, mode, ml, mi, calls))
                # ---- getstate / setstate
                # (on a twin: the reproduced container shares its children with the one the state
                #  was taken from, so follow-up mutations must not touch the tree used below)
                twin = rebuild(env, calls)
                st = twin.__getstate__()
                t2 = env.new()
                try:
                    if not (st is None and kind in ("Bucket", "Set")):
                        t2.__setstate__(st)
                    ok = check_copy(ctx, env, base, t2, "setstate(getstate)", followup, fn, kind, impl, info, rebuild(env, calls))
                except Exception as e:  # noqa
                    ctx.oracle_failure("%s:setstate(getstate):%s:raises-%s" % (impl, kind, type(e).__name__), "%s%s/%s setstate(getstate) raised %r" % (fn, kind, impl, e), info)
                # ---- __setstate__ on an object that is in use: the new state replaces the old one completely
                try:
                    tk = {"Bucket": "BTree", "Set": "TreeSet"}.get(kind, kind)
                    envt = TreeEnv(fn, tk, impl, mode)
                    envt.km, envt.vm = env.km, env.vm
                    with envt.sized(2, 2):
                        live = envt.new()
                        for k in range(1, 7):
                            envt.call(live, ("add", k) if envt.setlike else ("set", k, 1))
                        stx = rebuild(env, calls).__getstate__()
                        if kind in ("Bucket", "Set"):
                            leaf = live._firstbucket            # a leaf that has a successor
                            if stx is not None:
                                leaf.__setstate__(stx)
                                if typed_repr(leaf.__getstate__()) != typed_repr(stx):
                                    ctx.oracle_failure("%s:setstate-on-live-object:%s:state-differs" % (impl, kind),
                                                       "%s%s/%s: a leaf in use (with a successor) given the state %s reports %s" % (fn, kind, impl, typed_repr(stx)[:200], typed_repr(leaf.__getstate__())[:200]), info)
                        else:
                            live.__setstate__(stx)
                            check_copy(ctx, env, base, live, "setstate-on-live-object", [], fn, kind, impl, info, rebuild(env, calls))
                except Exception as e:  # noqa
                    ctx.oracle_failure("%s:setstate-on-live-object:%s:raises-%s" % (impl, kind, type(e).__name__), "%s%s/%s __setstate__ on a container in use raised %r" % (fn, kind, impl, e), info)
                # ---- pickle, all protocols
                dumps[impl] = {}
                for proto in range(6):
                    with open("/verif/replay/C06_last.json", "w") as lf:
                        json.dump({"how": "pickle", "proto": proto, "impl": impl, **info}, lf)
                    try:
                        d = pickle.dumps(t, proto)
                        dumps[impl][proto] = d
                        o = pickle.loads(d)
                        # with the C extension importable both implementations unpickle as the C class
                        env_l = TreeEnv(fn, kind, "C", mode)
                        env_l.km, env_l.vm = env.km, env.vm
                        check_copy(ctx, env_l, base, o, "pickle-proto-%d" % proto, followup, fn, kind, impl, info, rebuild(env_l, calls, env), src=t)
                    except Exception as e:  # noqa
                        ctx.oracle_failure("%s:pickle:%s:raises-%s" % (impl, kind, type(e).__name__), "%s%s/%s pickle protocol %d raised %r" % (fn, kind, impl, proto, e), info)
                # ---- copy
                for how, fcopy in (("copy.copy", copy.copy), ("copy.deepcopy", copy.deepcopy)):
                    with open("/verif/replay/C06_last.json", "w") as lf:
                        json.dump({"how": how, "impl": impl, **info}, lf)
                    try:
                        o = fcopy(t)
                        envc = TreeEnv(fn, kind, "C" if type(o).__name__.endswith("Py") is False else "Py", mode)
                        envc.km, envc.vm = env.km, env.vm
                        multi = kind in ("BTree", "TreeSet") and len(env.leaf_objects(t)) >= 2
                        check_copy(ctx, envc, base, o, how + (":multi-leaf" if multi else ""), [] if how == "copy.copy" else followup, fn, kind, impl, info, rebuild(envc, calls, env), src=t)
                    except Exception as e:  # noqa
                        multi = kind in ("BTree", "TreeSet") and len(env.leaf_objects(t)) >= 2
                        ctx.oracle_failure("%s:%s%s:%s:raises-%s" % (impl, how, ":multi-leaf" if multi else "", kind, type(e).__name__),
                                           "%s%s/%s %s raised %r" % (fn, kind, impl, how, e), info)
        # ---- byte-identical C vs Python
        for proto in range(6):
            a, b = dumps["C"].get(proto), dumps["Py"].get(proto)
            nbytes_cmp += 1
            if a is not None and b is not None and a != b:
                ctx.oracle_failure("pickle-bytes-differ:%s%s%s" % (kind, ":fs" if fn == "fs" else "", ":after-iand" if any(c[0] == "iand" for c in calls) else ""), "%s%s protocol %d: C and Python pickles differ (%d vs %d bytes)" % (fn, kind, proto, len(a), len(b)), info)
        ml, mi = sz if sz else (0, 0)
        if sz:
            jobs.append({"id": it, "family": fn, "kind": kind, "mode": mode, "sizes": list(sz), "calls": calls, "followup": followup,
                         "pickles": {str(p): d.hex() for p, d in dumps["C"].items()}})
            envC = TreeEnv(fn, kind, "C", mode)
            with envC.sized(*sz):
                o = rebuild(envC, calls)
                base = items_of(envC, o)
                f16 = kind in ("BTree", "TreeSet") and f16_condition(envC, o)
                outs = [list(envC.call(o, c)) for c in followup]
            expect[it] = (base, outs, dumps["C"], dict(info, f16=bool(f16)))
        ctx.count((fn, kind, repr(calls)), nontrivial=leaves >= 2)
        if len(ctx.samples) < 2 and leaves >= 2 and len(calls) < 14:
            ctx.sample({"family": fn, "kind": kind, "sizes": sz, "calls": [list(map(str, c)) for c in calls], "pickle_p2_hex": dumps["C"].get(2, b"").hex()[:120]})
    total, badc, errs = caseutil.eval_cases("c06", HDR, "pkcase_ok", terms, shard=60, ctype="wpkcase")
    for e in errs:
        ctx.corr_mismatch("c06 case file", e)
    for i in badc[:5]:
        ctx.corr_mismatch("pickled object graph: model (dump_all []) vs __getstate__ of the implementation", {"case": meta[i]})
    ctx.cov["object_graphs_compared_with_model"] = total
    typed_variants(ctx)
    stored_states(ctx)
    subclass_roundtrip(ctx)
    # ---- cross-loading in a pure-Python child
    env = dict(os.environ, PURE_PYTHON="1")
    proc = subprocess.run([sys.executable, os.path.join(os.path.dirname(os.path.dirname(os.path.abspath(__file__))), "c06_child.py")],
                          input="\n".join(json.dumps(j) for j in jobs) + "\n", capture_output=True, text=True, env=env, timeout=1800)
    got = 0
    for line in proc.stdout.splitlines():
        try:
            r = json.loads(line)
        except ValueError:
            continue
        got += 1
        base, outs, cdumps, info = expect[r["id"]]
        for ld in r["loads"]:
            bad = None
            if "error" in ld:
                bad = "raises"
            elif not ld["type_ok"] or not ld["sound"]:
                bad = "wrong-type-or-unsound"
            elif [tuple(x) if isinstance(x, list) else x for x in ld["items"]] != base:
                bad = "contents-differ"
            elif ld["outs"] != json.loads(json.dumps(outs)):
                bad = "not-usable"
            if bad:
                ctx.oracle_failure("cross-load:C->Py:%s:%s%s" % (info["kind"], bad, ":embedded-leaf-below-root" if info.get("f16") else ""), "pure-Python process loading a C pickle (protocol %s) of %s%s: %s %s" % (
                    ld["proto"], info["family"], info["kind"], bad, ld.get("error", "")), info)
        for proto, hx in r["dumps"].items():
            if bytes.fromhex(hx) != cdumps[int(proto)]:
                ctx.oracle_failure("pickle-bytes-differ:pure-python-process:%s%s%s" % (info["kind"], ":fs" if info["family"] == "fs" else "", ":after-iand" if any(c[0] == "iand" for c in info["calls"]) else ""), "%s%s protocol %s: pickle written by a pure-Python process differs from the C one" % (info["family"], info["kind"], proto), info)
    if got != len(jobs):
        ctx.corr_mismatch("pure-Python child did not answer every job", {"jobs": len(jobs), "answers": got, "stderr": proc.stderr[-1500:]})
    ctx.cov["pickle_byte_comparisons"] = nbytes_cmp
    ctx.cov["cross_loaded_in_pure_python_process"] = got
    ctx.traces = ctx.evaluations


def typed_repr(x):
    """repr that distinguishes True from 1 and 2 from 2.0, recursively; persistent objects by their state"""
    from persistent import Persistent
    if isinstance(x, Persistent):
        n = type(x).__name__
        return "%s<%s>" % (n[:-2] if n.endswith("Py") else n, typed_repr(x.__getstate__()))
    if isinstance(x, (tuple, list)):
        return "(" + ",".join(typed_repr(y) for y in x) + ")"
    return "%s:%r" % (type(x).__name__, x)


def typed_variants(ctx):
    """keys and values of a convertible but different Python type (bool for integers, int for floats): both
    implementations must store the family's own type, so states and pickles stay identical and type-stable"""
    from harness.families import fam, BOUNDS
    n = 0
    for fn in ALL_FAMS:
        f = fam(fn)
        if f.kk in BOUNDS:
            keys = [True, 2, 5, 9]
        elif f.kk == "O":
            keys = ["a", "b", "c", "d"]
        else:
            keys = [b"ab", b"cd", b"ef", b"gh"]
        if f.vk in BOUNDS:
            vals = [True, 5, False, 7]
        elif f.vk == "F":
            vals = [2, True, 1.5, 0]
        elif f.vk == "O":
            vals = ["x", None, 1, 2.5]
        else:
            vals = [b"abcdef", b"ghijkl", b"mnopqr", b"stuvwx"]
        for kind in ("BTree", "Bucket", "TreeSet", "Set"):
            setlike = kind in ("TreeSet", "Set")
            objs = {}
            for impl in ("C", "Py"):
                cls = f.cls(kind, impl)
                with sizes_of(f, impl, 2, 2):
                    t = cls()
                    for k, v in zip(keys, vals):
                        if setlike:
                            t.add(k)
                        else:
                            t[k] = v
                    if not setlike:
                        t.update({keys[1]: vals[0]})
                        t.setdefault(keys[2], vals[1])
                        if f.vk == "O":
                            # an equal value of ANOTHER type replaces the stored object in both implementations
                            t[keys[0]] = 1; t[keys[0]] = True
                            t[keys[3]] = 2; t[keys[3]] = 2.0
                            t[keys[2]] = [1, 2]; t[keys[2]] = (1, 2)
                    st = typed_repr(t.__getstate__())
                    dumps = [pickle.dumps(t, p) for p in (0, 2, 5)]
                    back = typed_repr(pickle.loads(dumps[1]).__getstate__())
                    cp = typed_repr(copy.deepcopy(t).__getstate__())
                objs[impl] = (st, dumps)
                n += 1
                if back != st or cp != st:
                    ctx.oracle_failure("%s:typed-values:%s:state-not-type-stable" % (impl, kind),
                                       "%s%s/%s built from %r / %r: __getstate__ is %s but after a pickle round trip %s, after deepcopy %s" % (fn, kind, impl, keys, vals, st, back, cp),
                                       {"family": fn, "kind": kind, "impl": impl, "keys": [repr(k) for k in keys], "values": [repr(v) for v in vals]})
            # (fs: C copies the bytes into char arrays, Python keeps the caller's objects, so pickle memo
            #  references differ when one object is used twice -- finding F27; states are compared)
            if objs["C"][0] != objs["Py"][0] or (fn != "fs" and objs["C"][1] != objs["Py"][1]):
                ctx.oracle_failure("typed-values:%s:C-and-Python-states-differ" % kind,
                                   "%s%s built from keys %r values %r: C state %s, Python state %s; pickles equal: %s" % (
                                       fn, kind, keys, vals, objs["C"][0], objs["Py"][0], objs["C"][1] == objs["Py"][1]),
                                   {"family": fn, "kind": kind, "keys": [repr(k) for k in keys], "values": [repr(v) for v in vals]})
    ctx.cov["typed_variant_containers"] = n


def subclass_roundtrip(ctx):
    """subclasses (own node sizes, own leaf class through _bucket_type) round-trip like the base classes"""
    import sys as _sys
    from harness.families import fam
    me = _sys.modules[__name__]
    n = 0
    for fn in ("OO", "II", "LF", "OI", "fs", "QQ"):
        f = fam(fn)
        for impl in ("C", "Py"):
            for kind, leafkind in (("BTree", "Bucket"), ("TreeSet", "Set")):
                T, B = f.cls(kind, impl), f.cls(leafkind, impl)
                bname, tname = "Sub%s%s%s" % (fn, leafkind, impl), "Sub%s%s%s" % (fn, kind, impl)
                SubB = type(bname, (B,), {"__module__": __name__})
                SubT = type(tname, (T,), {"__module__": __name__, "_bucket_type": SubB, "max_leaf_size": 2, "max_internal_size": 3})
                setattr(me, bname, SubB); setattr(me, tname, SubT)
                env = TreeEnv(fn, kind, impl, "int" if fn[0] == "O" else None)
                t = SubT()
                for k in range(12):
                    t.add(env.k(k)) if env.setlike else t.__setitem__(env.k(k), env.v(k % 4))
                want = list(t) if env.setlike else list(t.items())
                copies = {}
                try:
                    t2 = SubT(); t2.__setstate__(t.__getstate__()); copies["setstate(getstate)"] = t2
                    for proto in (0, 2, 5):
                        copies["pickle-%d" % proto] = pickle.loads(pickle.dumps(t, proto))
                    copies["deepcopy"] = copy.deepcopy(t)
                    copies["copy"] = copy.copy(t)
                    bad = None
                    for how, o in copies.items():
                        got = list(o) if env.setlike else list(o.items())
                        if type(o) is not SubT:
                            bad = "%s: the copy is a %s" % (how, type(o).__name__)
                        elif got != want:
                            bad = "%s: contents differ" % how
                        elif how != "copy" and type(o._firstbucket) is not SubB:
                            bad = "%s: leaves are %s" % (how, type(o._firstbucket).__name__)
                        else:
                            o._check()
                except AssertionError as e:
                    bad = "%s: unsound: %s" % (how, str(e)[:60])
                except Exception as e:  # noqa
                    bad = "raises %s: %s" % (type(e).__name__, str(e)[:80])
                n += 1
                ctx.count(("subclass", fn, impl, kind))
                if bad:
                    ctx.oracle_failure("%s:subclass-with-own-leaf-class:%s" % (impl, kind), "%s%s/%s subclass (_bucket_type = a %s subclass, sizes 2/3, 12 entries): %s" % (fn, kind, impl, leafkind, bad),
                                       {"family": fn, "kind": kind, "impl": impl})
    ctx.cov["subclass_roundtrips"] = n


class sizes_of:
    def __init__(self, f, impl, ml, mi):
        from harness.families import sizes
        self.cm = sizes([f.cls("BTree", impl), f.cls("TreeSet", impl)], ml, mi)

    def __enter__(self):
        return self.cm.__enter__()

    def __exit__(self, *a):
        return self.cm.__exit__(*a)


def stored_states(ctx):
    """containers that live in a database: after every commit (objects have oids: a single stored leaf must be
    referenced, not embedded) the state of every object is the same in C and Python"""
    from harness.minijar import Storage, Jar
    from harness.props.c09 import state_repr
    rng = ctx.rng
    n = 0
    for it in range(ctx.n(60, 600)):
        kind = rng.choice(["BTree", "TreeSet"])
        fn = rng.choice(ALL_FAMS)
        ml, mi = rng.choice([(2, 2), (3, 3), (2, 3), (4, 4)])
        u = 24
        setl = kind == "TreeSet"
        keys = rng.sample(range(u), rng.randint(ml + 1, 3 * ml + 3))
        keep = rng.sample(keys, rng.randint(1, ml))
        phases = [[("add", k) if setl else ("set", k, k % 4) for k in keys],
                  [("remove", k) if setl else ("del", k) for k in keys if k not in keep],
                  [("add", rng.randrange(u)) if setl else ("set", rng.randrange(u), 1) for _ in range(rng.randint(1, 5))]]
        reprs = {}
        for impl in ("C", "Py"):
            env = TreeEnv(fn, kind, impl, "int" if fn[0] == "O" else None)
            out = []
            with env.sized(ml, mi):
                st = Storage()
                jar = Jar(st)
                t = env.new()
                jar.add(t)
                jar.commit()
                for ph in phases:
                    for c in ph:
                        env.call(t, c)
                    jar.commit()
                    out.append(state_repr(t))
            reprs[impl] = out
            n += 1
        if reprs["C"] != reprs["Py"]:
            i = [a == b for a, b in zip(reprs["C"], reprs["Py"])].index(False)
            ctx.oracle_failure("stored:%s:C-and-Python-states-differ" % kind,
                               "%s%s sizes=(%d,%d) stored in a database, after commit #%d (grow / shrink to one leaf / touch): C state %s, Python state %s" % (
                                   fn, kind, ml, mi, i + 1, str(reprs["C"][i])[:300], str(reprs["Py"][i])[:300]),
                               {"family": fn, "kind": kind, "sizes": [ml, mi], "phases": phases})
    ctx.cov["stored_containers_compared"] = n


def rebuild(env, calls, keyenv=None):
    """a second original, to compare follow-up behaviour (key/value maps shared)"""
    if keyenv is not None:
        env.km, env.vm = keyenv.km, keyenv.vm
    t = env.new()
    for c in calls:
        env.call(t, c)
    return t


def replay(ctx, data):
    print(data["replay"])
    return 0
