"""C19 -- Length is a conflict-free counter."""
import copy
import pickle

from harness import caseutil

PROPS_FILE = "Props/C19.v"
GENERATED = ("LengthGen",)
MODEL_FILES = ["Model/LengthRun.v"]
RULE = ("random op lists (init/set/change/pickle/resolve) over integers drawn from "
        "{small, +-2^31, +-2^63, 2^64, up to 2^200}; a case is distinct by its op list; "
        "non-trivial = contains a resolve or change with non-zero operands")
ASSUMPTIONS = ["pickling of a Persistent subclass goes through __getstate__/__setstate__ (persistent's __reduce__)",
               "translator grammar: see harness/translate.py docstring"]


def rint(rng):
    k = rng.random()
    if k < 0.35:
        return rng.randint(-20, 20)
    if k < 0.6:
        b = rng.choice([2**31, 2**32, 2**63, 2**64])
        return rng.choice([-1, 1]) * b + rng.randint(-2, 2)
    if k < 0.9:
        return rng.randint(-2**70, 2**70)
    return rng.randint(-2**200, 2**200)


def gen_ops(rng):
    ops = []
    for _ in range(rng.randint(1, 8)):
        k = rng.choice(["init", "initd", "set", "change", "pickle", "resolve", "resolve", "change"])
        if k in ("init", "set", "change"):
            ops.append((k, rint(rng)))
        elif k == "resolve":
            old = rint(rng)
            if rng.random() < 0.7:
                ops.append((k, old, old + rint(rng), old + rint(rng)))
            else:
                ops.append((k, old, rint(rng), rint(rng)))
        else:
            ops.append((k,))
    return ops


def run_impl(ops):
    from BTrees.Length import Length
    obj = Length.__new__(Length)
    outs = []
    for o in ops:
        ret = 0
        if o[0] == "init":
            obj.__init__(o[1])
        elif o[0] == "initd":
            obj.__init__()
        elif o[0] == "set":
            r = obj.set(o[1]); assert r is None
        elif o[0] == "change":
            r = obj.change(o[1]); assert r is None
        elif o[0] == "pickle":
            obj = pickle.loads(pickle.dumps(obj, 2))
        elif o[0] == "resolve":
            ret = obj._p_resolveConflict(o[1], o[2], o[3])
        outs.append((obj(), ret))
    return outs


def coq_case(ops, outs):
    z = caseutil.z
    t = []
    for o in ops:
        if o[0] == "init":
            t.append("OInit %s" % z(o[1]))
        elif o[0] == "initd":
            t.append("OInitDefault")
        elif o[0] == "set":
            t.append("OSet %s" % z(o[1]))
        elif o[0] == "change":
            t.append("OChange %s" % z(o[1]))
        elif o[0] == "pickle":
            t.append("OPickle")
        else:
            t.append("OResolve %s %s %s" % (z(o[1]), z(o[2]), z(o[3])))
    return "([%s], [%s])" % ("; ".join(t), "; ".join("(%s,%s)" % (z(a), z(b)) for a, b in outs))


def oracle(ctx, n):
    """Property stated directly on the real class."""
    from BTrees.Length import Length
    rng = ctx.rng
    for i in range(n):
        old, a, b, v = rint(rng), rint(rng), rint(rng), rint(rng)
        L = Length(v)
        try:
            r1 = L._p_resolveConflict(old, old + a, old + b)
            r2 = L._p_resolveConflict(old, old + b, old + a)
            bad = None
            if r1 != old + a + b:
                bad = "lost-update"
            elif r1 != r2:
                bad = "order-dependent"
            if bad is None:
                # n-way
                ds = [rint(rng) for _ in range(rng.randint(0, 5))]
                cur = old
                for d in ds:
                    cur = L._p_resolveConflict(old, cur, old + d)
                if cur != old + sum(ds):
                    bad = "n-way"
            if bad is None:
                c = Length(); ok = c() == 0 and c.value == 0
                c.set(a); ok = ok and c() == a
                c.change(b); ok = ok and c() == a + b
                c2 = pickle.loads(pickle.dumps(c)); ok = ok and c2() == a + b and type(c2) is Length
                c3 = copy.deepcopy(c); ok = ok and c3() == a + b
                c4 = Length(v); ok = ok and c4() == v and c4.__getstate__() == v
                c4.__setstate__(b); ok = ok and c4() == b
                if L() != v:
                    ok = False  # resolution must not disturb the cell
                if not ok:
                    bad = "cell"
        except Exception as e:  # the class must not raise on integers
            bad = "raises-" + type(e).__name__
        ctx.count(("o", old, a, b), nontrivial=(a != 0 or b != 0))
        if bad:
            ctx.oracle_failure("Length:" + bad, "Length %s for old=%d a=%d b=%d v=%d" % (bad, old, a, b, v),
                               {"old": old, "a": a, "b": b, "v": v})
            return


def stored(ctx, n):
    """A Length that lives in a database: set()/change() must register the object, a reader sees the
    committed value, and two connections changing it concurrently end with old + a + b in both orders."""
    from BTrees.Length import Length
    from harness.minijar import Storage, Jar
    rng = ctx.rng
    for i in range(n):
        old, a, b = rint(rng), rint(rng), rint(rng)
        bad = None
        for order in ((1, 2), (2, 1)):
            st = Storage()
            j0 = Jar(st)
            L = Length(old)
            oid = j0.add(L)
            j0.commit()
            jars = {1: Jar(st), 2: Jar(st)}
            objs = {k: jars[k].get(oid) for k in jars}
            if rng.random() < 0.5:
                objs[1].change(a)
            else:
                objs[1].set(old + a)
            objs[2].change(b)
            for k in (1, 2):
                if (a if k == 1 else b) != 0 and not any(o is objs[k] for o in jars[k].registered):
                    bad = "change-not-registered"
            try:
                jars[order[0]].commit()
                jars[order[1]].commit()
            except Exception as e:  # noqa
                bad = bad or "commit-raises-" + type(e).__name__
            got = Jar(st).get(oid)()
            if bad is None and got != old + a + b:
                bad = "stored-value-wrong"
            ctx.count(("s", old, a, b, order), nontrivial=(a != 0 and b != 0))
            if bad:
                ctx.oracle_failure("Length:stored:" + bad, "Length stored in a database, old=%d, connection 1 adds %d, connection 2 adds %d, commit order %r: %s (a reader sees %r, expected %d)" % (
                    old, a, b, order, bad, got, old + a + b), {"old": old, "a": a, "b": b, "order": list(order), "stored": True})
                return


def run(ctx):
    stored(ctx, ctx.n(300, 6000))
    n = ctx.n(800, 20000)
    cases, terms = [], []
    for i in range(n):
        ops = gen_ops(ctx.rng)
        try:
            outs = run_impl(ops)
        except Exception as e:
            ctx.oracle_failure("Length:raises-" + type(e).__name__, "Length raised on %r" % (ops,), {"ops": ops})
            continue
        cases.append(ops)
        terms.append(coq_case(ops, outs))
        ctx.count(("c", tuple(ops)), nontrivial=any(o[0] in ("resolve", "change") for o in ops))
        ctx.sample({"ops": [list(map(str, o)) for o in ops], "impl_outs": [list(map(str, x)) for x in outs]}, 3)
    if "LengthGen" not in getattr(ctx, "gen_errs", {}):
        hdr = "From Coq Require Import ZArith List.\nFrom BT Require Import Model.CaseUtil Model.LengthRun.\nImport ListNotations.\nOpen Scope Z_scope.\n"
        total, bad, errs = caseutil.eval_cases("c19", hdr, "lcase_ok", terms)
        ctx.traces = total
        for e in errs:
            ctx.corr_mismatch("c19 case file", e)
        for i in bad[:5]:
            ctx.corr_mismatch("Length model vs class", {"ops": cases[i]})
        ctx.cov["correspondence_cases_in_coq"] = total
    oracle(ctx, ctx.n(20000, 400000))


def replay(ctx, data):
    from BTrees.Length import Length
    r = data["replay"]
    if r.get("stored"):
        print(r)
        return 0
    if "old" in r:
        got = Length(r["v"])._p_resolveConflict(r["old"], r["old"] + r["a"], r["old"] + r["b"])
        print("resolve ->", got, "expected", r["old"] + r["a"] + r["b"])
        return 0 if got == r["old"] + r["a"] + r["b"] else 1
    print(run_impl([tuple(o) for o in r["ops"]]))
    return 0
