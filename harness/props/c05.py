"""C05 -- evicting nodes from the object cache never changes behaviour."""
import random as _r

from harness.families import ALL_FAMS, fam, sizes
from harness.minijar import Storage, Jar
from harness.treelib import TreeEnv, RefMap, walk_invariants
from harness.props.c01 import gen_history
from harness.props.c04 import f16_condition, commit_detecting_f33

PROPS_FILE = "Props/C05.v"
MODEL_FILES = ["Model/RTree.v", "Model/TreeRun.v", "Model/Persist.v", "Model/PersistSpec.v", "Model/PersistRun.v", "Model/Search.v", "Model/Pins.v"]
RULE = ("(a) histories on stored containers with cache sweeps / single-node deactivations between calls; (b) object-keyed "
        "containers whose key comparison sweeps the cache (and records every node's state) on EVERY comparison inside an "
        "operation, results compared with an un-swept twin; (c) after every call, also failing ones (bad key, missing key, "
        "unusable bound, a comparison raising at any point of a lookup / write / range query on a three-level tree, bool / len / "
        "indexing / iteration of lazy range sequences), no node may remain sticky and every stored unchanged node must be evictable; distinct by "
        "(history, sweep placement); non-trivial = the tree has >= 2 leaves at some sweep")
ASSUMPTIONS = ["harness/minijar.py + persistent.PickleCache stand in for the ZODB connection and its cache",
               "a tree in the shape of finding F16 (a non-root node holding one never-stored leaf) is not committed: the history is cut there",
               "thread interleavings are outside the property"]
STICKY = 2


class SweepKey:
    """totally ordered key; every comparison records node states and sweeps the cache"""
    hook = None
    __slots__ = ("n",)

    def __init__(self, n):
        self.n = n

    def __lt__(self, o):
        if SweepKey.hook:
            SweepKey.hook()
        return self.n < o.n

    def __eq__(self, o):
        if SweepKey.hook:
            SweepKey.hook()
        return isinstance(o, SweepKey) and self.n == o.n

    def __hash__(self):
        return hash(self.n)

    def __reduce__(self):
        return (SweepKey, (self.n,))

    def __repr__(self):
        return "K%d" % self.n


def nodes_of(jar):
    return [o for _, o in jar._cache.items()]


def sticky_nodes(jar):
    return [o for o in nodes_of(jar) if o._p_state == STICKY]


def part_a(ctx, rng, n):
    """between operations"""
    for it in range(n):
        kind = rng.choice(["BTree", "TreeSet", "Bucket", "Set"])
        fn = rng.choice(ALL_FAMS)
        impl = rng.choice(["C", "Py"])
        mode = rng.choice({"O": ["none-int", "str", "int"]}.get(fn[0], [None, "extreme"]))
        env = TreeEnv(fn, kind, impl, mode)
        ml, mi = rng.choice([(2, 2), (2, 2), (2, 3), (3, 3), (4, 4), (1, 2)])
        calls = gen_history(rng, kind, rng.choice([8, 20, 40, 60]), rng.choice([20, 60, 100]), avoid0=(mode == "none-int"))
        ref = RefMap()
        nsweeps = 0
        with env.sized(ml, mi):
            st = Storage()
            jar = Jar(st)
            t = env.new()
            jar.add(t)
            jar.commit()
            multi = False
            for i, c in enumerate(calls):
                r = rng.random()
                if r < 0.5 and kind in ("BTree", "TreeSet") and f16_condition(None, t):
                    # committing this shape stores a damaged tree (finding F16 of C04, recorded there):
                    # everything after it would only re-report that finding
                    ctx.cov["histories_cut_at_F16_shape"] = ctx.cov.get("histories_cut_at_F16_shape", 0) + 1
                    break
                if r < 0.5 and kind in ("BTree", "TreeSet"):
                    if commit_detecting_f33(jar, t):
                        # finding F33 of C04: the root's record now holds a stale-prone inline copy of its leaf
                        ctx.cov["histories_cut_at_F33_commit"] = ctx.cov.get("histories_cut_at_F33_commit", 0) + 1
                        break
                if r < 0.25:
                    jar.commit()
                    jar.minimize()                      # everything becomes a ghost
                    nsweeps += 1
                elif r < 0.5:
                    jar.commit()
                    objs = nodes_of(jar)
                    for o in rng.sample(objs, max(1, len(objs) // 2)):
                        o._p_deactivate()
                    nsweeps += 1
                elif r < 0.6:
                    jar.minimize()                      # changed objects must survive a sweep
                    nsweeps += 1
                o = env.call(t, c)
                w = ref.call(c)
                if o != w:
                    ctx.oracle_failure("%s:%s:evict-between-ops:%s" % (impl, kind, c[0]), "%s%s/%s with cache sweeps between calls: call #%d %r -> %r, expected %r" % (fn, kind, impl, i, c, o, w),
                                       {"family": fn, "kind": kind, "impl": impl, "calls": calls[:i + 1], "sizes": [ml, mi]})
                    break
                stk = sticky_nodes(jar)
                if stk:
                    ctx.oracle_failure("%s:%s:sticky-after:%s" % (impl, kind, c[0]), "%s%s/%s: %d node(s) still pinned after call %r" % (fn, kind, impl, len(stk), c),
                                       {"family": fn, "kind": kind, "impl": impl, "calls": calls[:i + 1], "sizes": [ml, mi]})
                    break
                if kind in ("BTree", "TreeSet") and len(env.leaf_objects(t)) >= 2:
                    multi = True
        ctx.count(("a", fn, kind, impl, repr(calls)), nontrivial=multi)
    return


def sweep_history(ctx, fn, kind, impl, ml, mi, u, nops, seed, swept, pins_seen):
    """one seeded history on a stored object-keyed container; with [swept] every key comparison sweeps the cache"""
    f = fam(fn)
    cls = f.cls(kind, impl)
    setlike = kind == "TreeSet"
    vm = f.valmap()
    rr = _r.Random(seed)
    with sizes([f.cls("BTree", impl), f.cls("TreeSet", impl)], ml, mi):
        st = Storage()
        jar = Jar(st)
        t = cls()
        jar.add(t)
        jar.commit()
        outs = []
        ncmp = [0]
        f33_hit = [False]

        def hook():
            ncmp[0] += 1
            npin = len(sticky_nodes(jar))
            pins_seen[npin] = pins_seen.get(npin, 0) + 1
            jar.minimize()
        for i in range(nops):
            k = SweepKey(rr.randrange(u))
            op = rr.choice(["set", "set", "del", "get", "in", "min", "max", "range", "len", "pop", "commit"])
            SweepKey.hook = hook if swept else None
            try:
                if op == "set":
                    r = t.add(k) if setlike else t.__setitem__(k, vm.v(i % 4))
                    r = ("ok", bool(r) if setlike else None)
                elif op == "del":
                    r = ("ok", t.remove(k) if setlike else t.__delitem__(k))
                elif op == "get":
                    r = ("ok", (k in t) if setlike else t.get(k))
                elif op == "in":
                    r = ("ok", k in t)
                elif op == "min":
                    r = ("ok", repr(t.minKey(k)))
                elif op == "max":
                    r = ("ok", repr(t.maxKey(k)))
                elif op == "range":
                    k2 = SweepKey(rr.randrange(u))
                    r = ("ok", repr(list(t.keys(k, k2, rr.random() < 0.5, rr.random() < 0.5))))
                elif op == "len":
                    r = ("ok", len(t))
                elif op == "pop":
                    r = ("ok", repr(t.pop()) if setlike else t.pop(k, None))
                else:
                    SweepKey.hook = None
                    if f16_condition(None, t):
                        # not committed: this shape is stored damaged (finding F16 of C04)
                        ctx.cov["commits_skipped_at_F16_shape"] = ctx.cov.get("commits_skipped_at_F16_shape", 0) + 1
                    elif commit_detecting_f33(jar, t):
                        f33_hit[0] = True
                    r = ("ok", None)
            except (KeyError, ValueError) as e:
                r = (type(e).__name__,)
            except Exception as e:  # noqa
                r = ("other", type(e).__name__, str(e)[:60])
            finally:
                SweepKey.hook = None
            outs.append((op, k.n, r))
            if f33_hit[0]:
                break          # finding F33 of C04: everything after this commit would only re-report it
            stk = sticky_nodes(jar)
            if stk:
                ctx.oracle_failure("%s:%s:sticky-after:%s" % (impl, kind, op), "%s%s/%s: %d node(s) still pinned after %s(%r) -> %r" % (fn, kind, impl, len(stk), op, k, r),
                                   {"family": fn, "kind": kind, "impl": impl, "seed": seed, "sizes": [ml, mi], "op_index": i})
                break
        try:
            final = [repr(x) for x in (t if setlike else t.items())]
            chk = None
            t._check()
        except Exception as e:  # noqa
            final, chk = None, "%s: %s" % (type(e).__name__, str(e)[:80])
        return (outs, final, chk)


# histories that once took the process down (kept as a corpus that runs first): (family, kind, impl, sizes, u, nops, seed)
SWEEP_CORPUS = [("OQ", "BTree", "C", (2, 2), 30, 50, 0.14476375633043415)]      # finding F42


def part_b(ctx, rng, n):
    """sweeps inside key comparisons (object-keyed families)"""
    pins_seen = {}
    cases = list(SWEEP_CORPUS)
    for it in range(n):
        fn = rng.choice(["OO", "OI", "OL", "OQ", "OU"])
        kind = rng.choice(["BTree", "BTree", "TreeSet"])
        impl = rng.choice(["C", "C", "Py"])
        ml, mi = rng.choice([(2, 2), (3, 3), (2, 3), (1, 2)])
        u = rng.choice([8, 16, 30])
        nops = rng.choice([10, 25, 50])
        seed = rng.random()
        cases.append((fn, kind, impl, (ml, mi), u, nops, seed))
    for fn, kind, impl, (ml, mi), u, nops, seed in cases:
        ctx.progress({"scenario": "history with a cache sweep inside every key comparison", "family": fn, "kind": kind, "impl": impl,
                      "sizes": [ml, mi], "u": u, "nops": nops, "seed": seed})
        results = {}
        for swept in (False, True):
            results[swept] = sweep_history(ctx, fn, kind, impl, ml, mi, u, nops, seed, swept, pins_seen)
        if results[False] != results[True]:
            a, b = results[False], results[True]
            first = next((i for i, (x, y) in enumerate(zip(a[0], b[0])) if x != y), None)
            ctx.oracle_failure("%s:%s:sweep-inside-comparison-changes-result" % (impl, kind),
                               "%s%s/%s sizes=(%d,%d): with a cache sweep inside every key comparison the history diverges at op %s: %r vs %r; final check %r" % (
                                   fn, kind, impl, ml, mi, first, a[0][first] if first is not None else None, b[0][first] if first is not None else None, b[2]),
                               {"family": fn, "kind": kind, "impl": impl, "seed": seed, "sizes": [ml, mi], "nops": nops, "u": u})
        ctx.count(("b", fn, kind, impl, seed), nontrivial=True)
    ctx.cov["pinned_nodes_seen_at_comparisons"] = {str(k): v for k, v in sorted(pins_seen.items())}


def part_c(ctx, rng, n):
    """failing operations leave nothing pinned"""
    for it in range(n):
        fn = rng.choice(ALL_FAMS)
        kind = rng.choice(["BTree", "TreeSet", "Bucket", "Set"])
        f = fam(fn)
        env = TreeEnv(fn, kind, "C", "int" if fn[0] == "O" else None)
        setlike = env.setlike
        with env.sized(2, 2):
            st = Storage()
            jar = Jar(st)
            t = env.new()
            jar.add(t)
            for i in range(rng.choice([1, 3, 9])):
                if setlike:
                    t.add(env.k(2 * i))
                else:
                    t[env.k(2 * i)] = env.v(i % 4)
            jar.commit()
            badkey = object() if fn[0] != "O" else type("D", (), {})()
            probes = [("getitem-missing", lambda: t[env.k(1)] if not setlike else t.remove(env.k(1))),
                      ("del-missing", lambda: t.remove(env.k(1)) if setlike else t.__delitem__(env.k(1))),
                      ("set-badkey", lambda: t.add(badkey) if setlike else t.__setitem__(badkey, env.v(0))),
                      ("get-badkey", lambda: (badkey in t)),
                      ("minKey-badbound", lambda: t.minKey(badkey)),
                      ("maxKey-badbound", lambda: t.maxKey(badkey)),
                      ("keys-badbound", lambda: list(t.keys(badkey))),
                      ("keys-badmax", lambda: list(t.keys(None, badkey))),
                      ("minKey-none-satisfies", lambda: t.minKey(env.k(1000))),
                      ("update-bad", lambda: t.update([badkey] if setlike else [(badkey, env.v(0))])),
                      ("pop-missing", lambda: (t.pop(env.k(1)) if not setlike else None))]
            if not setlike:
                probes.append(("set-badvalue", lambda: t.__setitem__(env.k(2), object()) if f.vk != "O" else None))
                probes.append(("values-badbound", lambda: list(t.values(badkey))))
                if f.vk != "O" and hasattr(t, "byValue"):
                    probes.append(("byValue-badmin", lambda: t.byValue("not a value")))
                probes.append(("items-badbound", lambda: list(t.items(badkey, None))))
            rng.shuffle(probes)
            for name, fnc in probes:
                for o in nodes_of(jar):
                    if o._p_state == 0:
                        pass
                try:
                    fnc()
                    out = "returned"
                except Exception as e:  # noqa
                    out = type(e).__name__
                stk = sticky_nodes(jar)
                ctx.count(("c", fn, kind, name, len(nodes_of(jar))))
                if stk:
                    ctx.oracle_failure("C:%s:sticky-after-failed:%s" % (kind, name), "%s%s/C: after %s (%s) %d node(s) stay pinned (_p_state == 2) and can never be evicted" % (fn, kind, name, out, len(stk)),
                                       {"family": fn, "kind": kind, "probe": name})
                    for o in stk:
                        o._p_deactivate()
                    break
            # every stored unchanged node must be evictable now
            jar.abort()
            jar.minimize()
            left = [o for o in nodes_of(jar) if o._p_state not in (-1,)]
            if left:
                ctx.oracle_failure("C:%s:not-evictable" % kind, "%s%s/C: %d node(s) cannot be evicted after the probes" % (fn, kind, len(left)), {"family": fn, "kind": kind})


def part_d(ctx, rng, n):
    """set algebra and multiunion on stored operands that have been evicted (ghosts)"""
    from harness.families import BOUNDS
    for it in range(n):
        fn = rng.choice(ALL_FAMS)
        impl = rng.choice(["C", "Py"])
        envs = [TreeEnv(fn, rng.choice(["Set", "TreeSet", "Bucket", "BTree"]), impl, "int" if fn[0] == "O" else None) for _ in range(2)]
        envs[1].km, envs[1].vm = envs[0].km, envs[0].vm
        f = envs[0].f
        keysets = [sorted(rng.sample(range(40), rng.randint(0, 14))) for _ in range(2)]
        with envs[0].sized(3, 3), envs[1].sized(3, 3):
            st = Storage()
            jar = Jar(st)
            ops = []
            for env, ks in zip(envs, keysets):
                t = env.new()
                for k in ks:
                    if env.setlike:
                        t.add(env.k(k))
                    else:
                        t[env.k(k)] = env.v(1)
                jar.add(t)
                ops.append(t)
            jar.commit()
            A, B = set(keysets[0]), set(keysets[1])
            todo = [("union", A | B), ("intersection", A & B), ("difference", A - B)]
            if f.kk in BOUNDS:
                todo.append(("multiunion", A | B))
            for name, want in todo:
                jar.minimize()
                fnc = f.func(name, impl)
                if fnc is None:
                    continue
                try:
                    r = fnc(ops) if name == "multiunion" else fnc(ops[0], ops[1])
                    got = [envs[0].km.ik(k) for k in r]
                except Exception as e:  # noqa
                    got = "raises " + type(e).__name__
                ctx.count(("d", fn, impl, name, tuple(keysets[0]), tuple(keysets[1]), envs[0].kind, envs[1].kind))
                r = None
                stk = sticky_nodes(jar)
                if stk and got == sorted(want):
                    ctx.oracle_failure("%s:%s:operand-left-pinned" % (impl, name), "%s/%s %s(%s%r, %s%r): %d stored node(s) of the operands are still pinned after the call returned" % (
                        fn, impl, name, envs[0].kind, keysets[0], envs[1].kind, keysets[1], len(stk)), {"family": fn, "impl": impl, "fn": name, "kinds": [envs[0].kind, envs[1].kind], "keys": keysets})
                    break
                if got != sorted(want):
                    ctx.oracle_failure("%s:%s:on-evicted-operands" % (impl, name),
                                       "%s/%s %s(%s%r, %s%r) with both operands evicted from the cache -> %r, expected %r" % (
                                           fn, impl, name, envs[0].kind, keysets[0], envs[1].kind, keysets[1], got, sorted(want)),
                                       {"family": fn, "impl": impl, "fn": name, "kinds": [envs[0].kind, envs[1].kind], "keys": keysets})
                    break


def part_e(ctx, rng, n):
    """range searches, minKey / maxKey and lazy sequences on a stored tree whose nodes are all evicted before each query"""
    for it in range(n):
        kind = rng.choice(["BTree", "TreeSet"])
        fn = rng.choice(ALL_FAMS)
        impl = rng.choice(["C", "C", "Py"])
        env = TreeEnv(fn, kind, impl, "int" if fn[0] == "O" else None)
        ml, mi = rng.choice([(2, 2), (2, 3), (3, 3)])
        with env.sized(ml, mi):
            jar = Jar(Storage())
            t = env.new()
            keys = sorted(rng.sample(range(0, 80, 2), rng.randint(6, 30)))
            for k in keys:
                env.call(t, ("add", k) if env.setlike else ("set", k, k % 4))
            for k in rng.sample(keys, rng.randint(0, len(keys) // 3)):
                env.call(t, ("remove", k) if env.setlike else ("del", k))
            if f16_condition(None, t):
                continue
            jar.add(t)
            jar.commit()
            present = sorted(env.km.ik(k) for k in t)
            if not present:
                continue
            bad = None
            probes = rng.sample(present, min(len(present), 8)) + [present[0] - 1, present[-1] + 1, present[len(present) // 2] + 1]
            for b in probes:
                for kw in ({"min": b}, {"max": b}, {"min": b, "excludemin": True}, {"max": b, "excludemax": True}):
                    jar.minimize()
                    lo, hi = kw.get("min"), kw.get("max")
                    want = [k for k in present if (lo is None or (k > lo if kw.get("excludemin") else k >= lo)) and (hi is None or (k < hi if kw.get("excludemax") else k <= hi))]
                    args = {("min" if a == "min" else "max" if a == "max" else a): (env.k(v) if a in ("min", "max") else v) for a, v in kw.items()}
                    try:
                        got = [env.km.ik(k) for k in t.keys(**args)]
                    except Exception as e:  # noqa
                        got = "raises %s" % type(e).__name__
                    if got != want and bad is None:
                        bad = "keys(%r) on the evicted tree -> %r, expected %r" % (kw, got, want)
                jar.minimize()
                try:
                    mk = env.km.ik(t.minKey(env.k(b)))
                except ValueError:
                    mk = None
                wantmk = next((k for k in present if k >= b), None)
                if mk != wantmk and bad is None:
                    bad = "minKey(%r) on the evicted tree -> %r, expected %r" % (b, mk, wantmk)
                jar.minimize()
                try:
                    xk = env.km.ik(t.maxKey(env.k(b)))
                except ValueError:
                    xk = None
                wantxk = next((k for k in reversed(present) if k <= b), None)
                if xk != wantxk and bad is None:
                    bad = "maxKey(%r) on the evicted tree -> %r, expected %r" % (b, xk, wantxk)
            ctx.count(("e", fn, kind, impl, ml, mi, tuple(present)))
            if bad:
                ctx.oracle_failure("%s:%s:range-on-evicted-tree" % (impl, kind), "%s%s/%s sizes=(%d,%d) keys %r stored, every node evicted before the query: %s" % (fn, kind, impl, ml, mi, present, bad),
                                   {"family": fn, "kind": kind, "impl": impl, "sizes": [ml, mi], "keys": present})


class _Boom(Exception):
    pass


def part_f(ctx, rng, n):
    """(1) lazy range sequences of stored C trees: bool / len / indexing / iteration leave nothing pinned;
    (2) a comparison that RAISES at any point of a lookup, write or range query on a stored tree of three
    levels leaves nothing pinned"""
    from BTrees.OOBTree import OOBTree, OOTreeSet
    nviews = nfail = 0
    for it in range(n):
        kind = rng.choice(["BTree", "TreeSet"])
        fn = rng.choice(ALL_FAMS)
        env = TreeEnv(fn, kind, "C", "int" if fn[0] == "O" else None)
        ml, mi = rng.choice([(2, 2), (3, 3), (6, 3), (4, 4), (6, 6)])
        with env.sized(ml, mi):
            jar = Jar(Storage())
            t = env.new()
            keys = sorted(rng.sample(range(0, 60), rng.randint(4, 40)))
            for k in keys:
                env.call(t, ("add", k) if env.setlike else ("set", k, k % 4))
            if f16_condition(None, t):
                continue
            jar.add(t)
            jar.commit()
            for _ in range(12):
                jar.minimize()
                lo, hi = sorted((rng.randrange(-1, 61), rng.randrange(-1, 61)))
                meth = rng.choice(["keys"] if env.setlike else ["keys", "values", "items"])
                args = (env.k(lo) if rng.random() < 0.85 else None, env.k(hi) if rng.random() < 0.85 else None, rng.random() < 0.3, rng.random() < 0.3)
                v = getattr(t, meth)(*args)
                nv = len(v)
                back = sorted(rng.sample(range(nv), min(nv, 4)), reverse=True) if nv else []
                for opn, op in (("bool", lambda: bool(v)), ("len", lambda: len(v)), ("first", lambda: v[0]), ("last", lambda: v[-1]),
                                ("next", lambda: next(iter(v))), ("list", lambda: [x for x in v]),
                                ("index-backwards", lambda: [v[i] for i in back]),            # PreviousBucket walks
                                ("index-back-and-forth", lambda: [v[i] for i in (nv - 1, 0, nv // 2, 0)] if nv else None),
                                ("slice-backwards", lambda: (v[nv // 2:], v[:nv // 2], v[-1], v[0]) if nv else None)):
                    try:
                        op()
                    except (IndexError, StopIteration):
                        pass
                    nviews += 1
                    stk = sticky_nodes(jar)
                    if stk:
                        ctx.oracle_failure("C:%s:sticky-after:%s-of-range-sequence" % (kind, opn),
                                           "%s%s/C sizes=(%d,%d) keys %r stored: %s of %s%r leaves %d node(s) pinned (_p_state == 2)" % (fn, kind, ml, mi, keys, opn, meth, (lo, hi) + args[2:], len(stk)),
                                           {"family": fn, "kind": kind, "sizes": [ml, mi], "keys": keys, "method": meth, "range": [lo, hi, args[2], args[3]], "op": opn})
                        for o in stk:
                            o._p_deactivate()
                        break
                del v
            ctx.count(("f-views", fn, kind, ml, mi, tuple(keys)))
    # (1b) an omitted exclusive bound steps over a one-key end bucket (PreviousBucket / next walks of BTree_rangeSearch)
    for it in range(max(4, n // 4)):
        kind = rng.choice(["BTree", "TreeSet"])
        fn = rng.choice(ALL_FAMS)
        env = TreeEnv(fn, kind, "C", "int" if fn[0] == "O" else None)
        ml, mi = rng.choice([(2, 2), (3, 3), (2, 4), (4, 4)])
        with env.sized(ml, mi):
            jar = Jar(Storage())
            t = env.new()
            nk = rng.choice([2 * ml + 1, 3 * ml + 1, 5 * ml + 1, 4 * ml + 1]) + 1     # ascending inserts: the last bucket ends with few keys
            keys = list(range(1, nk))
            for k in keys:
                env.call(t, ("add", k) if env.setlike else ("set", k, k % 4))
            def leaf_keys(sh):
                if sh[0] == "leaf":
                    return [sh[1]]
                return [x for _, c in sh[1] for x in leaf_keys(c)]
            lk = leaf_keys(env.shape(t))
            if len(lk) < 3:
                continue
            for kk in lk[0][1:] + lk[-1][:-1]:          # thin the two end buckets down to one key each
                env.call(t, ("remove", kk) if env.setlike else ("del", kk))
            if f16_condition(None, t):
                continue
            jar.add(t)
            jar.commit()
            for meth in (["keys"] if env.setlike else ["keys", "values", "items"]):
                for args in ((None, None, False, True), (None, None, True, False), (None, None, True, True)):
                    jar.minimize()
                    v = getattr(t, meth)(*args)
                    for opn, op in (("create", lambda: None), ("len", lambda: len(v)), ("list", lambda: [x for x in v]), ("last-first", lambda: (v[-1], v[0]))):
                        try:
                            op()
                        except IndexError:
                            pass
                        nviews += 1
                        stk = sticky_nodes(jar)
                        if stk:
                            ctx.oracle_failure("C:%s:sticky-after:%s-of-range-sequence" % (kind, opn),
                                               "%s%s/C sizes=(%d,%d), end buckets thinned to one key, stored: %s of %s%r leaves %d node(s) pinned (_p_state == 2)" % (fn, kind, ml, mi, opn, meth, args, len(stk)),
                                               {"family": fn, "kind": kind, "sizes": [ml, mi], "nkeys": nk, "method": meth, "range": list(args), "op": opn})
                            for o in stk:
                                o._p_deactivate()
                            break
                    del v
            ctx.count(("f-ends", fn, kind, ml, mi, nk))
    # (2) raising comparisons
    for it in range(max(3, n // 6)):
        cls = rng.choice([OOBTree, OOTreeSet])
        setlike = cls is OOTreeSet
        old = (cls.max_leaf_size, cls.max_internal_size)
        cls.max_leaf_size, cls.max_internal_size = 2, 2
        try:
            jar = Jar(Storage())
            t = cls()
            ks = sorted(rng.sample(range(0, 80, 2), rng.randint(9, 16)))      # three levels and more
            for k in ks:
                if setlike:
                    t.add(SweepKey(k))
                else:
                    t[SweepKey(k)] = k
            jar.add(t)
            jar.commit()
            probe = rng.choice(ks) + rng.choice([0, 1])
            queries = [("get", lambda: SweepKey(probe) in t), ("minKey", lambda: t.minKey(SweepKey(probe))), ("maxKey", lambda: t.maxKey(SweepKey(probe))),
                       ("keys", lambda: [x for x in t.keys(SweepKey(probe), SweepKey(probe + 9))]), ("keys-max", lambda: [x for x in t.keys(None, SweepKey(probe))]),
                       ("len-keys", lambda: len(t.keys(SweepKey(probe), SweepKey(probe + 9)))),
                       ("set-existing", lambda: (t.add(SweepKey(ks[0])) if setlike else t.__setitem__(SweepKey(ks[0]), 1)))]
            for qn, q in queries:
                for failing in range(1, 40):
                    jar.abort()
                    jar.minimize()
                    cnt = [0]

                    def hook():
                        cnt[0] += 1
                        if cnt[0] == failing:
                            raise _Boom()
                    SweepKey.hook = hook
                    try:
                        q()
                        raised = False
                    except _Boom:
                        raised = True
                    except (ValueError, KeyError):
                        raised = False
                    finally:
                        SweepKey.hook = None
                    nfail += 1
                    stk = sticky_nodes(jar)
                    if stk:
                        ctx.oracle_failure("C:%s:sticky-after-raising-comparison:%s" % ("TreeSet" if setlike else "BTree", qn),
                                           "OO%s/C sizes=(2,2) keys %r stored: %s(%d) with comparison #%d raising leaves %d node(s) pinned (_p_state == 2)" % ("TreeSet" if setlike else "BTree", ks, qn, probe, failing, len(stk)),
                                           {"kind": "TreeSet" if setlike else "BTree", "keys": ks, "query": qn, "probe": probe, "failing": failing})
                        for o in stk:
                            o._p_deactivate()
                        break
                    if not raised:
                        break
            ctx.count(("f-raise", setlike, tuple(ks), probe))
        finally:
            cls.max_leaf_size, cls.max_internal_size = old
    # (3) range queries and maxKey with a cache sweep inside EVERY comparison, on stored trees of three and more
    # levels, every pair of bounds of a small universe and all flag combinations; compared with the un-swept result
    # (finding F42: the search remembered a node of an unpinned, meanwhile evicted parent -- a crash of this process)
    nsw = 0
    for it in range(max(2, n // 20)):
        cls = rng.choice([OOBTree, OOTreeSet])
        setlike = cls is OOTreeSet
        old = (cls.max_leaf_size, cls.max_internal_size)
        cls.max_leaf_size, cls.max_internal_size = 2, 2
        try:
            jar = Jar(Storage())
            t = cls()
            ks = [2, 3, 6, 7, 10, 16, 20, 24, 26] if it == 0 else sorted(rng.sample(range(0, 30), rng.randint(7, 14)))
            for k in ks:
                if setlike:
                    t.add(SweepKey(k))
                else:
                    t[SweepKey(k)] = k
            jar.add(t)
            jar.commit()
            ctx.progress({"scenario": "range queries with a cache sweep inside every comparison", "kind": cls.__name__, "keys": ks})
            bounds = sorted(set(rng.sample(range(-1, 31), 9) + [7, 24]))
            for lo in bounds:
                for hi in bounds:
                    for exmin, exmax in ((False, False), (True, True), (True, False), (False, True)):
                        want = [k for k in ks if (k > lo if exmin else k >= lo) and (k < hi if exmax else k <= hi)]
                        jar.minimize()
                        SweepKey.hook = jar.minimize
                        try:
                            got = [x.n for x in t.keys(SweepKey(lo), SweepKey(hi), exmin, exmax)]
                            try:
                                mx = t.maxKey(SweepKey(hi)).n
                            except ValueError:
                                mx = None
                        finally:
                            SweepKey.hook = None
                        nsw += 1
                        wmx = max([k for k in ks if k <= hi], default=None)
                        if got != want or mx != wmx:
                            ctx.oracle_failure("C:%s:range-with-sweeps-inside-comparisons" % cls.__name__,
                                               "%s sizes=(2,2) keys %r stored: keys(%d, %d, %r, %r) with a cache sweep inside every comparison -> %r (expected %r), maxKey(%d) -> %r (expected %r)" % (
                                                   cls.__name__, ks, lo, hi, exmin, exmax, got, want, hi, mx, wmx),
                                               {"kind": cls.__name__, "keys": ks, "lo": lo, "hi": hi, "exmin": exmin, "exmax": exmax})
            ctx.count(("f-sweeps", setlike, tuple(ks)))
        finally:
            cls.max_leaf_size, cls.max_internal_size = old
    ctx.cov["range_queries_with_sweeps_inside_comparisons"] = nsw
    ctx.cov["range_sequence_ops_checked_for_pins"] = nviews
    ctx.cov["raising_comparisons_checked_for_pins"] = nfail


class PinKey:
    """totally ordered key; a comparison in which the probe (argument) key takes part reports the stored key it is compared with"""
    hook = None
    __slots__ = ("n", "probe")

    def __init__(self, n, probe=False):
        self.n = n
        self.probe = probe

    def __lt__(self, o):
        if PinKey.hook and (self.probe or o.probe):
            PinKey.hook(o.n if self.probe else self.n)
        return self.n < o.n

    def __eq__(self, o):
        return isinstance(o, PinKey) and self.n == o.n

    def __hash__(self):
        return hash(self.n)

    def __reduce__(self):
        return (PinKey, (self.n,))

    def __repr__(self):
        return "P%d" % self.n


def _preorder(t):
    """node objects in preorder (the numbering of Model/Pins.v `number`) and the shape"""
    st = t.__getstate__()
    data = st[0]
    nodes, kids = [t], []
    for i in range(0, len(data), 2):
        c = data[i]
        sep = 0 if i == 0 else data[i - 1].n
        if type(c) is type(t):
            sub_nodes, sub_shape = _preorder(c)
            nodes += sub_nodes
            kids.append((sep, sub_shape))
        else:
            cs = c.__getstate__()[0]
            keys = [k.n for k in (cs if not isinstance(cs[0], PinKey) or len(cs) < 2 or isinstance(cs[1], PinKey) else cs[0::2])]
            nodes.append(c)
            kids.append((sep, ("leaf", keys)))
    return nodes, ("node", kids)


PIN_HDR = ("From Coq Require Import ZArith List.\nFrom BT Require Import Model.CaseUtil Model.RTree Model.Search Model.Pins.\n"
           "Import ListNotations.\nOpen Scope Z_scope.\n")


def part_g(ctx, rng, n):
    """The tie of the pin model (Model/Pins.v; theorems C05_pins_*): on stored C trees whose nodes are all ghosts when
    the call starts, every comparison of the argument with a stored key records WHICH NODES ARE STICKY at that moment;
    the sequence (stored key, pinned nodes) of lookups (hand-over), inserts / deletes (the whole path) and
    minKey(k) / maxKey(k) (root + hand-over) must be the model's -- also when the n-th comparison raises (then a
    prefix of it), and nothing may be sticky afterwards."""
    from BTrees.OOBTree import OOBTree, OOTreeSet, OOBucket, OOSet
    from harness import caseutil
    from harness.props.c14 import shape_term
    terms, meta = [], []
    terms2, meta2 = [], []
    nobs = 0
    for it in range(n):
        cls = rng.choice([OOBTree, OOTreeSet, OOBTree, OOTreeSet, OOBucket, OOSet])     # a stored Bucket / Set on its own: the one-node path
        setlike = cls in (OOTreeSet, OOSet)
        leafonly = cls in (OOBucket, OOSet)
        if leafonly:
            jar = Jar(Storage())
            t = cls()
            ks = sorted(rng.sample(range(0, 90, 2), rng.randint(1, 12)))
            for k in ks:
                if setlike:
                    t.add(PinKey(k))
                else:
                    t[PinKey(k)] = k
            jar.add(t)
            jar.commit()
            nodes, sh = [t], ("leaf", ks)
            for k in sorted(set(rng.sample(ks, min(2, len(ks))) + [rng.randrange(-1, 91) for _ in range(2)])):
                present = k in ks
                calls = [("get", 0, False, lambda key: key in t), ("minKey", 2, False, lambda key: t.minKey(key)), ("maxKey", 2, False, lambda key: t.maxKey(key)),
                         ("keys", 2, False, lambda key: t.keys(key))]
                if present:
                    calls.append(("del-existing", 1, False, (lambda key: t.remove(key)) if setlike else (lambda key: t.__delitem__(key))))
                else:
                    calls.append(("set-new", 1, False, (lambda key: t.add(key)) if setlike else (lambda key: t.__setitem__(key, k))))
                for name, d, sepcheck, fn_ in calls:
                    total = None
                    for failing in [None, 1, 2, 3]:
                        if failing is not None and (total is None or failing > total):
                            break
                        jar.abort()
                        jar.minimize()
                        obs = []

                        def hook0(stored):
                            obs.append((stored, [0] if t._p_state == STICKY else []))
                            if failing is not None and len(obs) == failing:
                                raise _Boom()
                        PinKey.hook = hook0
                        raised = False
                        try:
                            fn_(PinKey(k, True))
                        except _Boom:
                            raised = True
                        except (KeyError, ValueError):
                            pass
                        finally:
                            PinKey.hook = None
                        if failing is None:
                            total = len(obs)
                        nobs += len(obs)
                        if t._p_state == STICKY:
                            ctx.oracle_failure("C:%s:sticky-after:%s%s" % (cls.__name__, name, "-raising" if raised else ""),
                                               "%s keys %r stored: %s(%d)%s leaves it pinned (_p_state == 2)" % (cls.__name__, ks, name, k, (" with comparison #%d raising" % failing) if raised else ""),
                                               {"kind": cls.__name__, "keys": ks, "call": name, "key": k, "failing": failing})
                            t._p_deactivate()
                        terms.append("PINC %s %d %s %s %s [%s]" % (
                            shape_term(sh), d, "false", caseutil.z(k), "false" if raised else "true",
                            "; ".join("(%s, [%s])" % (caseutil.z(sk), "; ".join("%d%%nat" % i for i in pins)) for sk, pins in obs)))
                        meta.append((cls.__name__, (0, 0), ks, name, k, failing, obs))
            ctx.count(("g-pins-leaf", setlike, tuple(ks)))
            continue
        old = (cls.max_leaf_size, cls.max_internal_size)
        cls.max_leaf_size, cls.max_internal_size = rng.choice([(2, 2), (2, 3), (3, 2), (4, 3), (3, 4)])
        try:
            jar = Jar(Storage())
            t = cls()
            ks = sorted(rng.sample(range(0, 90, 2), rng.randint(5, 30)))
            order = ks[:]
            if rng.random() < 0.5:
                rng.shuffle(order)
            for k in order:
                if setlike:
                    t.add(PinKey(k))
                else:
                    t[PinKey(k)] = k
            for k in rng.sample(ks, rng.randint(0, len(ks) // 3)):      # stale separators, thinned nodes
                if setlike:
                    t.remove(PinKey(k))
                else:
                    del t[PinKey(k)]
                ks.remove(k)
            if len(t.__getstate__()) == 1 or f16_condition(None, t):
                continue
            jar.add(t)
            jar.commit()
            nodes, sh = _preorder(t)
            holders = {}                 # stored key -> preorder indexes of the nodes holding it (as a key or as a node key)
            cnt = [0]

            def _hold(x):
                me = cnt[0]
                cnt[0] += 1
                if x[0] == "leaf":
                    for kk in x[1]:
                        holders.setdefault(kk, []).append(me)
                else:
                    for j, (sep, c) in enumerate(x[1]):
                        if j:
                            holders.setdefault(sep, []).append(me)
                        _hold(c)
            _hold(sh)
            sizes_ = (cls.max_leaf_size, cls.max_internal_size)
            probes = sorted(set(rng.sample(ks, min(3, len(ks))) + [rng.randrange(-1, 91) for _ in range(3)]))
            for k in probes:
                present = k in ks
                calls = [("get", 0, False, lambda key: key in t),
                         ("get2", 0, False, (lambda key: t.has_key(key)) if setlike else (lambda key: t.get(key))),
                         ("minKey", 2, False, lambda key: t.minKey(key)),
                         ("maxKey", 2, False, lambda key: t.maxKey(key))]
                # writes: the comparisons all precede the modification (C14), and the transaction is aborted before the
                # next call, so the stored tree -- the one the model is given -- is what every call starts from
                if present:
                    calls.append(("set-existing", 1, False, (lambda key: t.add(key)) if setlike else (lambda key: t.__setitem__(key, k))))
                    calls.append(("del-existing", 1, True, (lambda key: t.remove(key)) if setlike else (lambda key: t.__delitem__(key))))
                else:
                    calls.append(("del-missing", 1, True, (lambda key: t.remove(key)) if setlike else (lambda key: t.__delitem__(key))))
                    calls.append(("set-new", 1, False, (lambda key: t.add(key)) if setlike else (lambda key: t.__setitem__(key, k))))
                for name, d, sepcheck, fn_ in calls:
                    total = None
                    for failing in [None] + list(range(1, 8)):
                        if failing is not None and (total is None or failing > total):
                            break
                        jar.abort()
                        jar.minimize()
                        obs = []

                        def hook(stored):
                            obs.append((stored, [i for i, o in enumerate(nodes) if o._p_state == STICKY]))
                            if failing is not None and len(obs) == failing:
                                raise _Boom()
                        PinKey.hook = hook
                        raised = False
                        try:
                            fn_(PinKey(k, True))
                        except _Boom:
                            raised = True
                        except (KeyError, ValueError):
                            pass
                        finally:
                            PinKey.hook = None
                        if failing is None:
                            total = len(obs)
                        nobs += len(obs)
                        stk = sticky_nodes(jar)
                        if stk:
                            ctx.oracle_failure("C:%s:sticky-after:%s%s" % (cls.__name__, name, "-raising" if raised else ""),
                                               "%s sizes=%r keys %r stored: %s(%d)%s leaves %d node(s) pinned (_p_state == 2)" % (
                                                   cls.__name__, sizes_, ks, name, k, (" with comparison #%d raising" % failing) if raised else "", len(stk)),
                                               {"kind": cls.__name__, "sizes": list(sizes_), "keys": ks, "call": name, "key": k, "failing": failing})
                            for o in stk:
                                o._p_deactivate()
                        for stored, pins in obs:       # direct statement: the node holding the compared key is pinned
                            if not any(i in pins for i in holders.get(stored, [])):
                                ctx.oracle_failure("C:%s:comparison-with-nothing-pinned:%s" % (cls.__name__, name),
                                                   "%s sizes=%r keys %r stored: %s(%d) compares with stored key %d while no node holding that key is pinned" % (
                                                       cls.__name__, sizes_, ks, name, k, stored),
                                                   {"kind": cls.__name__, "sizes": list(sizes_), "keys": ks, "call": name, "key": k})
                                break
                        terms.append("PINC %s %d %s %s %s [%s]" % (
                            shape_term(sh), d, "true" if sepcheck else "false", caseutil.z(k), "false" if raised else "true",
                            "; ".join("(%s, [%s])" % (caseutil.z(sk), "; ".join("%d%%nat" % i for i in pins)) for sk, pins in obs)))
                        meta.append((cls.__name__, sizes_, ks, name, k, failing, obs))
            # keys / values / items (min, max): one pin of the root over both range-end searches
            for _ in range(3):
                k1, k2 = rng.randrange(-1, 93), rng.randrange(-1, 93)
                meth = "keys" if setlike else rng.choice(["keys", "values", "items"])
                total = None
                for failing in [None] + list(range(1, 10)):
                    if failing is not None and (total is None or failing > total):
                        break
                    jar.abort()
                    jar.minimize()
                    obs = []

                    def hook2(stored):
                        obs.append((stored, [i for i, o in enumerate(nodes) if o._p_state == STICKY]))
                        if failing is not None and len(obs) == failing:
                            raise _Boom()
                    PinKey.hook = hook2
                    raised = False
                    try:
                        r = getattr(t, meth)(PinKey(k1, True), PinKey(k2, True))
                        del r
                    except _Boom:
                        raised = True
                    finally:
                        PinKey.hook = None
                    if failing is None:
                        total = len(obs)
                    nobs += len(obs)
                    stk = sticky_nodes(jar)
                    if stk:
                        ctx.oracle_failure("C:%s:sticky-after:%s-two-bounds%s" % (cls.__name__, meth, "-raising" if raised else ""),
                                           "%s sizes=%r keys %r stored: %s(%d, %d)%s leaves %d node(s) pinned (_p_state == 2)" % (
                                               cls.__name__, sizes_, ks, meth, k1, k2, (" with comparison #%d raising" % failing) if raised else "", len(stk)),
                                           {"kind": cls.__name__, "sizes": list(sizes_), "keys": ks, "call": meth, "bounds": [k1, k2], "failing": failing})
                        for o in stk:
                            o._p_deactivate()
                    terms2.append("PINC2 %s %s %s %s [%s]" % (
                        shape_term(sh), caseutil.z(k1), caseutil.z(k2), "false" if raised else "true",
                        "; ".join("(%s, [%s])" % (caseutil.z(sk), "; ".join("%d%%nat" % i for i in pins)) for sk, pins in obs)))
                    meta2.append((cls.__name__, sizes_, ks, meth, (k1, k2), failing, obs))
            ctx.count(("g-pins", setlike, sizes_, tuple(ks)))
        finally:
            cls.max_leaf_size, cls.max_internal_size = old
            PinKey.hook = None
    total, bad, errs = caseutil.eval_cases("c05pins", PIN_HDR, "pincase_ok", terms, shard=400, ctype="wpincase")
    for e in errs:
        ctx.corr_mismatch("c05 pin case file", e)
    for i in bad[:5]:
        m = meta[i]
        ctx.corr_mismatch("pin model (Model/Pins.v: which nodes are sticky at each comparison) vs the C extension",
                          {"kind": m[0], "sizes": list(m[1]), "keys": m[2], "call": m[3], "key": m[4], "failing_comparison": m[5],
                           "observed (stored key, pinned preorder indexes)": m[6]})
    total2, bad2, errs2 = caseutil.eval_cases("c05pins2", PIN_HDR, "pincase2_ok", terms2, shard=400, ctype="wpincase2")
    for e in errs2:
        ctx.corr_mismatch("c05 pin case file (two bounds)", e)
    for i in bad2[:5]:
        m = meta2[i]
        ctx.corr_mismatch("pin model (Model/Pins.v range2_tr: sticky nodes at each comparison of keys/values/items(min, max)) vs the C extension",
                          {"kind": m[0], "sizes": list(m[1]), "keys": m[2], "call": m[3], "bounds": list(m[4]), "failing_comparison": m[5],
                           "observed (stored key, pinned preorder indexes)": m[6]})
    ctx.cov["calls_compared_with_the_pin_model"] = total + total2
    ctx.cov["range_queries_with_two_bounds_compared_with_the_pin_model"] = total2
    ctx.cov["comparisons_observed_with_their_pinned_nodes"] = nobs


def run(ctx):
    import os
    rng = ctx.rng
    only = os.environ.get("VERIF_C05_PARTS")      # debugging aid: e.g. VERIF_C05_PARTS=g runs one part only
    parts = [("f", part_f, (40, 1500)), ("g", part_g, (40, 1200)), ("e", part_e, (60, 3000)), ("a", part_a, (600, 40000)),
             ("b", part_b, (300, 25000)), ("c", part_c, (400, 25000)), ("d", part_d, (300, 20000)), ("m", model_tie, (50, 1500))]
    for name, fn_, (q, th) in parts:
        if only is None or name in only:
            fn_(ctx, rng, ctx.n(q, th))
    ctx.traces = ctx.evaluations


class _Quiet:
    """C04's driver reports C04's findings under C04's signatures; here only the model comparison is wanted"""
    def __init__(self, ctx):
        self._ctx = ctx

    def oracle_failure(self, *a, **k):
        pass

    def __getattr__(self, n):
        return getattr(self._ctx, n)


def model_tie(ctx, rng, n):
    """The tie of C05's theorems (C05_sync_*: unchanged stored nodes equal their records, about Model/Persist.v)
    to the code, in C05's own run: stored containers driven through a data manager whose cache drops every object
    after a third of the commits; registered / read-current sets after every call, dump sequences and the
    reader's view after every commit must be the model's."""
    from harness import caseutil
    from harness.props import c04
    terms, meta = [], []
    q = _Quiet(ctx)
    for it in range(n):
        kind = rng.choice(["BTree", "BTree", "TreeSet"])
        fn = rng.choice(ALL_FAMS)
        ml, mi = rng.choice(c04.SIZES)
        u = rng.choice([8, 20, 40])
        mode = rng.choice({"O": ["none-int", "str", "int"]}.get(fn[0], [None, "extreme"]))
        calls = gen_history(rng, kind, u, rng.choice([10, 25, 50]), avoid0=(mode == "none-int"))
        calls = [c for c in calls if c[0] not in ("keys", "items")] + [("len",)]
        cuts = {i: "commit" for i in range(len(calls)) if rng.random() < 0.2}
        cuts[len(calls) - 1] = "commit"
        order = rng.choice(["lifo", "fifo", "reversed"])
        for impl in ("C", "Py"):
            steps, _nt = c04.run_one(q, rng, fn, kind, impl, mode, ml, mi, calls, cuts, order, it)
            if steps is None:
                continue
            vs = "true" if (impl == "C" and fn[1] in "IULQF" and kind == "BTree" and fn != "fs") else "false"
            terms.append("PC %d %d %s %s [%s]" % (ml, mi, vs, "true" if impl == "C" else "false", ";\n ".join(steps)))
            meta.append((fn, kind, impl, mode, ml, mi, order, calls))
    total, bad, errs = caseutil.eval_cases("c05", c04.HDR, "pcase_ok", terms, shard=30, ctype="wpcase")
    for e in errs:
        ctx.corr_mismatch("c05 case file", e)
    for i in bad[:5]:
        ctx.corr_mismatch("Persist model (registration, records, commit, reader) vs implementation with evicted caches", {"case": meta[i]})
    ctx.cov["histories_compared_with_the_persistence_model"] = total


def replay(ctx, data):
    print(data["replay"])
    return 0
