"""C07 -- leaf conflict resolution is an exact three-way merge or a refusal."""
import itertools

from harness import caseutil
from harness.families import fam

PROPS_FILE = "Props/C07.v"
MODEL_FILES = ["Model/Merge.v"]
RULE = ("triples (old, committed, new) of leaf states: exhaustive over a small key "
        "universe x 2 values (mappings) / key subsets (sets), plus random larger triples "
        "with successor-link variants and tree-level wrappers (None, embedded, 2-tuple, "
        "malformed); distinct by canonical triple; non-trivial = not all three equal")
ASSUMPTIONS = ["keys modelled as Z (comparison-only algorithm; finite key sets embed order-isomorphically)",
               "value equality of the family is decidable equality (ints, exactly representable floats, strings, bytes)"]

Z = caseutil.z


# ---------------------------------------------------------------- model terms (wire format)
def leaf_term(ls, setlike=None):
    items, nxt = ls
    return "(WL [%s] %s)" % ("; ".join("WI %s %s" % (Z(k), Z(v)) for k, v in items),
                             "WN" if nxt is None else "(WS %s)" % Z(nxt))


def res_term(r, setlike=None):
    if r[0] == "ok":
        return "(WOk %s)" % leaf_term(r[1])
    if r[0] == "conflict" and len(r[1]) == 4:
        return "(WConf %s %s %s %s)" % tuple(Z(x) for x in r[1])
    if r[0] == "TypeError":
        return "WTypeErr"
    return "WOther"  # anything else never equals the model's answer


def tstate_term(t, setlike=None):
    if t[0] == "none":
        return "WTNone"
    if t[0] == "emb":
        return "(WTEmb %s)" % leaf_term(t[1])
    if t[0] == "multi":
        return "WTMulti"
    return "WTBad"


# ---------------------------------------------------------------- implementation side
class Env:
    """One family x kind x impl: builds real states, calls _p_resolveConflict."""

    def __init__(self, famname, setlike, impl, keymode=None):
        self.f = fam(famname)
        self.setlike = setlike
        self.impl = impl
        self.km = self.f.keymap(keymode)
        self.vm = self.f.valmap() if not setlike else None
        self.leafcls = self.f.cls("Set" if setlike else "Bucket", impl)
        self.treecls = self.f.cls("TreeSet" if setlike else "BTree", impl)
        self.nexts = {1: self.leafcls(), 2: self.leafcls()}
        self.nid = {id(v): k for k, v in self.nexts.items()}

    def leafstate(self, ls, none_if_empty=False):
        items, nxt = ls
        if none_if_empty and not items and nxt is None:
            return None
        if self.setlike:
            flat = tuple(self.km.k(k) for k, _ in items)
        else:
            flat = tuple(x for k, v in items for x in (self.km.k(k), self.vm.v(v)))
        if nxt is None:
            return (flat,)
        return (flat, self.nexts[nxt])

    def back(self, state):
        flat = state[0]
        nxt = self.nid[id(state[1])] if len(state) == 2 else None
        if self.setlike:
            items = [(self.km.ik(k), 0) for k in flat]
        else:
            items = [(self.km.ik(flat[i]), self.vm.iv(flat[i + 1])) for i in range(0, len(flat), 2)]
        return (items, nxt)

    def canon(self, fn):
        from BTrees.Interfaces import BTreesConflictError
        try:
            return ("ok", fn())
        except BTreesConflictError as e:
            return ("conflict", tuple(e.args))
        except TypeError:
            return ("TypeError",)
        except Exception as e:  # noqa
            return ("other", type(e).__name__)

    def resolve_leaf(self, o, c, n, use_none):
        so, sc, sn = (self.leafstate(x, use_none) for x in (o, c, n))
        return self.canon(lambda: self.back(self.leafcls()._p_resolveConflict(so, sc, sn)))

    def tstate(self, t):
        if t[0] == "none":
            return None
        if t[0] == "emb":
            return ((self.leafstate(t[1]),),)
        if t[0] == "multi":
            b1, b2 = self.leafcls(), self.leafcls()
            return ((b1, self.km.k(5), b2), b1)
        return t[1]

    def resolve_tree(self, o, c, n):
        so, sc, sn = (self.tstate(x) for x in (o, c, n))

        def run():
            r = self.treecls()._p_resolveConflict(so, sc, sn)
            assert type(r) is tuple and len(r) == 1 and type(r[0]) is tuple and len(r[0]) == 1, r
            return self.back(r[0][0])
        return self.canon(run)


BAD_SHAPES = [5, "x", (), (1, 2, 3), ((1, 2),), (((),), 1, 2), ([],), ((5,),)]


# ---------------------------------------------------------------- oracle (property stated directly)
def oracle_expect(o, c, n, setlike):
    """('ok', merged) or ('conflict',) by the property's own words."""
    (io, xo), (ic, xc), (in_, xn) = o, c, n
    if xc != xo or xn != xo:
        return ("conflict",)
    if not ic or not in_:
        return ("conflict",)
    do, dc, dn = dict(io), dict(ic), dict(in_)
    keys = set(do) | set(dc) | set(dn)
    miss = object()

    def touched(d):
        return {k for k in keys if do.get(k, miss) != d.get(k, miss)}
    tc, tn = touched(dc), touched(dn)
    if tc & tn:
        return ("conflict",)
    for d in (dc, dn):
        if do and min(d) > min(do):       # removed what was then its smallest key
            return ("conflict",)
    res = dict(do)
    for k in tc:
        if k in dc:
            res[k] = dc[k]
        else:
            res.pop(k, None)
    for k in tn:
        if k in dn:
            res[k] = dn[k]
        else:
            res.pop(k, None)
    if not res:
        return ("conflict",)
    return ("ok", (sorted(res.items()), xo))


def check_oracle(ctx, envname, o, c, n, setlike, got):
    exp = oracle_expect(o, c, n, setlike)
    bad = None
    if exp[0] == "ok":
        if got[0] != "ok":
            bad = "refuses-mergeable"
        elif (list(got[1][0]), got[1][1]) != (list(exp[1][0]), exp[1][1]):
            bad = "wrong-merge"
    else:
        if got[0] == "ok":
            bad = "merges-conflicting"
        elif got[0] != "conflict":
            bad = "raises-" + str(got[-1])
    if bad:
        ctx.oracle_failure("merge:%s:%s" % (envname, bad),
                           "%s: %s on old=%r com=%r new=%r -> %r, property says %r" % (envname, bad, o, c, n, got, exp),
                           {"env": envname, "old": o, "com": c, "new": n, "setlike": setlike})


# ---------------------------------------------------------------- generators
def all_leaf_items(u, nvals, setlike):
    out = []
    if setlike:
        for mask in range(2 ** u):
            out.append([(k, 0) for k in range(u) if mask >> k & 1])
    else:
        for combo in itertools.product(range(nvals + 1), repeat=u):
            out.append([(k, v - 1) for k, v in enumerate(combo) if v])
    return out


def rand_items(rng, u, nvals, setlike):
    n = rng.randint(0, u)
    ks = sorted(rng.sample(range(u), n))
    return [(k, 0 if setlike else rng.randrange(nvals)) for k in ks]


def mutate(rng, items, u, nvals, setlike):
    d = dict(items)
    for _ in range(rng.choice([0, 1, 1, 2, 3])):
        k = rng.randrange(u)
        r = rng.random()
        if r < 0.4:
            d.pop(k, None)
        elif r < 0.8 or setlike:
            d.setdefault(k, 0 if setlike else rng.randrange(nvals))
        else:
            d[k] = rng.randrange(nvals)
    return sorted(d.items())


def run(ctx):
    rng = ctx.rng
    fams = ["II", "OO", "fs", "LF", "QQ", "OI"] if ctx.quick() else \
        ["II", "OO", "fs", "LF", "QQ", "OI", "IO", "UU", "LL", "OQ", "IF", "UO"]
    for setlike in (False, True):
        envs = {}
        for fn in fams:
            if setlike and fn not in ("II", "OO", "fs", "QQ", "LF", "UU", "LL"):
                continue
            for impl in ("C", "Py"):
                envs[(fn, impl)] = Env(fn, setlike, impl, "none-int" if fn[0] == "O" else None)
        # ---- leaf-level triples
        triples = []
        u = ctx.n(3, 4) if not setlike else ctx.n(4, 5)
        states = all_leaf_items(u, 2, setlike)
        for o in states:
            for c in states:
                for n in states:
                    triples.append(((o, None), (c, None), (n, None), False))
        nrand = ctx.n(3000, 60000)
        for _ in range(nrand):
            uu = rng.choice([4, 6, 10, 30])
            o = rand_items(rng, uu, 3, setlike)
            c = mutate(rng, o, uu, 3, setlike)
            n = mutate(rng, o, uu, 3, setlike)
            if rng.random() < 0.15:
                c = rand_items(rng, uu, 3, setlike)
            nx = [rng.choice([None, 1, 2])] * 3
            if rng.random() < 0.2:
                nx[rng.randrange(3)] = rng.choice([None, 1, 2])
            triples.append(((o, nx[0]), (c, nx[1]), (n, nx[2]), rng.random() < 0.3))
        terms = []
        for (o, c, n, use_none) in triples:
            res = {key: env.resolve_leaf(o, c, n, use_none) for key, env in envs.items()}
            base_c, base_p = res[("II", "C")], res[("II", "Py")]
            for key, r in res.items():
                if r != (base_c if key[1] == "C" else base_p):
                    ctx.corr_mismatch("families disagree", {"family": key, "old": o, "com": c, "new": n, "got": r, "II": base_c})
                check_oracle(ctx, "%s%s/%s" % (key[0], "Set" if setlike else "Bucket", key[1]), o, c, n, setlike, r)
            terms.append("WLeaf %s %s %s %s %s %s" % ("true" if setlike else "false", leaf_term(o, setlike), leaf_term(c, setlike), leaf_term(n, setlike),
                                                   res_term(base_c, setlike), res_term(base_p, setlike)))
            ctx.count(("leaf", setlike, repr((o, c, n))), nontrivial=not (o == c == n))
            if len(ctx.samples) < 4 and o != c and c != n and base_c[0] == "ok":
                ctx.sample({"setlike": setlike, "old": o, "com": c, "new": n, "C": base_c, "Py": base_p})
        hdr = ("From Coq Require Import ZArith List.\nFrom BT Require Import Model.CaseUtil Model.Merge.\n"
               "Import ListNotations.\nOpen Scope Z_scope.\n")
        total, bad, errs = caseutil.eval_cases("c07_%s" % ("s" if setlike else "m"), hdr,
                                               "wcase_ok", terms, shard=1500, ctype="wcase")
        ctx.traces += total
        for e in errs:
            ctx.corr_mismatch("c07 case file", e)
        for i in bad[:5]:
            ctx.corr_mismatch("merge model vs implementation", {"setlike": setlike, "triple": triples[i]})
        # ---- tree-level wrappers
        tterms, tcases = [], []
        for _ in range(ctx.n(600, 6000)):
            def tst():
                r = rng.random()
                if r < 0.12:
                    return ("none",)
                if r < 0.2:
                    return ("multi",)
                if r < 0.3:
                    return ("bad", rng.choice(BAD_SHAPES))
                return None
            uu = rng.choice([3, 5, 8])
            o = rand_items(rng, uu, 2, setlike)
            c = mutate(rng, o, uu, 2, setlike)
            n = mutate(rng, o, uu, 2, setlike)
            nx = rng.choice([None, None, 1])
            ts = [tst() or ("emb", (x, nx)) for x in (o, c, n)]
            res = {key: env.resolve_tree(*ts) for key, env in envs.items()}
            base_c, base_p = res[("II", "C")], res[("II", "Py")]
            for key, r in res.items():
                if r != (base_c if key[1] == "C" else base_p):
                    ctx.corr_mismatch("families disagree (tree level)", {"family": key, "states": ts, "got": r, "II": base_c})
                if any(t[0] == "multi" for t in ts) and not any(t[0] == "bad" for t in ts) and r[0] == "ok":
                    ctx.oracle_failure("merge:tree:%s:merges-multileaf" % key[1], "multi-leaf tree state resolved: %r" % (ts,), {"states": ts})
                if all(t[0] in ("emb", "none") for t in ts):
                    ls = [t[1] if t[0] == "emb" else ([], None) for t in ts]
                    check_oracle(ctx, "%s%s/%s" % (key[0], "TreeSet" if setlike else "BTree", key[1]), ls[0], ls[1], ls[2], setlike, r)
            tterms.append("WTree %s %s %s %s %s %s" % ("true" if setlike else "false", tstate_term(ts[0], setlike), tstate_term(ts[1], setlike), tstate_term(ts[2], setlike),
                                                   res_term(base_c, setlike), res_term(base_p, setlike)))
            tcases.append(ts)
            ctx.count(("tree", setlike, repr(ts)))
        total, bad, errs = caseutil.eval_cases("c07_t%s" % ("s" if setlike else "m"), hdr,
                                               "wcase_ok", tterms, shard=1500, ctype="wcase")
        ctx.traces += total
        for e in errs:
            ctx.corr_mismatch("c07 tree case file", e)
        for i in bad[:5]:
            ctx.corr_mismatch("tree_resolve model vs implementation", {"setlike": setlike, "states": tcases[i]})
        # ---- leaf level: one of the three states is not a leaf state at all -> TypeError, in both implementations
        nmal = 0
        for key, env in envs.items():
            good = env.leafstate(([(1, 1), (2, 2)], None))
            k1 = good[0][0]
            shapes = [("three-tuple", (1, 2, 3)), ("list-items", ([],)), ("int-items", (5,)),
                      ("non-tuple", 5), ("non-tuple", "x"), ("empty-tuple", ()),
                      ("odd-items", None if setlike else (tuple(good[0]) + (k1,),)),
                      ("items-and-two-more", (good[0], 5, 6))]
            for cls_, sh in shapes:
                if sh is None:
                    continue
                for pos in range(3):
                    st3 = [good, good, good]
                    st3[pos] = sh
                    r = env.canon(lambda: env.leafcls()._p_resolveConflict(*st3))
                    nmal += 1
                    ctx.count(("malformed-leaf", key, cls_, pos))
                    if r[0] != "TypeError":
                        ctx.oracle_failure("malformed-leaf-state:%s:%s:%s" % (key[1], cls_, r[0] if r[0] != "other" else r[1]),
                                           "%s%s/%s _p_resolveConflict with the %s state malformed (%s: %r): %r instead of TypeError" % (
                                               key[0], "Set" if setlike else "Bucket", key[1], ("original", "committed", "new")[pos], cls_, sh if cls_ != "odd-items" else "(k, v, k)", r[:2]),
                                           {"family": key[0], "impl": key[1], "setlike": setlike, "class": cls_, "position": pos})
        ctx.cov["malformed_leaf_state_calls"] = ctx.cov.get("malformed_leaf_state_calls", 0) + nmal
    ctx.cov["families"] = fams


def replay(ctx, data):
    r = data["replay"]
    if "old" in r:
        envname = r["env"]
        fn, rest = envname[:2], envname[2:]
        impl = rest.split("/")[1]
        env = Env(fn, r["setlike"], impl, "none-int" if fn[0] == "O" else None)
        o, c, n = [([tuple(x) for x in s[0]], s[1]) for s in (r["old"], r["com"], r["new"])]
        got = env.resolve_leaf(o, c, n, False)
        exp = oracle_expect(o, c, n, r["setlike"])
        print("implementation:", got, " property:", exp)
        return 0
    print(r)
    return 0
