"""C16 -- the C extension accounts for every reference and stays inside its memory."""
import gc
import pickle
import sys

from harness import caseutil
from harness.families import fam, sizes
from harness.minijar import Storage, Jar

PROPS_FILE = "Props/C16.v"
MODEL_FILES = ["Model/Refs.v"]
RULE = ("histories on object-keyed / object-valued C containers (OO, OI, IO, OL, LO; all four kinds; node sizes (2,2),(3,3),"
        "(1,2)) built from probe objects; after EVERY call the reference count of every probe key and value must exceed its "
        "baseline by exactly the number of slots that hold it (leaf key slots + node-key slots of index >= 1; value slots), "
        "temporaries passed as arguments must be back at their baseline; calls include error paths (KeyError, TypeError, a "
        "failing comparison), pop/popitem/setdefault, update, set algebra, conflict merge, range sequences and iterators kept "
        "alive, pickling, eviction through a data manager, clear and destruction; distinct by (kind, history); non-trivial = "
        "history with >= 2 leaves")
ASSUMPTIONS = ["sys.getrefcount deltas are exact because the harness holds each probe in one list and nothing else references it",
               "use of freed memory is observable only as a crash or a wrong count; reads outside allocated memory are not observable (ASan is not part of the quick run)"]
HDR = ("From Coq Require Import ZArith List.\nFrom BT Require Import Model.CaseUtil Model.Refs.\n"
       "Import ListNotations.\nOpen Scope Z_scope.\n")


class Boom(Exception):
    pass


class RK:
    """orderable probe key; equal probes are distinct objects"""
    __slots__ = ("n", "__weakref__")
    fail = [None, 0]

    def __init__(self, n):
        self.n = n

    def _tick(self):
        if RK.fail[0] is not None:
            RK.fail[1] += 1
            if RK.fail[1] == RK.fail[0]:
                RK.fail[0] = None
                raise Boom()

    def __lt__(self, o):
        self._tick(); return self.n < o.n

    def __eq__(self, o):
        if not isinstance(o, RK):
            return False
        self._tick(); return self.n == o.n

    def __hash__(self):
        return hash(self.n)

    def __reduce__(self):
        return (RK, (self.n,))


class RV:
    __slots__ = ("j", "__weakref__")

    def __init__(self, j):
        self.j = j

    def __lt__(self, o):          # byValue() sorts values
        return self.j < o.j

    def __eq__(self, o):
        return isinstance(o, RV) and self.j == o.j

    def __hash__(self):
        return hash(self.j)

    def __reduce__(self):
        return (RV, (self.j,))


def slots(t, setlike, objkeys, objvals):
    """{id(obj): number of slots of the container holding obj}, from the state (keys: leaf slots + node keys)"""
    counts = {}

    def add(o):
        counts[id(o)] = counts.get(id(o), 0) + 1

    def leaf(ls):
        items = ls[0]
        if setlike:
            if objkeys:
                for k in items:
                    add(k)
        else:
            for i in range(0, len(items), 2):
                if objkeys:
                    add(items[i])
                if objvals:
                    add(items[i + 1])

    def rec(node):
        st = node.__getstate__()
        if st is None:
            return
        if len(st) == 1:
            leaf(st[0][0]); return
        data = st[0]
        for i in range(0, len(data), 2):
            if i and objkeys:
                add(data[i - 1])
            c = data[i]
            if type(c) is type(node):
                rec(c)
            else:
                leaf(c.__getstate__())
    if hasattr(t, "_firstbucket"):
        rec(t)
    else:
        leaf(t.__getstate__())
    return counts


def run(ctx):
    rng = ctx.rng
    nhist = ctx.n(200, 5000)
    opcount = {}
    for it in range(nhist):
        fn = rng.choice(["OO", "OO", "OI", "IO", "OL", "LO"])
        kind = rng.choice(["BTree", "BTree", "TreeSet", "Bucket", "Set"])
        f = fam(fn)
        objkeys, objvals = f.kk == "O", f.vk == "O"
        setlike = kind in ("TreeSet", "Set")
        if setlike and not objkeys:
            continue
        cls = f.cls(kind, "C")
        ml, mi = rng.choice([(2, 2), (3, 3), (1, 2), (4, 4)])
        u = rng.choice([6, 12, 24])
        # probes: one object per model key / value, held only here
        pk = [RK(i) if objkeys else i for i in range(u)]
        pv = [RV(j) if objvals else j for j in range(4)]
        probes = ([k for k in pk] if objkeys else []) + ([v for v in pv] if objvals else [])
        base = {id(o): sys.getrefcount(o) for o in probes}
        multi = False
        ctx.progress({"scenario": "random history with per-call reference accounting", "family": fn, "kind": kind, "sizes": [ml, mi], "history_number": it})
        with sizes([f.cls("BTree", "C"), f.cls("TreeSet", "C")], ml, mi):
            t = cls()
            alive = []            # iterators / sequences kept alive on purpose
            nops = rng.choice([10, 30, 60])
            bad = None
            for step in range(nops):
                i = rng.randrange(u)
                key = pk[i]
                tmp = RK(i) if objkeys else i            # an equal but distinct object, used for lookups / deletes
                val = pv[rng.randrange(4)]
                op = rng.choice(["set", "set", "set", "del", "pop", "popd", "popitem", "setdefault", "get", "in", "update", "keyerror",
                                 "typeerror", "boom", "range", "iter", "union", "merge", "pickle", "clear", "minmax", "spop"])
                opcount[op] = opcount.get(op, 0) + 1
                tmpbase = sys.getrefcount(tmp) if objkeys else None
                try:
                    if op == "set":
                        t.add(key) if setlike else t.__setitem__(key, val)
                    elif op == "del":
                        (t.remove(tmp) if setlike else t.__delitem__(tmp))
                    elif op == "pop":
                        (t.discard(tmp) if setlike else t.pop(tmp))
                    elif op == "popd":
                        (t.discard(tmp) if setlike else t.pop(tmp, None))
                    elif op == "popitem":
                        (t.pop() if setlike else t.popitem())
                    elif op == "spop":
                        if setlike:
                            t.pop()
                    elif op == "setdefault":
                        if not setlike:
                            t.setdefault(key, val)
                    elif op == "get":
                        (tmp in t) if setlike else t.get(tmp)
                    elif op == "in":
                        tmp in t
                    elif op == "update":
                        ks = [pk[rng.randrange(u)] for _ in range(3)]
                        t.update(ks if setlike else [(k, val) for k in ks])
                    elif op == "keyerror":
                        (t.remove(RK(-5) if objkeys else -5) if setlike else t.__delitem__(RK(-5) if objkeys else -5))
                    elif op == "typeerror":
                        if objkeys:
                            (t.add(object()) if setlike else t.__setitem__(object(), val))
                        elif not objvals and not setlike:
                            t[key] = object()
                    elif op == "boom" and objkeys and len(t) > 0:
                        RK.fail = [rng.randint(1, 4), 0]
                        try:
                            which = rng.choice(["set", "del", "get"])
                            if which == "set":
                                t.add(key) if setlike else t.__setitem__(key, val)
                            elif which == "del":
                                (t.remove(tmp) if setlike else t.__delitem__(tmp))
                            else:
                                tmp in t
                        finally:
                            RK.fail = [None, 0]
                    elif op == "range":
                        s = t.keys(tmp) if rng.random() < 0.5 or setlike else t.items(tmp, None)
                        if rng.random() < 0.5 and kind in ("BTree", "TreeSet"):
                            alive.append(s)          # a lazy sequence; leaf containers return plain lists
                        list(s)
                    elif op == "iter":
                        itr = iter(t)
                        try:
                            next(itr)
                        except StopIteration:
                            pass
                        if rng.random() < 0.5:
                            alive.append(itr)
                    elif op == "union" and objkeys:
                        other = f.cls("Set", "C")([pk[rng.randrange(u)] for _ in range(3)])
                        r = f.func(rng.choice(["union", "intersection", "difference"]), "C")(t, other)
                        del r, other
                    elif op == "merge" and kind in ("Bucket", "Set") and objkeys and len(t) > 0:
                        s0 = t.__getstate__()
                        b2 = cls(); b2.__setstate__(s0)
                        extra1, extra2 = RK(u + 1), RK(u + 2)
                        (b2.add(extra1) if setlike else b2.__setitem__(extra1, val))
                        s1 = b2.__getstate__()
                        b3 = cls(); b3.__setstate__(s0)
                        (b3.add(extra2) if setlike else b3.__setitem__(extra2, val))
                        s2 = b3.__getstate__()
                        try:
                            r = cls()._p_resolveConflict(s0, s1, s2)
                        except ValueError:
                            r = None
                        del r, s0, s1, s2, b2, b3, extra1, extra2
                    elif op == "pickle":
                        d = pickle.dumps(t)
                        o = pickle.loads(d)
                        del o, d
                    elif op == "clear":
                        if rng.random() < 0.3:
                            t.clear()
                    elif op == "minmax" and len(t) > 0 and objkeys:
                        t.minKey(tmp); t.maxKey(tmp)
                except (KeyError, TypeError, ValueError, Boom):
                    pass
                if rng.random() < 0.3:
                    alive.clear()
                key = val = ks = s = itr = None          # the harness' own references
                if alive:
                    continue        # a live sequence / iterator keeps its (possibly unlinked) leaves and their keys alive
                # ---- the accounting
                gc.collect() if step % 16 == 0 else None
                want = slots(t, setlike, objkeys, objvals)
                for o in probes:
                    delta = sys.getrefcount(o) - base[id(o)]
                    exp = want.get(id(o), 0)
                    # sequences / iterators kept alive may hold no keys (they hold buckets), so no allowance
                    if delta != exp:
                        bad = ("leak" if delta > exp else "missing-reference", op, delta, exp, "key" if isinstance(o, RK) else "value")
                        break
                if not bad and objkeys and sys.getrefcount(tmp) != tmpbase + want.get(id(tmp), 0):
                    bad = ("temporary-leak" if sys.getrefcount(tmp) > tmpbase else "temporary-underflow", op, sys.getrefcount(tmp) - tmpbase, want.get(id(tmp), 0), "argument")
                if bad:
                    ctx.oracle_failure("C:%s:%s:%s:%s" % (kind, bad[1], bad[0], bad[4]),
                                       "%s%s sizes=(%d,%d): after %s the %s's reference count is baseline%+d, %d slot(s) hold it" % (fn, kind, ml, mi, bad[1], bad[4], bad[2], bad[3]),
                                       {"family": fn, "kind": kind, "sizes": [ml, mi], "op": bad[1], "step": step})
                    break
                if hasattr(t, "_firstbucket") and t._firstbucket is not None and t._firstbucket._next is not None:
                    multi = True
            if not bad:
                alive.clear()
                # ---- eviction through a data manager releases everything, destruction too
                if rng.random() < 0.5 and len(t) > 0:
                    st = Storage(); jar = Jar(st); jar.add(t); jar.commit(); jar.minimize()
                    gc.collect()
                    for o in probes:
                        if sys.getrefcount(o) != base[id(o)]:
                            bad = ("after-eviction", sys.getrefcount(o) - base[id(o)])
                            break
                    del jar, st
                del t
                gc.collect()
                for o in probes:
                    if sys.getrefcount(o) != base[id(o)] and not bad:
                        bad = ("after-destruction", sys.getrefcount(o) - base[id(o)])
                if bad:
                    ctx.oracle_failure("C:%s:%s" % (kind, bad[0]), "%s%s: %s: a probe's reference count is baseline%+d" % (fn, kind, bad[0], bad[1]),
                                       {"family": fn, "kind": kind, "sizes": [ml, mi]})
        ctx.count((fn, kind, ml, mi, it), nontrivial=multi or kind in ("Bucket", "Set"))
    extra_scenarios(ctx, rng)
    # ---- correspondence with Model/Refs.v: leaf histories, final reference-count deltas
    terms = []
    for it in range(ctx.n(300, 6000)):
        setlike = rng.random() < 0.4
        f = fam("OO")
        b = f.cls("Set" if setlike else "Bucket", "C")()
        keys = [RK(i) for i in range(6)]
        vals = [RV(j) for j in range(4)]
        probes = keys + vals
        base = [sys.getrefcount(probes[ix]) for ix in range(len(probes))]
        held = []
        ops = []
        for step in range(rng.randint(1, 18)):
            r = rng.random()
            i, j = rng.randrange(6), rng.randrange(4)
            if r < 0.45:
                if setlike:
                    b.add(keys[i]); ops.append("WSet %d %d 99 true" % (i, 10 + i))
                elif rng.random() < 0.7:
                    b[keys[i]] = vals[j]; ops.append("WSet %d %d %d false" % (i, 10 + i, 20 + j))
                else:
                    b.setdefault(keys[i], vals[j]); ops.append("WSet %d %d %d true" % (i, 10 + i, 20 + j))
            elif r < 0.65:
                try:
                    (b.remove(RK(i)) if setlike else b.__delitem__(RK(i)))
                except KeyError:
                    pass
                ops.append("WDel %d" % i)
            elif r < 0.72:
                b.clear(); ops.append("WClear")
            elif r < 0.82 and setlike:
                try:
                    held.append(b.pop())
                except KeyError:
                    pass
                ops.append("WPop")
            elif r < 0.9:
                try:
                    held.append(b.minKey())
                except ValueError:
                    pass
                ops.append("WMinKey")
            elif held:
                x = held.pop(rng.randrange(len(held)))
                ops.append("WRelease %d" % (10 + x.n))
                del x
        i = j = None
        # references the caller still holds (list `held`) are part of the model's count
        deltas = [sys.getrefcount(probes[ix]) - base[ix] for ix in range(len(probes))]
        if setlike:
            pr, dl = list(range(10, 16)), deltas[:6]
        else:
            pr, dl = list(range(10, 16)) + list(range(20, 24)), deltas
        terms.append("RCase [%s] [%s] [%s]" % ("; ".join(ops), "; ".join("%d%%nat" % x for x in pr), "; ".join(caseutil.z(d) for d in dl)))
        ctx.count(("refs", setlike, tuple(ops)))
        del b, held
    total, badi, errs = caseutil.eval_cases("c16", HDR, "refcase_ok", terms, shard=500, ctype="wrcase")
    for e in errs:
        ctx.corr_mismatch("c16 case file", e)
    for i in badi[:5]:
        ctx.corr_mismatch("Refs model vs implementation (reference-count deltas)", {"case": terms[i][:500]})
    ctx.cov["refs_model_cases"] = total
    ctx.cov["operations"] = opcount
    ctx.traces = ctx.evaluations
    ctx.sample({"note": "per-call comparison of sys.getrefcount deltas with the number of slots holding each probe"})


def all_nodes(t):
    """every persistent node object of a tree (root, interior nodes, leaves)"""
    out = [t]
    st = t.__getstate__()
    if st is None:
        return out
    if len(st) == 1:
        return out + [t._firstbucket]
    for c in st[0][0::2]:
        out += all_nodes(c) if type(c) is type(t) else [c]
    return out


def extra_scenarios(ctx, rng):
    """(A) an iterator whose current entry is deleted under it; (B) conflict merges that are refused, every reason;
    (C) read-only range queries must not change the reference count of any node"""
    f = fam("OO")
    nA = nB = nC = 0
    # ---------------- (A)
    for it in range(ctx.n(120, 3000)):
        kind = rng.choice(["BTree", "TreeSet", "Bucket", "Set"])
        setlike = kind in ("TreeSet", "Set")
        cls = f.cls(kind, "C")
        n = rng.randint(1, 9)
        pk = [RK(i) for i in range(n)]
        pv = [RV(i % 3) for i in range(n)]
        base = [sys.getrefcount(o) for o in pk + pv]
        with sizes([f.cls("BTree", "C"), f.cls("TreeSet", "C")], *rng.choice([(4, 4), (3, 3), (2, 3)])):
            t = cls()
            for k, v in zip(pk, pv):
                t.add(k) if setlike else t.__setitem__(k, v)
            itr = rng.choice([iter, (lambda x: x.iterkeys()) if not setlike else iter, (lambda x: x.iteritems()) if not setlike else iter,
                              (lambda x: x.itervalues()) if not setlike else iter])(t)
            consumed = rng.randint(1, n)
            ctx.progress({"scenario": "iterate-then-delete", "kind": kind, "entries": n, "iterator_steps": consumed})
            got = None
            try:
                for _ in range(consumed):
                    got = next(itr)
            except StopIteration:
                pass
                        # delete entries around the cursor: the ones just passed, the one it is parked on, the one after
            victims = [vi for vi in (consumed - 2, consumed - 1, consumed, consumed + 1) if 0 <= vi < n and rng.random() < 0.5] or [min(consumed, n - 1)]
            for vi in victims:
                try:
                    t.remove(RK(vi)) if setlike else t.__delitem__(RK(vi))
                except KeyError:
                    pass
            bad = None
            try:
                x = next(itr)
                live_keys = {k.n for k in t}
                live_vals = set() if setlike else {id(v) for v in t.values()}
                xs = x if isinstance(x, tuple) else (x,)
                for y in xs:
                    if isinstance(y, RK) and y.n not in live_keys:
                        bad = "iterator-yielded-a-removed-key"
                    if isinstance(y, RV) and id(y) not in live_vals:
                        bad = "iterator-yielded-a-removed-value"
                del x, xs
            except (StopIteration, RuntimeError):
                pass
            got = itr = y = k = v = None
            want = slots(t, setlike, True, True)
            now = [sys.getrefcount(o) for o in pk + pv]          # measured exactly like 'base'
            exp = [want.get(id(o), 0) for o in pk + pv]
            for a, b, w in zip(now, base, exp):
                if bad is None and a - b != w:
                    bad = "refcount-off-by-%+d" % (a - b - w)
            nA += 1
            ctx.count(("iterdel", kind, n, consumed, tuple(victims)))
            if bad:
                ctx.oracle_failure("C:%s:iterate-then-delete:%s" % (kind, bad.split("-by-")[0]), "OO%s with %d entries: %d iterator steps, then the entries %r are deleted, then next(): %s" % (kind, n, consumed, victims, bad),
                                   {"kind": kind, "n": n, "consumed": consumed, "victims": victims})
            del t
    # ---------------- (B)
    for kind in ("Bucket", "Set"):
        setlike = kind == "Set"
        cls = f.cls(kind, "C")
        edits = [("del", 1), ("del", 2), ("del", 3), ("chg", 1), ("chg", 2), ("chg", 3), ("ins", 0), ("ins", 4), ("ins", 5), ("nop", 0), ("delall", 0)]
        if setlike:
            edits = [e for e in edits if e[0] != "chg"]
        for e1 in edits:
            for e2 in edits:
                pk = [RK(i) for i in range(6)]
                pv = [RV(i) for i in range(8)]
                nxt = cls()
                nxt.add(pk[5]) if setlike else nxt.__setitem__(pk[5], pv[7])
                base = [sys.getrefcount(o) for o in pk + pv]

                def state(edit):
                    b = cls()
                    for i in (1, 2, 3):
                        b.add(pk[i]) if setlike else b.__setitem__(pk[i], pv[i])
                    if edit[0] == "del":
                        b.remove(pk[edit[1]]) if setlike else b.__delitem__(pk[edit[1]])
                    elif edit[0] == "chg":
                        b[pk[edit[1]]] = pv[edit[1] + 4]
                    elif edit[0] == "ins":
                        b.add(pk[edit[1]]) if setlike else b.__setitem__(pk[edit[1]], pv[edit[1]])
                    elif edit[0] == "delall":
                        b.clear()
                    return b.__getstate__()
                s0, s1, s2 = state(("nop", 0)), state(e1), state(e2)
                # ... and the same three states of a leaf that HAS a successor: the merged state refers to it too, and the
                # successor bucket must end with the references it had (one too few frees it while the tree links it)
                base_n = sys.getrefcount(nxt)
                outcome = "merged"
                try:
                    r = cls()._p_resolveConflict(s0, s1, s2)
                    del r
                except Exception as e:  # noqa
                    outcome = type(e).__name__
                    del e
                t0, t1, t2 = s0[:1] + (nxt,), s1[:1] + (nxt,), s2[:1] + (nxt,)
                try:
                    r = cls()._p_resolveConflict(t0, t1, t2)
                    del r
                except Exception as e:  # noqa
                    del e
                del s0, s1, s2, t0, t1, t2
                gc.collect()
                now = [sys.getrefcount(o) for o in pk + pv]          # measured exactly like 'base'
                off = [a - b for a, b in zip(now, base)]
                off_n = sys.getrefcount(nxt) - base_n
                nB += 1
                ctx.count(("mergeref", kind, e1, e2))
                if off_n:
                    ctx.oracle_failure("C:%s:conflict-merge:successor-refcount" % kind, "OO%s: resolving original [1,2,3] against %r and %r (%s) on a leaf that has a successor: the successor bucket ends with %+d reference(s)" % (
                        kind, e1, e2, outcome, off_n), {"kind": kind, "e1": e1, "e2": e2})
                if any(off):
                    ctx.oracle_failure("C:%s:conflict-merge:leak" % kind, "OO%s: resolving original [1,2,3] against %r and %r (%s): %d probe object(s) keep %r extra reference(s) after everything was dropped" % (
                        kind, e1, e2, outcome, sum(1 for x in off if x), sorted(set(x for x in off if x))), {"kind": kind, "e1": e1, "e2": e2})
    # ---------------- (C)
    for it in range(ctx.n(60, 1500)):
        kind = rng.choice(["BTree", "TreeSet"])
        setlike = kind == "TreeSet"
        cls = f.cls(kind, "C")
        ml, mi = rng.choice([(2, 2), (2, 3), (3, 3), (1, 2)])
        with sizes([f.cls("BTree", "C"), f.cls("TreeSet", "C")], ml, mi):
            t = cls()
            keys = rng.sample(range(0, 60, 2), rng.randint(2, 14))
            for k in keys:
                t.add(RK(k)) if setlike else t.__setitem__(RK(k), k)
            for k in rng.sample(keys, rng.randint(0, len(keys) // 2)):
                t.remove(RK(k)) if setlike else t.__delitem__(RK(k))
            if len(t) == 0:
                continue
            nodes = all_nodes(t)
            present = sorted(k.n for k in t)
            ctx.progress({"scenario": "read-only queries (all bound pairs x flags) with node reference counts audited", "kind": kind, "sizes": [ml, mi], "inserted": keys, "present": present})
            base = [sys.getrefcount(o) for o in nodes]
            bounds = [None, present[0], present[-1], present[len(present) // 2], present[0] - 1, present[-1] + 1, present[-1] - 1]
            bad = None
            for lo in bounds:
                for hi in bounds:
                    for exmin in (False, True):
                        for exmax in (False, True):
                            try:
                                r = t.keys(None if lo is None else RK(lo), None if hi is None else RK(hi), exmin, exmax)
                                [x for x in r]
                                len(r)
                                del r
                            except Exception as e:  # noqa
                                del e
                            nC += 1
                            now = [sys.getrefcount(o) for o in nodes]
                            if now != base and bad is None:
                                d = [(type(o).__name__, a - b) for o, a, b in zip(nodes, now, base) if a != b]
                                bad = "keys(%r, %r, excludemin=%r, excludemax=%r) changed node reference counts: %r" % (lo, hi, exmin, exmax, d[:4])
            for q in (lambda: t.minKey(), lambda: t.maxKey(), lambda: t.minKey(RK(present[0] + 1)), lambda: t.maxKey(RK(present[-1] - 1)), lambda: [x for x in t], lambda: len(t)):
                try:
                    q()
                except Exception as e:  # noqa
                    del e
                now = [sys.getrefcount(o) for o in nodes]
                if now != base and bad is None:
                    bad = "a read-only query changed node reference counts"
            ctx.count(("noderef", kind, ml, mi, tuple(keys)))
            if bad:
                ctx.oracle_failure("C:%s:read-only-query:node-refcount-changed" % kind, "OO%s sizes=(%d,%d) keys %r: %s" % (kind, ml, mi, present, bad), {"kind": kind, "sizes": [ml, mi], "keys": present})
            del nodes, t
    # ---------------- (D) the operators | & - and isdisjoint: the operand CONTAINERS and the elements of an
    #                      iterable operand are user objects too
    nD = 0
    for kind in ("Set", "TreeSet", "Bucket", "BTree"):
        import operator
        cls = f.cls(kind, "C")
        setlike = kind in ("Set", "TreeSet")
        for opname, op in (("|", operator.or_), ("&", operator.and_), ("-", operator.sub)):
            pk = [RK(i) for i in range(8)]
            a = cls(pk[:5]) if setlike else cls([(k, 1) for k in pk[:5]])
            b = f.cls("Set", "C")(pk[3:])
            base = [sys.getrefcount(a), sys.getrefcount(b)] + [sys.getrefcount(o) for o in pk]
            for _ in range(3):
                r = op(a, b)
                del r
            now = [sys.getrefcount(a), sys.getrefcount(b)] + [sys.getrefcount(o) for o in pk]
            nD += 1
            ctx.count(("operator", kind, opname))
            if now != base:
                ctx.oracle_failure("C:%s:operator:leak" % kind, "OO%s %s OOSet, three times, results dropped: reference counts of (left operand, right operand, keys...) moved by %r" % (
                    kind, opname, [x - y for x, y in zip(now, base)]), {"kind": kind, "op": opname})
            del a, b
        if setlike:
            for failing in range(1, 8):
                pk = [RK(i) for i in range(6)]
                a = cls(pk[:4])
                other = [RK(10 + i) for i in range(4)]
                base = [sys.getrefcount(o) for o in pk + other]
                RK.fail = [failing, 0]
                try:
                    a.isdisjoint(other)
                except Boom:
                    pass
                finally:
                    RK.fail = [None, 0]
                now = [sys.getrefcount(o) for o in pk + other]
                nD += 1
                ctx.count(("isdisjoint-failing", kind, failing))
                if now != base:
                    ctx.oracle_failure("C:%s:isdisjoint:leak-on-failing-comparison" % kind, "OO%s.isdisjoint(list) with comparison #%d raising: reference counts moved by %r" % (
                        kind, failing, [x - y for x, y in zip(now, base)]), {"kind": kind, "failing": failing})
                del a
    # ---------------- (E) the in-place operators and update() with a list operand whose elements' comparisons fail
    #                      part-way: every element / key keeps exactly one reference per slot that holds it
    nE = 0
    for kind in ("Set", "TreeSet"):
        cls = f.cls(kind, "C")
        for opname in ("isub", "ior", "iand", "ixor", "update"):
            for failing in range(0, 9):
                pk = [RK(i) for i in range(0, 12, 2)]
                other = [RK(j) for j in (4, 5, 0, 11, 8, 7)]
                with sizes([f.cls("BTree", "C"), f.cls("TreeSet", "C")], 2, 2):
                    a = cls(pk)
                    objs = pk + other
                    base = [sys.getrefcount(objs[ix]) for ix in range(len(objs))]
                    w0 = slots(a, True, True, False)
                    held0 = [w0.get(id(objs[ix]), 0) for ix in range(len(objs))]
                    RK.fail = [failing, 0] if failing else [None, 0]
                    try:
                        if opname == "isub":
                            a -= other
                        elif opname == "ior":
                            a |= other
                        elif opname == "iand":
                            a &= other
                        elif opname == "ixor":
                            a ^= other
                        else:
                            a.update(other)
                    except Boom:
                        pass
                    finally:
                        RK.fail = [None, 0]
                    w1 = slots(a, True, True, False)
                    held1 = [w1.get(id(objs[ix]), 0) for ix in range(len(objs))]
                    w0 = w1 = None
                    now = [sys.getrefcount(objs[ix]) for ix in range(len(objs))]
                    nE += 1
                    ctx.count(("inplace-failing", kind, opname, failing))
                    moved = [(n - b) - (h1 - h0) for n, b, h0, h1 in zip(now, base, held0, held1)]
                    if any(moved):
                        ctx.oracle_failure("C:%s:%s:refcount-after-failing-comparison" % (kind, opname),
                                           "OO%s %s list with comparison #%d raising: reference counts differ from the slots holding each object by %r" % (kind, opname, failing, moved),
                                           {"kind": kind, "op": opname, "failing": failing})
                    del a
    ctx.cov["inplace_operator_cases_with_failing_comparisons"] = nE
    # byValue(): the (value, key) pairs it returns are the only new references
    for kind in ("Bucket", "BTree"):
        cls = f.cls(kind, "C")
        pk = [RK(i) for i in range(6)]
        pv = [RV(i % 3) for i in range(6)]
        with sizes([f.cls("BTree", "C"), f.cls("TreeSet", "C")], 2, 2):
            t = cls()
            for k, v in zip(pk, pv):
                t[k] = v
            k = v = None
            base = [sys.getrefcount(o) for o in pk + pv]
            for _ in range(3):
                try:
                    r = t.byValue(RV(1))
                    del r
                except Exception as e:  # noqa
                    del e
            now = [sys.getrefcount(o) for o in pk + pv]
            nD += 1
            ctx.count(("byValue", kind))
            if now != base:
                ctx.oracle_failure("C:%s:byValue:leak" % kind, "OO%s.byValue(min) three times, results dropped: reference counts of (keys..., values...) moved by %r" % (
                    kind, [x - y for x, y in zip(now, base)]), {"kind": kind})
            del t
    # plain iterables with repeated elements as operands: every element keeps exactly its references
    for fname in ("union", "intersection", "difference"):
        fn_ = f.func(fname, "C")
        for pattern in ([1, 1, 2, 3], [3, 1, 1, 2, 2, 0], [2, 2], [0, 1, 2, 3], [3, 3, 3, 1, 4, 4, 5], [5, 4, 4, 4, 6]):
            for kind in ("Set", "Bucket", "TreeSet", "BTree"):
                pk = [RK(i) for i in range(8)]
                cls = f.cls(kind, "C")
                a = cls([pk[7]]) if kind in ("Set", "TreeSet") else cls([(pk[7], 1)])
                lst = [pk[i] for i in pattern]
                base = [sys.getrefcount(o) for o in pk]
                for order in (0, 1):
                    try:
                        r = fn_(a, lst) if order == 0 else fn_(lst, a)
                        del r
                    except TypeError:
                        pass
                now = [sys.getrefcount(o) for o in pk]
                nD += 1
                ctx.count(("iterable-dups", fname, kind, tuple(pattern)))
                if now != base:
                    ctx.oracle_failure("C:%s:%s:iterable-with-repeats:refcount" % (kind, fname), "%s(OO%s, list) and back with the list pattern %r: element reference counts moved by %r" % (
                        fname, kind, pattern, [x - y for x, y in zip(now, base)]), {"fn": fname, "kind": kind, "pattern": pattern})
                del a, lst
    ctx.cov["operator_and_isdisjoint_cases"] = nD
    ctx.cov["iterate_then_delete_cases"] = nA
    ctx.cov["refused_and_successful_merges_audited"] = nB
    ctx.cov["read_only_queries_audited_for_node_refcounts"] = nC


def replay(ctx, data):
    print(data["replay"])
    return 0
