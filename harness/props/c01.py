"""C01 -- containers behave as a sorted map / sorted set."""
from harness import caseutil
from harness.families import ALL_FAMS
from harness.treelib import (TreeEnv, HDR, RefMap, call_term, out_term, shape_term, walk_invariants)

PROPS_FILE = "Props/C01.v"
MODEL_FILES = ["Model/RTree.v", "Model/TreeRun.v"]
RULE = ("call histories (fill / thin / refill phases with reads interleaved, length 10..150) over key universes "
        "sized to reach 3-4 levels at node sizes (1,2),(2,2),(2,3),(3,2),(3,3),(4,4) and the family default; "
        "each history runs on a random family x kind x both implementations; distinct by (kind, sizes, "
        "history); non-trivial = the final tree has height >= 2 or the history removed a leaf")
ASSUMPTIONS = ["keys modelled as Z; family keys/values mapped order-isomorphically / injectively",
               "has_key is compared by truth value (C returns the depth, documented as 'a true value')",
               "the return value of update() is not compared (undocumented)"]
SIZES = [(1, 2), (2, 2), (2, 3), (3, 2), (3, 3), (4, 4), (6, 3)]


def gen_history(rng, kind, u, length, avoid0=False, selfops=False):
    setlike = kind in ("TreeSet", "Set")
    calls = []
    phase_len = max(3, length // rng.choice([2, 3, 4]))
    phase = "fill"
    reads = ["get", "item", "in", "has_key", "len", "bool", "keys"] + ([] if setlike else ["items", "getd"])
    if kind == "Set":
        reads = ["in", "has_key", "len", "bool", "keys"]
    if kind == "TreeSet":
        reads = ["in", "has_key", "len", "bool", "keys"]
    for i in range(length):
        if i and i % phase_len == 0:
            phase = rng.choice(["fill", "thin", "thin", "mixed"])
        k = rng.randrange(u)
        v = rng.randrange(4)
        r = rng.random()
        if r < 0.12:
            n = rng.choice(reads)
            calls.append((n, k, v) if n == "getd" else ((n, k) if n in ("get", "item", "in", "has_key") else (n,)))
            continue
        if r < 0.14:
            calls.append(("clear",)) if rng.random() < 0.3 else calls.append(("len",))
            continue
        ins = phase == "fill" or (phase == "mixed" and rng.random() < 0.5)
        if setlike:
            if r < 0.2:
                lst = [rng.randrange(1 if avoid0 else 0, u) for _ in range(rng.randint(0, 6))]
                calls.append((rng.choice(["supdate", "ior", "iand", "isub", "ixor", "isdisjoint"]), lst))
                if selfops and calls[-1][0] in ("ior", "iand", "isub", "ixor") and rng.random() < 0.15:
                    calls[-1] = (calls[-1][0], "self")      # the container itself as operand; resolved by resolve_self()
            elif ins:
                calls.append((rng.choice(["add", "add", "add", "supdate"]), k) if rng.random() < 0.9 else ("supdate", [k, (k + 1) % u]))
                if calls[-1][0] == "supdate" and not isinstance(calls[-1][1], list):
                    calls[-1] = ("supdate", [calls[-1][1]])
            else:
                calls.append((rng.choice(["remove", "discard", "discard", "spop", "remove"]), k))
                if calls[-1][0] == "spop":
                    calls[-1] = ("spop",)
        else:
            if ins:
                n = rng.choice(["set", "set", "set", "insert" if kind == "BTree" else "set", "setdefault", "update"])
                if n == "update":
                    pairs = [(rng.randrange(u), rng.randrange(4)) for _ in range(rng.randint(0, 5))]
                    if rng.random() < 0.3:
                        pairs = sorted(dict(pairs).items())
                        calls.append(("update", pairs, "dict"))
                    else:
                        calls.append(("update", pairs, "list"))
                else:
                    calls.append((n, k, v))
            else:
                n = rng.choice(["del", "del", "pop", "popd", "popitem"])
                calls.append(("popitem",) if n == "popitem" else ((n, k, v) if n == "popd" else (n, k)))
    calls.append(("keys",))
    return resolve_self(calls)


def resolve_self(calls):
    """replace (op, "self") by (op, <keys the container holds at that point>, "self")"""
    if not any(len(c) > 1 and c[1] == "self" for c in calls):
        return calls
    from harness.treelib import RefMap
    ref, out = RefMap(), []
    for c in calls:
        if len(c) > 1 and c[1] == "self":
            c = (c[0], [k for k, _ in ref.items()], "self")
        ref.call(c)
        out.append(c)
    return out


def height(sh):
    if sh[0] == "leaf":
        return 0
    return 1 + max([height(c) for _, c in sh[1]] or [0])


def run(ctx):
    rng = ctx.rng
    nhist = ctx.n(420, 12000)
    nrej = [0]
    fams = ALL_FAMS
    terms, meta = [], []
    heights, kinds_seen, fam_seen = {}, {}, {}
    for it in range(nhist):
        kind = rng.choice(["BTree", "BTree", "TreeSet", "Bucket", "Set"])
        fn = rng.choice(fams)
        setlike = kind in ("TreeSet", "Set")
        if fn == "fs" and False:
            continue
        ml, mi = rng.choice(SIZES)
        if kind in ("Bucket", "Set"):
            ml, mi = 100000, 100000
        u = rng.choice([5, 12, 30, 60]) if kind in ("BTree", "TreeSet") else rng.choice([4, 10, 25])
        length = rng.choice([10, 30, 60, 150]) if not ctx.quick() else rng.choice([10, 25, 50, 100])
        keymodes = {"O": ["none-int", "str", "int"]}.get(fn[0], [None, "extreme"])
        mode = rng.choice(keymodes)
        # a plain python list holding None and ints cannot be sorted by python (used by &= in the Python version)
        calls = gen_history(rng, kind, u, length, avoid0=(mode == "none-int"), selfops=True)
        ctx.progress({"family": fn, "kind": kind, "mode": mode, "sizes": [ml, mi], "calls": calls})
        ref = RefMap()
        want = [ref.call(c) for c in calls]
        results = {}
        rej_at = {ci for ci in range(len(calls)) if rng.random() < 0.05}
        for impl in ("C", "Py"):
            env = TreeEnv(fn, kind, impl, mode)
            with env.sized(ml, mi):
                t = env.new()
                outs = []
                accepted = False
                for ci, c in enumerate(calls):
                    outs.append(env.call(t, c))
                    if ci in rej_at:
                        # a write the family rejects raises and leaves the contents exactly as they were
                        from harness.props.c03 import rejected_write
                        from harness.props.c09 import call_raw
                        rj = rejected_write(rng, env, kind)
                        if rj is not None:
                            snap = list(t) if setlike else list(t.items())
                            r = call_raw(t, kind, rj[0], rj[1], rj[2])
                            now = list(t) if setlike else list(t.items())
                            nrej[0] += 1
                            if r[0] == "ok":
                                accepted = True     # accepted after all (C13 / C09 decide whether that is right): the model no longer applies
                                break
                            if now != snap:
                                ctx.oracle_failure("%s:%s:rejected-write-modifies:%s" % (impl, kind, rj[0]),
                                                   "%s%s/%s sizes=(%s,%s): after call #%d the write %s(%r, %r) raised %s but the contents changed (%d -> %d entries)" % (
                                                       fn, kind, impl, ml, mi, ci, rj[0], rj[1], rj[2], r[0], len(snap), len(now)),
                                                   {"family": fn, "kind": kind, "impl": impl, "mode": mode, "sizes": [ml, mi], "calls": calls[:ci + 1], "rejected": [rj[0], repr(rj[1]), repr(rj[2])]})
                                accepted = True
                                break
                if accepted:
                    results[impl] = None
                    continue
                if kind in ("BTree", "TreeSet"):
                    sh = env.shape(t)
                    inv = walk_invariants(env, t, ml, mi)
                else:
                    sh, inv = None, []
                items = [(env.km.ik(k), 0) for k in t] if setlike else [(env.km.ik(k), env.vm.iv(v)) for k, v in t.items()]
            results[impl] = (outs, sh, items)
            # ---- direct oracle: the reference sorted map
            for i, (o, w) in enumerate(zip(outs, want)):
                if o != w:
                    ctx.oracle_failure("%s:%s:%s:wrong-result" % (impl, kind, calls[i][0]),
                                       "%s%s/%s sizes=(%s,%s) call #%d %r returned %r, reference map %r" % (fn, kind, impl, ml, mi, i, calls[i], o, w),
                                       {"family": fn, "kind": kind, "impl": impl, "mode": mode, "sizes": [ml, mi], "calls": calls[:i + 1]})
                    break
            refitems = [(k, 0) for k, _ in ref.items()] if setlike else ref.items()
            if items != refitems:
                ctx.oracle_failure("%s:%s:final-contents" % (impl, kind), "%s%s/%s final contents differ from the reference" % (fn, kind, impl),
                                   {"family": fn, "kind": kind, "impl": impl, "mode": mode, "sizes": [ml, mi], "calls": calls})
            if inv:
                ctx.oracle_failure("%s:%s:unsound:%s" % (impl, kind, inv[0]), "%s%s/%s unsound after history: %s" % (fn, kind, impl, inv),
                                   {"family": fn, "kind": kind, "impl": impl, "mode": mode, "sizes": [ml, mi], "calls": calls})
        # ---- correspondence with the model (C and Python separately: &= differs in shape)
        for impl in ("C", "Py"):
            if results[impl] is None:
                continue
            outs, sh, items = results[impl]
            vs = "true" if (impl == "C" and fn[1] in "IULQF" and not setlike and fn != "fs") else "false"
            terms.append("TC %d %d %s %s [%s] [%s] %s [%s]" % (
                ml, mi, vs, "true" if impl == "C" else "false",
                "; ".join(call_term(c) for c in calls), "; ".join(out_term(o) for o in outs),
                shape_term(sh) if sh is not None else "WAnyS",
                "; ".join("KV %s %s" % (caseutil.z(a), caseutil.z(b)) for a, b in items)))
            meta.append((fn, kind, impl, mode, ml, mi, calls))
        sh = (results["C"] or results["Py"] or (None, None))[1]
        h = height(sh) if sh else 0
        heights[h] = heights.get(h, 0) + 1
        kinds_seen[kind] = kinds_seen.get(kind, 0) + 1
        fam_seen[fn] = fam_seen.get(fn, 0) + 1
        ctx.count((kind, ml, mi, repr(calls)), nontrivial=h >= 2 or any(c[0] in ("del", "pop", "remove", "discard", "popitem", "spop") for c in calls))
        if h >= 3 and len(calls) <= 30:
            ctx.sample({"family": fn, "kind": kind, "sizes": [ml, mi], "calls": [list(map(str, c)) for c in calls], "final_shape_C": str(sh)}, 2)
    total, bad, errs = caseutil.eval_cases("c01", HDR, "tcase_ok", terms, shard=60, ctype="wtcase")
    ctx.traces = total
    for e in errs:
        ctx.corr_mismatch("c01 case file", e)
    for i in bad[:5]:
        ctx.corr_mismatch("RTree model vs implementation", {"case": meta[i]})
    ctx.cov["final_tree_heights"] = {str(k): v for k, v in sorted(heights.items())}
    ctx.cov["kinds"] = kinds_seen
    ctx.cov["families_exercised"] = len(fam_seen)
    ctx.cov["rejected_writes_checked"] = nrej[0]


def replay(ctx, data):
    r = data["replay"]
    env = TreeEnv(r["family"], r["kind"], r["impl"], r["mode"])
    ml, mi = r["sizes"]
    calls = [tuple(tuple(x) if isinstance(x, list) and x and isinstance(x[0], list) else x for x in c) for c in r["calls"]]
    ref = RefMap()
    with env.sized(ml, mi):
        t = env.new()
        for c in calls:
            c = tuple([[tuple(p) for p in c[1]]] if c[0] == "update" else []) and (c[0], [tuple(p) for p in c[1]], c[2]) or c
            print(c, env.call(t, c), ref.call(c))
    return 0
