"""C17 -- running out of memory inside an operation is reported, not corrupting."""
import json
import os
import subprocess
import sys

PROPS_FILE = "Props/C17.v"
MODEL_FILES = ["Model/Alloc.v", "Model/AllocTree.v"]
RULE = ("every allocating operation of the C extension (insert with bucket growth, splits at every level, root split, "
        "update, __setstate__, union/intersection/difference, multiunion, conflict merge, fsBucket.fromBytes, pickling) "
        "on containers of several families and sizes; the number N of allocations is counted with the BTREES_VERIF hook "
        "and then, for every n in 1..N, the n-th allocation fails; afterwards: MemoryError reported, contents = before or "
        "= completed change, _check(), a follow-up workload and destruction of the container, in a child process with "
        "MALLOC_CHECK_=3 MALLOC_PERTURB_ so that a dangling pointer aborts; distinct by (family, kind, container, "
        "operation, n); non-trivial = all")
ASSUMPTIONS = ["allocations made by CPython itself (object creation, tuple/list building) are outside the hook",
               "a use of freed memory is detected only if it crashes, aborts under MALLOC_CHECK_ or breaks a follow-up check"]


def run(ctx):
    rng = ctx.rng
    jobs = []
    fams = ["II", "OO", "IO", "LL", "OI", "fs", "IF", "QQ"]
    jid = 0
    # a fixed grid first: an insert into every kind at the sizes where something is allocated for the first
    # time (empty container), where a leaf splits, where an interior node and the root split
    grid = []
    for gi, (kind, nkeys, sz) in enumerate((k, n, s) for k in ("Bucket", "Set", "BTree", "TreeSet") for n in (0, 1, 2, 4, 8, 16, 64) for s in ((2, 2), (4, 4))):
        for fn in (fams[gi % len(fams)], "OO" if kind in ("Bucket", "BTree") else "OI"):
            grid.append((fn, kind, nkeys, sz, "insert"))
    # ... and __setstate__ of every kind on empty / small / full containers with a smaller and a larger new state
    for gi, (kind, nkeys, newn) in enumerate((k, n, m) for k in ("Bucket", "Set", "BTree", "TreeSet") for n in (0, 3, 16) for m in (5, 40)):
        grid.append((fams[gi % len(fams)], kind, nkeys, (4, 4), ("setstate", newn)))
    grid += [("fs", "Bucket", n_, (4, 4), ("fromBytes", m_)) for n_ in (0, 3, 20) for m_ in (5, 40)]
    grid += [(fn_, k_, n_, (2, 4), "insert-evicted") for fn_ in ("II", "OO") for k_ in ("BTree", "TreeSet") for n_ in (8, 19, 27, 40, 83)]
    grid += [(fn_, k_, n_, (4, 4), "multiunion") for fn_ in ("II", "LL") for k_ in ("Set", "Bucket", "TreeSet") for n_ in (3, 40)]
    grid += [("II", "Set", 16, (4, 4), "iand"), ("OO", "TreeSet", 16, (4, 4), "iand"), ("LL", "TreeSet", 64, (4, 4), "iand")]
    grid += [(fn_, k_, n_, (4, 4), w_) for fn_ in ("II", "LF", "OI") for k_ in ("Set", "Bucket", "BTree") for n_ in (3, 40) for w_ in ("wunion", "wintersection")]
    for it in range(len(grid) + ctx.n(80, 12000)):
        fn = rng.choice(fams)
        kind = rng.choice(["Bucket", "Set", "BTree", "TreeSet", "BTree"])
        nkeys = rng.choice([0, 1, 3, 4, 7, 15, 16, 31, 63, 64])
        ml, mi = rng.choice([(2, 2), (3, 3), (4, 4), (60, 30)])
        forced = None
        if it < len(grid):
            fn, kind, nkeys, (ml, mi), forced = grid[it]
        keys = [2 * i for i in range(nkeys)]
        forced_n = None
        if isinstance(forced, tuple):
            forced, forced_n = forced
        opname = forced or rng.choice(["insert", "insert", "update", "setstate", "union", "intersection", "difference", "multiunion", "merge", "pickle", "fromBytes", "iand", "insert-evicted", "wunion", "wintersection"])
        if opname == "insert":
            op = ["insert", rng.choice([1, 2 * nkeys + 1, nkeys | 1])]
        elif opname == "update":
            op = ["update", [2 * nkeys + 1 + 2 * j for j in range(rng.choice([1, 5, 20]))]]
        elif opname == "iand":
            if kind not in ("Set", "TreeSet") or nkeys == 0:
                continue
            op = ["iand", [k for k in keys if k % 4 == 0] + [1]]
        elif opname == "setstate":
            op = ["setstate", [3 * j for j in range(forced_n or rng.choice([1, 5, 40]))]]
        elif opname in ("union", "intersection", "difference"):
            op = [opname, [3 * j for j in range(rng.choice([1, 6, 30]))]]
        elif opname in ("wunion", "wintersection"):
            if fn == "fs" or fn[1] not in "ILUQF":
                continue
            op = [opname, [3 * j for j in range(rng.choice([1, 6, 30]))], rng.choice(["Set", "Bucket"])]
        elif opname == "multiunion":
            if fn[0] == "O" or fn == "fs":
                continue
            op = ["multiunion", [3 * j for j in range(rng.choice([1, 6, 30]))]]
        elif opname == "merge":
            if nkeys == 0:
                continue
            op = ["merge", keys, 2 * nkeys + 1, 2 * nkeys + 3]
            kind = rng.choice(["Bucket", "Set"])
        elif opname == "insert-evicted":
            if kind not in ("BTree", "TreeSet"):
                continue
            op = ["insert-evicted", 2 * nkeys + 1 if forced else rng.choice([1, 2 * nkeys + 1, nkeys | 1])]     # grid: append (splits along the right edge)
        elif opname == "fromBytes":
            if fn != "fs":
                continue
            cnt = forced_n or rng.choice([1, 5, 40])
            op = ["fromBytes", ("ab" * cnt) + ("vvvvvv" * cnt)]
            kind = "Bucket"
        else:
            op = ["pickle"]
        if fn == "fs" and kind in ("BTree",) and False:
            continue
        jobs.append({"id": jid, "family": fn, "kind": kind, "keys": keys, "op": op, "sizes": [ml, mi]})
        jid += 1
    env = dict(os.environ, MALLOC_CHECK_="3", MALLOC_PERTURB_="165")
    child = os.path.join(os.path.dirname(os.path.dirname(os.path.abspath(__file__))), "c17_child.py")
    nallocs = {}
    ninj = [0]

    def run_batch(batch):
        proc = subprocess.run([sys.executable, child], input="\n".join(json.dumps(j) for j in batch) + "\n",
                              capture_output=True, text=True, env=env, timeout=1800)
        results, last_start, last_arm = {}, None, None
        for line in proc.stdout.splitlines():
            try:
                r = json.loads(line)
            except ValueError:
                continue
            if "start" in r:
                last_start = r["start"]
            elif "arm" in r:
                last_arm = r["arm"]
            else:
                results[r["id"]] = r
        return proc.returncode, results, last_start, last_arm, proc.stderr

    from concurrent.futures import ThreadPoolExecutor
    batches = [jobs[i:i + 6] for i in range(0, len(jobs), 6)]
    with ThreadPoolExecutor(8) as ex:
        outs = list(ex.map(run_batch, batches))
    singles = []
    allres = {}
    for batch, (rc, results, ls, la, err) in zip(batches, outs):
        if rc == 0 and len(results) == len(batch):
            allres.update(results)
        else:
            singles += batch          # something died: attribute by running each job in its own process
    with ThreadPoolExecutor(8) as ex:
        souts = list(ex.map(lambda j: run_batch([j]), singles))
    for job, (rc, results, ls, la, err) in zip(singles, souts):
        if job["id"] in results and rc == 0:
            allres[job["id"]] = results[job["id"]]
        else:
            n = la[1] if la and la[0] == job["id"] else None
            ctx.count((job["family"], job["kind"], len(job["keys"]), repr(job["op"]), "died"))
            ctx.oracle_failure("C:%s:%s:process-died" % (job["kind"], job["op"][0]),
                               "%s%s with %d keys, %s: the process died (rc=%s) %s: %s" % (job["family"], job["kind"], len(job["keys"]), job["op"][0], rc,
                                                                                  "after failing allocation #%s" % n if n else "in the reference run", err.strip().splitlines()[-1][:120] if err.strip() else ""),
                               {"job": job, "n": n})
    for jid_, r in allres.items():
        job = jobs[jid_]
        nallocs[job["op"][0]] = nallocs.get(job["op"][0], 0) + r["nalloc"]
        ninj[0] += r["nalloc"]
        for n in range(max(1, r["nalloc"])):
            ctx.count((job["family"], job["kind"], len(job["keys"]), repr(job["op"]), n))
        for n, bad in r["fails"]:
            ctx.oracle_failure("C:%s:%s:%s" % (job["kind"], job["op"][0], bad.split(":")[0]),
                               "%s%s with %d keys, %s: allocation #%d of %d failing: %s" % (job["family"], job["kind"], len(job["keys"]), job["op"][0], n, r["nalloc"], bad),
                               {"job": job, "n": n})
    ninj = ninj[0]
    # ---- allocation counts of n inserts into an empty Bucket / Set against Model/Alloc.v
    from harness import caseutil
    from harness.families import fam
    terms = []
    for fn in ("II", "OO", "LF", "fs"):
        f = fam(fn)
        cmod = __import__("BTrees._%sBTree" % fn, fromlist=["x"])
        km, vm = f.keymap("int" if f.kk == "O" else None), f.valmap()
        for noval in (False, True):
            for n in (0, 1, 15, 16, 17, 32, 33, 64, 65, 129, 300):
                b = f.cls("Set" if noval else "Bucket", "C")()
                cmod._verif_fail_alloc(0)
                for i in range(n):
                    if noval:
                        b.add(km.k(i))
                    else:
                        b[km.k(i)] = vm.v(i % 4)
                got = cmod._verif_fail_alloc(0)
                terms.append("AC %s %d %d" % ("true" if noval else "false", n, got))
                ctx.count(("count", fn, noval, n))
    hdr = "From Coq Require Import List.\nFrom BT Require Import Model.CaseUtil Model.Alloc.\nImport ListNotations.\n"
    total, badi, errs = caseutil.eval_cases("c17", hdr, "acase_ok", terms, shard=200, ctype="wacase")
    for e in errs:
        ctx.corr_mismatch("c17 case file", e)
    for i in badi[:5]:
        ctx.corr_mismatch("Alloc model vs implementation (number of allocations)", {"case": terms[i]})
    # ---- vector allocations of n ascending inserts into an empty BTree / TreeSet against Model/AllocTree.v
    tterms = []
    for fn in ("II", "OO", "LF", "fs"):
        f = fam(fn)
        cmod = __import__("BTrees._%sBTree" % fn, fromlist=["x"])
        km, vm = f.keymap("int" if f.kk == "O" else None), f.valmap()
        for noval in (False, True):
            cls = f.cls("TreeSet" if noval else "BTree", "C")
            old = (cls.max_leaf_size, cls.max_internal_size)
            try:
                for ml in (4, 7, 20, 40):
                    cls.max_leaf_size, cls.max_internal_size = ml, 120
                    for n in (0, 1, ml, ml + 1, ml + 2, 2 * ml + 3, 3 * ml, 60):
                        t = cls()
                        cmod._verif_fail_alloc(0)
                        for i in range(n):
                            if noval:
                                t.add(km.k(i))
                            else:
                                t[km.k(i)] = vm.v(i % 4)
                        got = cmod._verif_fail_alloc(0)
                        tterms.append("ATC %s %d %d %d" % ("true" if noval else "false", ml, n, got))
                        ctx.count(("tree-count", fn, noval, ml, n))
            finally:
                cls.max_leaf_size, cls.max_internal_size = old
    hdr2 = "From Coq Require Import List.\nFrom BT Require Import Model.CaseUtil Model.Alloc Model.AllocTree.\nImport ListNotations.\n"
    total2, badi2, errs2 = caseutil.eval_cases("c17t", hdr2, "atcase_ok", tterms, shard=300, ctype="watcase")
    for e in errs2:
        ctx.corr_mismatch("c17 tree case file", e)
    for i in badi2[:5]:
        ctx.corr_mismatch("AllocTree model vs implementation (vector allocations of ascending inserts into a tree)", {"case": tterms[i]})
    ctx.cov["tree_allocation_count_cases"] = total2
    ctx.cov["allocation_count_cases"] = total
    ctx.cov["allocations_failed_by_operation"] = nallocs
    ctx.cov["injected_failures"] = ninj
    ctx.traces = ctx.evaluations
    ctx.sample({"job": jobs[0] if jobs else None})


def replay(ctx, data):
    print(data["replay"])
    return 0
