"""C11 -- multiunion is the exact sorted union for every integer-key family."""
from harness import caseutil
from harness.families import fam, BOUNDS, INT_FAMS, sizes

PROPS_FILE = "Props/C11.v"
MODEL_FILES = ["Model/Sort.v"]
RULE = ("operand lists for multiunion: 0..6 operands of kinds {Set, TreeSet, Bucket, BTree, list, tuple, "
        "single int}, total sizes around the insertion-sort (25), quicksort/radix (800) switches and "
        "beyond, keys over the whole key range incl. both extremes, values differing only in one byte, "
        "many repeats; distinct by (family, operands); non-trivial = at least 2 keys in total")
ASSUMPTIONS = ["two's-complement little-endian key representation (the C code detects endianness; the model is byte-position based)"]
Z = caseutil.z
HDR = ("From Coq Require Import ZArith List.\nFrom BT Require Import Model.CaseUtil Model.Sort.\n"
       "Import ListNotations.\nOpen Scope Z_scope.\n")
NBYTES = {"I": 4, "U": 4, "L": 8, "Q": 8}


def gen_keys(rng, kk, n):
    lo, hi = BOUNDS[kk]
    style = rng.choice(["small", "wide", "extremes", "onebyte", "topbit", "dups"] if n < 300 else
                       ["mixed", "wide", "topbit", "mixed", "onebyte", "unique", "unique", "bytemask", "bytemask"])
    if style == "unique":
        # no repeated key anywhere, and only the b low-order bytes vary (b = 2 .. width): the radix
        # sort skips constant bytes, so the parity of b decides which buffer holds the result
        b = rng.randint(2, NBYTES[kk])
        span = 256 ** b
        nblocks = (hi - lo + 1) // span
        base = lo + span * rng.randrange(nblocks)
        seen = set()
        while len(seen) < min(n, span):
            seen.add(rng.randrange(span))
        out = [base + x for x in seen]
        rng.shuffle(out)
        return out
    if style == "bytemask":
        # an arbitrary set of byte positions varies and the others are constant (e.g. multiples of 256,
        # or a low byte together with the top byte): the radix sort's "all keys share this byte" shortcut
        # is then taken for a LOWER byte while a HIGHER byte still needs sorting
        nb = NBYTES[kk]
        pos = sorted(rng.sample(range(nb), rng.randint(2, min(3, nb))))
        if rng.random() < 0.6 and 0 in pos:
            pos = [q for q in pos if q != 0] + ([q for q in range(1, nb) if q not in pos][:1])
            pos = sorted(set(pos))
        const = rng.randrange(256 ** nb)
        seen = set()
        while len(seen) < min(n, 256 ** len(pos)):
            x = const
            for q in pos:
                x = (x & ~(0xff << (8 * q))) | (rng.randrange(256) << (8 * q))
            seen.add(x)
        out = [x + lo for x in seen]            # lo = 0 for unsigned, -2^(w-1) for signed: stays inside the range
        rng.shuffle(out)
        return out
    out = []
    for _ in range(n):
        if style == "small":
            k = rng.randint(max(lo, -300), 300)
        elif style == "wide":
            k = rng.randint(lo, hi)
        elif style == "mixed":
            k = rng.randint(lo, hi) if rng.random() < 0.15 else rng.choice([lo, hi, 0]) + rng.randint(-500, 500)
        elif style == "extremes":
            k = rng.choice([lo, lo + 1, hi, hi - 1, 0, 1, (lo + hi) // 2, (lo + hi) // 2 + 1, rng.randint(lo, hi)])
        elif style == "onebyte":
            b = rng.randrange(NBYTES[kk])
            k = (rng.randrange(256) << (8 * b)) + (lo if rng.random() < 0.3 else 0)
            k = min(max(k, lo), hi)
        elif style == "topbit":
            k = rng.choice([hi - rng.randint(0, 1000), (hi // 2 + 1) + rng.randint(-3, 3), rng.randint(0, 1000), lo + rng.randint(0, 5)])
        else:
            k = rng.randint(0, max(3, n // 8))
        out.append(min(max(k, lo), hi))
    return out


def split(rng, keys):
    """cut the key list into operands"""
    if not keys:
        return [[] for _ in range(rng.randint(0, 3))]
    nops = rng.randint(1, 6)
    cuts = sorted(rng.randint(0, len(keys)) for _ in range(nops - 1))
    parts, prev = [], 0
    for c in cuts + [len(keys)]:
        parts.append(keys[prev:c]); prev = c
    return parts


def build(f, impl, rng, part):
    kind = rng.choice(["Set", "TreeSet", "Bucket", "BTree", "list", "tuple"] + (["int"] if len(part) == 1 else []))
    if kind == "int":
        return part[0], [part[0]]
    if kind in ("Set", "TreeSet"):
        o = f.cls(kind, impl)(part)
        return o, list(o)
    if kind in ("Bucket", "BTree"):
        v = f.valmap().v(1)
        o = f.cls(kind, impl)([(k, v) for k in part])
        return o, list(o.keys())
    return (list(part) if kind == "list" else tuple(part)), list(part)


def run(ctx):
    rng = ctx.rng
    fams = INT_FAMS
    sizes_q = [0, 1, 2, 3, 24, 25, 26, 27, 60, 200, 799, 800, 801, 802, 900, 1100]
    sizes_t = sizes_q + [2500, 5000]
    terms, meta = [], []
    sizehist = {}
    paths = {}
    reps = ctx.n(1, 6)
    bigfams = set()
    for kt in "IULQ":
        cands = [x for x in fams if x[0] == kt]
        bigfams.add(cands[(ctx.seed + ord(kt)) % len(cands)])
    for fn in fams:
        f = fam(fn)
        kk = f.kk
        for n in (sizes_q if ctx.quick() else sizes_t):
            if ctx.quick() and n > 1000 and fn not in bigfams:
                continue
            for rep in range(reps if n > 30 else reps * 6):
                keys = gen_keys(rng, kk, n)
                parts = split(rng, keys)
                seed = rng.random()
                ghost_run = n <= 1100 and rng.random() < 0.12
                res = {}
                model_ops = None
                for impl in ("C", "Py"):
                    import random as _r
                    r2 = _r.Random(seed)
                    with sizes([f.cls(k, impl) for k in ("BTree", "TreeSet")], 4, 3):
                        built = [build(f, impl, r2, p) for p in parts]
                        short = n - sum(len(b[1]) for b in built)
                        if n > 800 and short > 0:   # containers dropped repeats: top up so the radix path is taken
                            extra = [keys[i % len(keys)] for i in range(short)]
                            built.append((list(extra), list(extra)))
                        ops = [b[0] for b in built]
                        model_ops = [b[1] for b in built]
                        if ghost_run:
                            # the operands live in a database and have been evicted from the cache (ghosts)
                            from harness.minijar import Storage, Jar
                            jar = Jar(Storage())
                            for o in ops:
                                if hasattr(o, "_p_oid"):
                                    jar.add(o)
                            jar.commit()
                            jar.minimize()
                        try:
                            r = f.func("multiunion", impl)(ops)
                            ok_type = type(r) is f.cls("Set", impl)
                            lst = list(r)
                            want = sorted(set(keys))
                            bad = None
                            if not ok_type:
                                bad = "result-type"
                            elif lst != want:
                                bad = "not-sorted-union"
                            else:
                                probe = keys[:5] + [want[len(want) // 2]] if want else []
                                for k in probe:
                                    if k not in r:
                                        bad = "membership"
                                if want and list(r.keys(want[0], want[-1])) != want:
                                    bad = "range-query"
                                if want and r.maxKey() != want[-1]:
                                    bad = "maxKey"
                        except Exception as e:  # noqa
                            lst, bad = None, "raises-" + type(e).__name__
                    res[impl] = lst
                    if bad:
                        big = len(keys) > 800
                        ctx.oracle_failure("%s:multiunion:%s:%s:%s" % (impl, bad, "unsigned" if kk in "UQ" else "signed", "radix" if big else "quicksort"),
                                           "%s %s multiunion of %d keys in %d operands -> %s (first 12 of result: %r)" % (fn, impl, len(keys), len(parts), bad, (lst or [])[:12]),
                                           {"family": fn, "impl": impl, "operands": model_ops if len(keys) < 2000 else "seeded", "seed_note": "VERIF_SEED reproduces"})
                sizehist[n] = sizehist.get(n, 0) + 1
                gathered = sum(len(op) for op in model_ops)
                path = "radix" if gathered > 800 else "quicksort"
                paths[(kk, path)] = paths.get((kk, path), 0) + 1
                ctx.count((fn, tuple(keys)), nontrivial=len(keys) >= 2)
                variants = [(0, res["C"])] if res["C"] == res["Py"] else [(1, res["C"]), (2, res["Py"])]
                for which, r in variants:
                    if r is None:
                        continue
                    terms.append("MU %d %s %d [%s] [%s]" % (
                        which, "true" if kk in "IL" else "false", NBYTES[kk],
                        "; ".join("[%s]" % "; ".join(Z(k) for k in op) for op in model_ops),
                        "; ".join(Z(k) for k in r)))
                    meta.append((fn, n, which))
                if n == 27 and len(ctx.samples) < 2:
                    ctx.sample({"family": fn, "operands": model_ops, "result": res["C"]})
    total, bad, errs = caseutil.eval_cases("c11", HDR, "mucase_ok", terms, shard=40, ctype="wmu", timeout=1500)
    ctx.traces = total
    for e in errs:
        ctx.corr_mismatch("c11 case file", e)
    for i in bad[:5]:
        ctx.corr_mismatch("Sort model vs implementation", {"case": meta[i]})
    ctx.cov["size_histogram"] = {str(k): v for k, v in sorted(sizehist.items())}
    ctx.cov["families"] = fams
    ctx.cov["sort_path_by_key_type"] = {"%s:%s" % k: v for k, v in sorted(paths.items())}
    for kt in "IULQ":
        if paths.get((kt, "radix"), 0) < 8 or paths.get((kt, "quicksort"), 0) < 4:
            ctx.corr_mismatch("generator did not reach both sort paths", {"key type": kt, "paths": str(paths)})


def replay(ctx, data):
    r = data["replay"]
    f = fam(r["family"])
    ops = r["operands"]
    if isinstance(ops, list):
        res = list(f.func("multiunion", r["impl"])(ops))
        want = sorted(set(k for op in ops for k in op))
        print("result ok" if res == want else "result wrong: %r..." % res[:20])
        return 0 if res == want else 1
    print("re-run ./check C11 with VERIF_SEED=%s" % data["seed"])
    return 0
