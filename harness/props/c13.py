"""C13 -- only representable keys and values are stored, and they read back exactly."""
import math
import struct

from harness import caseutil
from harness.families import fam, ALL_FAMS, BOUNDS

PROPS_FILE = "Props/C13.v"
MODEL_FILES = ["Model/Conv.v", "Model/Float32.v"]
GENERATED = ("TablesGen",)
RULE = ("every candidate (ints within +-2 of +-2^31, 2^32, +-2^63, 2^64, 0, +-1, +-2^200, bools, objects with __index__, "
        "floats incl. inf/nan/subnormals/float32 limits/out-of-float32-range, str, bytes of length 0..8, None, objects "
        "with and without their own comparison) offered as key and as value through setitem, insert, setdefault, "
        "update (dict and pairs), constructor, add, set constructor, on Bucket/BTree/Set/TreeSet of every family, C and "
        "Python; after a rejection the container must be unchanged, after acceptance the entry must read back as the "
        "representable value; the same offers as the FIRST write into an empty container (after a rejection it must still be a "
        "sound empty container); overwriting an existing entry with a close but different value must store the new value; "
        "lookups with unrepresentable keys must report absence; distinct by (family, kind, entry "
        "point, role, candidate); non-trivial = all")
ASSUMPTIONS = ["float32 rounding expected from struct.pack('f') (IEEE round-to-nearest-even, overflow to inf)",
               "__setstate__ as an entry point is exercised in a separate stream (see known findings)"]
Z = caseutil.z
HDR = ("From Coq Require Import ZArith List.\nFrom BT Require Import Model.CaseUtil Model.Conv.\n"
       "Import ListNotations.\nOpen Scope Z_scope.\n")
TY = {"I": 0, "U": 1, "L": 2, "Q": 3}


class Idx:
    def __init__(self, n):
        self.n = n

    def __index__(self):
        return self.n


class Plain:
    pass


class Ordered:
    def __init__(self, n):
        self.n = n

    def __lt__(self, o):
        return self.n < o.n

    def __eq__(self, o):
        return isinstance(o, Ordered) and self.n == o.n

    def __hash__(self):
        return hash(self.n)


def f32(x):
    try:
        return struct.unpack("f", struct.pack("f", x))[0]
    except OverflowError:
        return math.copysign(math.inf, x)


def candidates():
    out = []
    for b in (2**31, 2**32, 2**63, 2**64):
        for d in (-2, -1, 0, 1, 2):
            out.append(("int", b + d))
            out.append(("int", -b + d))
    for n in (0, 1, -1, 7, 2**200, -2**200, 2**70, 2**127, 2**128, 3 * 10**38, 4 * 10**38):
        out.append(("int", n))
    out += [("bool", True), ("bool", False)]
    out += [("index", Idx(5)), ("index", Idx(2**40)), ("index", Idx(-3))]
    for x in (0.5, 0.1, -0.1, 1e300, -1e300, math.inf, -math.inf, math.nan, 5e-324, 1e-40, 1.1754942e-38,
              3.4028234663852886e38, 3.4028235677973366e38, 3.5e38, 16777217.0, 1.0000001, 2.0 ** -149, 2.0 ** -150, 1e39):
        out.append(("float", x))
    out += [("str", "ab"), ("none", None), ("plain", Plain()), ("ordered", Ordered(3)), ("tuple", (1, 2)), ("list", [1])]
    # text that LOOKS numeric is still not a number of the family's type
    out += [("str", "1.5"), ("str", " 7 "), ("str", "12"), ("str", "nan"), ("str", "1_0"), ("bytes", b"2.5"), ("bytes", b"12")]
    for n in range(0, 9):
        out.append(("bytes", bytes(range(65, 65 + n))))
    return out


def pyval_term(kind, v):
    if kind == "int":
        return "(PInt %s)" % Z(v)
    if kind == "bool":
        return "(PBool %s)" % ("true" if v else "false")
    if kind == "index":
        return "(PIndex %s)" % Z(v.n)
    if kind == "float":
        return "PFloat"
    if kind == "str":
        return "PStr"
    if kind == "bytes":
        return "(PBytes %d)" % len(v)
    if kind == "none":
        return "PNone"
    if kind == "plain":
        return "PObjDefault"
    return "PObjOrd"


def expected(tc, kind, v, role):
    """('ok', stored) | ('reject',) | ('either', stored)  for type code tc"""
    if tc in BOUNDS:
        lo, hi = BOUNDS[tc]
        if kind in ("int", "bool"):
            return ("ok", int(v)) if lo <= int(v) <= hi else ("reject",)
        if kind == "index":
            return ("either", v.n) if lo <= v.n <= hi else ("reject",)
        return ("reject",)
    if tc == "F":
        if kind == "float":
            return ("ok", f32(v))
        if kind in ("int", "bool"):
            try:
                d = float(v)
            except OverflowError:
                return ("reject",)
            r = f32(d)
            return ("either", r) if math.isinf(r) else ("ok", r)
        if kind == "index":
            return ("either", f32(float(v.n)))
        return ("reject",)
    if tc == "O":
        if role == "value":
            return ("ok", v)
        if kind in ("plain",):
            return ("reject",)
        return ("ok", v)
    if tc == "f":
        return ("ok", v) if kind == "bytes" and len(v) == 2 else ("reject",)
    if tc == "s":
        return ("ok", v) if kind == "bytes" and len(v) == 6 else ("reject",)
    raise ValueError(tc)


def same(a, b):
    if isinstance(a, float) and isinstance(b, float):
        return (math.isnan(a) and math.isnan(b)) or (a == b and math.copysign(1, a) == math.copysign(1, b))
    return type(a) is type(b) and a == b or (a is b)


def valid_key(f, i):
    return f.keymap("int" if f.kk == "O" else None).k(i)


def run(ctx):
    rng = ctx.rng
    fams = ALL_FAMS if not ctx.quick() else ALL_FAMS
    cands = candidates()
    terms = []
    nrej = nacc = nempty = nover = 0
    entry_counts = {}
    for fn in fams:
        f = fam(fn)
        for impl in ("C", "Py"):
            km = f.keymap("int" if f.kk == "O" else None)
            vm = f.valmap()
            k1, k2, knew = km.k(11), km.k(15), km.k(13)
            v1 = vm.v(1)
            for kindc, cv in cands:
                for role in ("key", "value"):
                    tc = f.kk if role == "key" else f.vk
                    exp = expected(tc, kindc, cv, role)
                    if role == "key" and f.kk == "O" and kindc not in ("plain", "none", "int", "bool") :
                        continue       # mixing unrelated key types in one object-keyed tree is python's own TypeError
                    if role == "key" and f.kk == "O" and kindc == "float" and math.isnan(cv):
                        continue
                    entries = (["setitem", "insert", "setdefault", "update-dict", "update-pairs", "ctor-dict", "update-tree", "ctor-tree"] if role == "value" else
                               ["setitem", "insert", "setdefault", "update-pairs", "ctor-pairs", "add", "set-ctor", "update-dict"])
                    if f.kk not in "ILOUQ":           # no object-valued sibling family with this key type (fs)
                        entries = [e for e in entries if e not in ("update-tree", "ctor-tree")]
                    if ctx.quick():
                        entries = rng.sample(entries, 3)
                    if role == "value" and f.vk != "O" and f.kk in "ILOUQ" and rng.random() < 0.5 and "update-tree" not in entries and "ctor-tree" not in entries:
                        entries.append(rng.choice(["update-tree", "ctor-tree"]))
                    for entry in entries:
                        kinds = {"insert": ["BTree"], "add": ["Set", "TreeSet"], "set-ctor": ["Set", "TreeSet"]}.get(entry, ["Bucket", "BTree"])
                        kind = rng.choice(kinds)
                        if entry == "update-dict" and role == "key":
                            try:
                                hash(cv)
                            except TypeError:
                                continue
                        cls = f.cls(kind, impl)
                        setlike = kind in ("Set", "TreeSet")
                        # a third of the offers are the FIRST write into an empty container
                        empty_start = entry not in ("ctor-dict", "ctor-pairs", "set-ctor", "ctor-tree") and rng.random() < 0.34
                        try:
                            t = cls() if empty_start else (cls([k1, k2]) if setlike else cls({k1: v1, k2: v1}))
                        except Exception as e:  # noqa
                            ctx.corr_mismatch("cannot preload", {"family": fn, "err": repr(e)})
                            continue
                        before = list(t) if setlike else list(t.items())
                        key = cv if role == "key" else knew
                        val = cv if role == "value" else v1
                        outcome, got = None, None
                        try:
                            if entry == "setitem":
                                t[key] = val
                            elif entry == "insert":
                                t.insert(key, val)
                            elif entry == "setdefault":
                                t.setdefault(key, val)
                            elif entry == "update-dict":
                                t.update({key: val})
                            elif entry == "update-pairs":
                                t.update([key] if setlike else [(key, val)])
                            elif entry in ("update-tree", "ctor-tree"):
                                # the source is a CONTAINER of a family with the same key type and object values
                                # (C or Python, whichever -- a fast path for "one of ours" must still convert the values)
                                src_cls = fam(f.kk + "O").cls(rng.choice(["BTree", "Bucket"]), rng.choice([impl, impl, "C", "Py"]))
                                src = src_cls()
                                src[knew] = val
                                if entry == "update-tree":
                                    t.update(src)
                                else:
                                    src[k1] = v1
                                    src[k2] = v1
                                    t = cls(src)
                            elif entry == "ctor-dict":
                                t = cls({k1: v1, k2: v1, key: val})
                            elif entry == "ctor-pairs":
                                t = cls([(k1, v1), (k2, v1), (key, val)])
                            elif entry == "add":
                                t.add(key)
                            elif entry == "set-ctor":
                                t = cls([k1, k2, key])
                            outcome = "accepted"
                        except TypeError:
                            outcome = "TypeError"
                        except Exception as e:  # noqa
                            outcome = type(e).__name__
                        entry_counts[entry] = entry_counts.get(entry, 0) + 1
                        ctx.count((fn, impl, kind, entry, role, kindc, repr(cv)))
                        try:
                            after = list(t) if setlike else list(t.items())
                        except SystemError:
                            outcome = "SystemError-exception-left-pending"
                            after = list(t) if setlike else list(t.items())
                        bad = None
                        if outcome == "TypeError":
                            nrej += 1
                            if exp[0] == "ok":
                                bad = "rejects-representable"
                            elif entry not in ("ctor-dict", "ctor-pairs", "set-ctor", "ctor-tree") and not all(same(a, b) if setlike else (same(a[0], b[0]) and same(a[1], b[1])) for a, b in zip(before, after)) or (entry not in ("ctor-dict", "ctor-pairs", "set-ctor", "ctor-tree") and len(before) != len(after)):
                                bad = "modified-although-rejected"
                        elif outcome == "accepted":
                            nacc += 1
                            if exp[0] == "reject":
                                bad = "accepts-unrepresentable"
                            else:
                                want = exp[1]
                                try:
                                    if role == "key":
                                        keys = list(t) if setlike else list(t.keys())
                                        if not any(same(x, want) for x in keys) or len(keys) != len(before) + (1 if not any(same(want, b if setlike else b[0]) for b in before) else 0):
                                            bad = "key-reads-back-differently"
                                    else:
                                        g = t[knew]
                                        if not same(g, want):
                                            bad = "value-reads-back-differently"
                                            got = g
                                except Exception as e:  # noqa
                                    bad = "readback-raises-" + type(e).__name__
                        else:
                            bad = "raises-" + outcome
                            if not all(same(a, b) if setlike else (same(a[0], b[0]) and same(a[1], b[1])) for a, b in zip(before, after)) or len(before) != len(after):
                                bad += "+modified"
                        if bad is None and empty_start and outcome == "TypeError":
                            bad = empty_damage(t, kind)
                            nempty += 1
                        if bad:
                            ctx.oracle_failure("%s:%s:%s:%s:%s" % (impl, role, tc, kindc if kindc != "int" else ("int-in-range" if exp[0] != "reject" else "int-out-of-range"), bad),
                                               "%s%s/%s %s with %s %s=%r: %s (expected %s%s)" % (fn, kind, impl, entry, kindc, role, cv, bad, exp[0], "" if got is None else ", read back %r" % (got,)),
                                               {"family": fn, "kind": kind, "impl": impl, "entry": entry, "role": role, "candidate": repr(cv), "class": kindc})
                # ---- overwriting an existing entry with a close but different value stores the new value
                if f.vk in BOUNDS or f.vk == "F":
                    if f.vk == "F":
                        one_up = struct.unpack("f", struct.pack("I", struct.unpack("I", struct.pack("f", 1.0))[0] + 1))[0]
                        pairs = [(0.0, 1e-7), (1e-8, 2e-8), (1e-8, -1e-8), (1e-30, 0.0), (1.0, one_up), (one_up, 1.0), (3.0, 3.0000002),
                                 (1e10, 1.0000001e10), (0.5, -0.5), (2.0 ** -149, 0.0), (16777216.0, 16777218.0)]
                    else:
                        lo, hi = BOUNDS[f.vk]
                        pairs = [(0, 1), (1, 0), (hi, hi - 1), (lo, lo + 1), (hi - 1, hi), (7, 8), (lo, hi), (hi, lo)]
                    for a, b in pairs:
                        for kind in ("Bucket", "BTree"):
                            for entry in ("setitem", "update-dict", "update-pairs"):
                                cls = f.cls(kind, impl)
                                t = cls({k1: a, k2: a})
                                if entry == "setitem":
                                    t[k1] = b
                                elif entry == "update-dict":
                                    t.update({k1: b})
                                else:
                                    t.update([(k1, b)])
                                nover += 1
                                ctx.count((fn, impl, kind, "overwrite", entry, repr(a), repr(b)))
                                want = f32(b) if f.vk == "F" else b
                                # finding F8: the Python float families keep the double (reported by the main stream)
                                okv = (t[k1] == want) or (impl == "Py" and f.vk == "F" and t[k1] == b)
                                if not okv or t[k2] != (f32(a) if f.vk == "F" and impl == "C" else t[k2]):
                                    ctx.oracle_failure("%s:value:%s:overwrite:new-value-not-stored" % (impl, f.vk),
                                                       "%s%s/%s: %s of an existing key holding %r with %r reads back %r (expected %r)" % (fn, kind, impl, entry, a, b, t[k1], want),
                                                       {"family": fn, "kind": kind, "impl": impl, "entry": entry, "old": repr(a), "new": repr(b)})
                # ---- lookups with an unrepresentable key report absence
                if f.kk != "O":
                    for kindc, cv in cands:
                        exp = expected(f.kk, kindc, cv, "key")
                        if exp[0] != "reject":
                            continue
                        try:
                            hash(cv)
                        except TypeError:
                            pass
                        tcls = f.cls("BTree", impl)
                        from harness.families import sizes as _sizes
                        with _sizes([tcls], 2, 2):
                            t = tcls({km.k(i): v1 for i in range(1, 12)})     # three levels
                        res = []
                        for nm, fnc in (("in", lambda: cv in t), ("get", lambda: t.get(cv)), ("get-default", lambda: t.get(cv, 7)),
                                        ("has_key", lambda: bool(t.has_key(cv)))):
                            try:
                                r = fnc()
                                ok = r in (False, None, 7)
                            except Exception as e:  # noqa
                                ok, r = False, type(e).__name__
                            ctx.count((fn, impl, "lookup", nm, kindc, repr(cv)))
                            if not ok:
                                ctx.oracle_failure("%s:lookup:%s:%s:%s" % (impl, f.kk, nm, kindc), "%sBTree/%s %s with unrepresentable key %r -> %r" % (fn, impl, nm, cv, r),
                                                   {"family": fn, "impl": impl, "lookup": nm, "candidate": repr(cv)})
                        try:
                            t[cv]
                            r = "returned"
                        except KeyError:
                            r = None
                        except Exception as e:  # noqa
                            r = type(e).__name__
                        if r is not None:
                            ctx.oracle_failure("%s:lookup:%s:getitem:%s" % (impl, f.kk, kindc), "%sBTree/%s t[%r] -> %s, expected KeyError" % (fn, impl, cv, r),
                                               {"family": fn, "impl": impl, "lookup": "getitem", "candidate": repr(cv)})
        # ---- correspondence with Conv.v: acceptance of each candidate as a key of an integer family
        if f.kk in TY and fn[1] == "O":
            for kindc, cv in cands:
                res = {}
                for impl in ("C", "Py"):
                    s = f.cls("Set", impl)()
                    try:
                        s.add(cv)
                        res[impl] = "(Some %s)" % Z(list(s)[0])
                    except TypeError:
                        res[impl] = "None"
                    except Exception:  # noqa
                        res[impl] = "(Some 123456789)"      # never equals the model
                terms.append("WC %d %s %s %s" % (TY[f.kk], pyval_term(kindc, cv), res["C"], res["Py"]))
    total, bad, errs = caseutil.eval_cases("c13", HDR, "convcase_ok", terms, shard=400, ctype="wconv")
    ctx.traces = total
    for e in errs:
        ctx.corr_mismatch("c13 case file", e)
    for i in bad[:5]:
        ctx.corr_mismatch("Conv model vs implementation", {"case": terms[i]})
    ctx.cov["rejected_first_writes_into_empty_containers"] = nempty
    ctx.cov["overwrites_with_close_values"] = nover
    ctx.cov["accepted"] = nacc
    ctx.cov["rejected"] = nrej
    ctx.cov["entry_points"] = entry_counts
    ctx.sample({"family": "IF", "candidate": "0.1", "expected_readback": f32(0.1)})
    float_model_tie(ctx, ctx.rng, ctx.n(600, 20000))


FHDR = ("From Coq Require Import ZArith List.\nFrom BT Require Import Model.CaseUtil Model.Float32.\n"
        "Import ListNotations.\nOpen Scope Z_scope.\n")


def _farg_term(x):
    if isinstance(x, int) and not isinstance(x, bool):
        return "FInt %s" % Z(x)
    if math.isnan(x):
        return "FNan"
    if math.isinf(x):
        return "FInf %s" % ("true" if x < 0 else "false")
    if x == 0:
        return "FZero %s" % ("true" if math.copysign(1.0, x) < 0 else "false")
    mant, exp = math.frexp(x)
    return "FDouble %s %s" % (Z(int(mant * 2 ** 53)), Z(exp - 53))


def _fobs_term(y):
    if y is None:
        return "ORejected"
    if math.isnan(y):
        return "ONan"
    if math.isinf(y):
        return "OInf %s" % ("true" if y < 0 else "false")
    if y == 0:
        return "OZero %s" % ("true" if math.copysign(1.0, y) < 0 else "false")
    mant, exp = math.frexp(abs(y))
    m, e = int(mant * 2 ** 53), exp - 53
    while m % 2 == 0:
        m //= 2
        e += 1
    return "OFinite %s %d%%positive %s" % ("true" if y < 0 else "false", m, Z(e))


def float_model_tie(ctx, rng, n):
    """The tie of Model/Float32.v (theorems C13_float_*) to the C extension: floats and ints offered as VALUES of the
    float-valued families through item assignment / setdefault / update / the constructor / __setstate__; what reads
    back must be, bit for bit, what the model stores (round to nearest even into binary32, infinities on overflow,
    signed zeros on underflow, ints through binary64 first, ints beyond the doubles rejected)."""
    from harness import caseutil
    args = [v for k, v in candidates() if k in ("float", "int")]
    for _ in range(n):
        r = rng.random()
        if r < 0.25:          # exact ties between two neighbouring float32 numbers, and their double neighbours
            q = rng.randrange(-149, 104)
            m = rng.randrange(2 ** 23, 2 ** 24) if q > -149 or rng.random() < 0.5 else rng.randrange(1, 2 ** 23)
            x = math.ldexp(2 * m + 1, q - 1)
            args.append(rng.choice([x, math.nextafter(x, math.inf), math.nextafter(x, -math.inf), -x]))
        elif r < 0.4:         # the subnormal range of binary32 and below
            args.append(math.ldexp(rng.randrange(1, 2 ** 53), rng.randrange(-210, -170)) * rng.choice([1, -1]))
        elif r < 0.55:        # around the largest float32
            args.append(math.ldexp(rng.randrange(2 ** 52, 2 ** 53), 75 + rng.randrange(0, 3)) * rng.choice([1, -1]))
        elif r < 0.75:        # ints that are not doubles (double rounding), ints around 2^128 and 2^1024
            b = rng.choice([24, 25, 53, 54, 60, 77, 100, 127, 128, 129, 1023, 1024])
            args.append(rng.choice([1, -1]) * (2 ** b + rng.choice([0, 1, -1, 2 ** max(0, b - 24), 2 ** max(0, b - 25) + 1, 2 ** max(0, b - 54) + 1])))
        else:
            args.append(rng.choice([1, -1]) * math.ldexp(rng.random(), rng.randrange(-160, 140)))
    terms, meta = [], []
    fams = ["IF", "LF", "UF", "QF"]
    entry_names = ["setitem", "setdefault", "update", "constructor", "setstate"]
    for i, x in enumerate(args):
        fn = fams[i % len(fams)]
        f = fam(fn)
        kind = ("BTree", "Bucket")[(i // len(fams)) % 2]
        cls = f.cls(kind, "C")
        k = valid_key(f, 1)
        ep = entry_names[i % len(entry_names)]
        try:
            if ep == "setitem":
                t = cls()
                t[k] = x
            elif ep == "setdefault":
                t = cls()
                t.setdefault(k, x)
            elif ep == "update":
                t = cls()
                t.update([(k, x)])
            elif ep == "constructor":
                t = cls({k: x})
            else:
                t = cls()
                t.__setstate__(((k, x),) if kind == "Bucket" else ((((k, x),),),))
            y = t[k]
        except TypeError:
            y = None
        terms.append("FC (%s) (%s)" % (_farg_term(x), _fobs_term(y)))
        meta.append((fn, kind, ep, repr(x), repr(y)))
        # direct statement, independent of the model: struct.pack('f') is IEEE round-to-nearest-even
        if y is not None:
            try:
                want = f32(float(x))
            except OverflowError:
                want = None
            if want is None or not same(want, y):
                ctx.oracle_failure("C:F:float-value-not-the-single-precision-rounding:%s" % ep,
                                   "%s%s/C %s: value %r reads back as %r, its single-precision rounding is %r" % (fn, kind, ep, x, y, want),
                                   {"family": fn, "kind": kind, "entry": ep, "value": repr(x)})
    total, bad, errs = caseutil.eval_cases("c13f", FHDR, "fcase_ok", terms, shard=400, ctype="wfcase")
    for e in errs:
        ctx.corr_mismatch("c13 float case file", e)
    for i in bad[:5]:
        ctx.corr_mismatch("Float32 model (Flocq binary32 / binary64 rounding) vs the C extension", {"case": meta[i], "term": terms[i]})
    ctx.cov["float_values_compared_with_the_flocq_model"] = total


def empty_damage(t, kind):
    """a container that rejected its first write must still be a sound EMPTY container"""
    try:
        if len(t) != 0 or t or list(t.keys()) != []:
            return "empty-container-not-empty-after-rejected-first-write"
        if kind in ("BTree", "TreeSet"):
            if t.__getstate__() is not None:
                return "empty-tree-has-state-after-rejected-first-write"
            t._check()
        try:
            t.minKey()
            return "minKey-of-empty-container-returns"
        except (ValueError, IndexError):      # which of the two is C02's / C09's business (finding F41)
            pass
    except AssertionError as e:
        return "check-fails-after-rejected-first-write"
    except Exception as e:  # noqa
        return "empty-container-raises-" + type(e).__name__
    return None


def replay(ctx, data):
    print(data["replay"])
    return 0
