"""A minimal data manager standing in for a ZODB connection + storage.

It implements exactly the protocol the BTrees code relies on: register()
(called by persistent on the first change of a stored object), readCurrent(),
setstate() (load a ghost), oldstate(), new_ghost through a PickleCache, commit
of the registered objects plus the objects newly reachable from their states
(persistent_id assigns oids), abort, optimistic conflict detection with
_p_resolveConflict.  Objects are pickled as (class, state) with references to
other persistent objects replaced by (oid, class).
"""
import io
import pickle

from persistent import PickleCache, Persistent


class ConflictError(Exception):
    pass


class ReadConflictError(ConflictError):
    pass


class Storage:
    def __init__(self):
        self.records = {}     # oid -> (bytes, serial)
        self.history = {}     # (oid, serial) -> bytes
        self._oid = 0
        self._tid = 0

    def new_oid(self):
        self._oid += 1
        return self._oid.to_bytes(8, "big")

    def new_tid(self):
        self._tid += 1
        return self._tid.to_bytes(8, "big")


class Jar:
    """One connection: own object cache, own registered / read-current sets."""

    def __init__(self, storage, write_order="lifo"):
        self.storage = storage
        self.write_order = write_order
        self._cache = PickleCache(self, 100000)
        self.registered = []
        self.readcurrent = {}
        self.log = []            # ('register'|'readCurrent'|'setstate', obj)
        self.creating = {}

    # ---- persistence protocol
    def register(self, obj):
        self.registered.append(obj)
        self.log.append(("register", obj))

    def readCurrent(self, obj):
        self.readcurrent[obj._p_oid] = obj._p_serial
        self.log.append(("readCurrent", obj))

    def setstate(self, obj):
        data, serial = self.storage.records[obj._p_oid]
        cls, state = self._load(data)
        self.log.append(("setstate", obj))
        obj.__setstate__(state)      # as ZODB's setGhostState does, also for a None state
        obj._p_serial = serial

    def oldstate(self, obj, serial):
        data = self.storage.history[(obj._p_oid, serial)]
        return self._load(data)[1]

    # ---- (un)pickling with persistent references
    def _dump(self, obj, queue):
        f = io.BytesIO()
        p = pickle.Pickler(f, 3)

        def pid(o):
            if isinstance(o, Persistent) and o is not obj:
                if o._p_oid is None:
                    o._p_oid = self.storage.new_oid()
                    o._p_jar = self
                    self._cache[o._p_oid] = o
                    self.creating[o._p_oid] = o
                    queue.append(o)
                return (o._p_oid, type(o))
            return None
        p.persistent_id = pid
        p.dump((type(obj), obj.__getstate__()))
        return f.getvalue()

    def _load(self, data):
        u = pickle.Unpickler(io.BytesIO(data))

        def pload(ref):
            oid, cls = ref
            return self.get(oid, cls)
        u.persistent_load = pload
        return u.load()

    def get(self, oid, cls=None):
        obj = self._cache.get(oid)
        if obj is not None:
            return obj
        if cls is None:
            cls = self._load(self.storage.records[oid][0])[0]
        obj = cls.__new__(cls)
        self._cache.new_ghost(oid, obj)
        return obj

    def add(self, obj):
        """make obj persistent (root object): stored at the next commit"""
        obj._p_oid = self.storage.new_oid()
        obj._p_jar = self
        self._cache[obj._p_oid] = obj
        self.creating[obj._p_oid] = obj
        self.registered.append(obj)
        return obj._p_oid

    # ---- transaction boundaries
    def commit(self, resolve=True):
        """Write the registered objects and everything newly reachable.
        Raises ConflictError; on success returns the set of written oids."""
        st = self.storage
        # read-current check (objects this transaction depends on but does not write)
        writing = {o._p_oid for o in self.registered}
        for oid, serial in self.readcurrent.items():
            if oid in writing:
                continue
            if oid in st.records and st.records[oid][1] != serial:
                self._abort_objects()
                raise ReadConflictError(oid)
        tid = st.new_tid()
        queue = list(self.registered)
        if self.write_order == "fifo":
            pop = lambda: queue.pop(0)       # noqa
        elif self.write_order == "reversed":
            queue.reverse()
            pop = lambda: queue.pop()        # noqa
        else:
            pop = lambda: queue.pop()        # noqa  (ZODB: last in, first out)
        written, staged, seen = [], {}, set()
        self.last_commit_seq = []
        try:
            while queue:
                obj = pop()
                if obj._p_oid in seen:
                    continue
                seen.add(obj._p_oid)
                self.last_commit_seq.append(obj)
                data = self._dump(obj, queue)
                oid = obj._p_oid
                if oid in st.records and oid not in self.creating and st.records[oid][1] != obj._p_serial:
                    if not resolve:
                        raise ConflictError(oid)
                    data = self._resolve(obj, data)
                staged[oid] = data
                written.append(obj)
        except Exception:
            self._abort_objects()
            raise
        for oid, data in staged.items():
            st.records[oid] = (data, tid)
            st.history[(oid, tid)] = data
        for obj in written:
            obj._p_changed = False
            obj._p_serial = tid
        resolved = getattr(self, "_resolved", [])
        for obj in resolved:
            obj._p_invalidate()          # the stored state is the merged one, not ours
        self._resolved = []
        self.registered, self.readcurrent, self.creating = [], {}, {}
        return {o._p_oid for o in written}

    def _resolve(self, obj, newdata):
        st = self.storage
        oid = obj._p_oid
        # one placeholder object per referenced oid for the three states of this resolution, as ZODB's
        # PersistentReferenceFactory does: the C merge compares successor links by identity
        cache = {}
        old = self._plain_state(st.history[(oid, obj._p_serial)], cache)
        committed = self._plain_state(st.records[oid][0], cache)
        new = self._plain_state(newdata, cache)
        meth = getattr(type(obj), "_p_resolveConflict", None)
        if meth is None:
            raise ConflictError(oid)
        fresh = type(obj).__new__(type(obj))
        try:
            merged = fresh._p_resolveConflict(old, committed, new)
        except Exception as e:
            raise ConflictError(oid, repr(e))
        f = io.BytesIO()
        p = pickle.Pickler(f, 3)
        p.persistent_id = lambda o: o.ref if isinstance(o, _Ref) else None
        p.dump((type(obj), merged))
        self._resolved = getattr(self, "_resolved", []) + [obj]
        return f.getvalue()

    def _plain_state(self, data, cache=None):
        """state with persistent references as comparable placeholders (ZODB's PersistentReference)"""
        cache = {} if cache is None else cache
        u = pickle.Unpickler(io.BytesIO(data))

        def load(ref):
            key = repr(ref)
            if key not in cache:
                cache[key] = _Ref(ref)
            return cache[key]
        u.persistent_load = load
        return u.load()[1]

    def _abort_objects(self):
        for obj in self.registered:
            if obj._p_oid in self.creating:
                continue
            obj._p_invalidate()
        for oid, obj in self.creating.items():
            try:
                del self._cache[oid]
            except KeyError:
                pass
            obj._p_jar = None
            obj._p_oid = None
        self.registered, self.readcurrent, self.creating = [], {}, {}

    def abort(self):
        self._abort_objects()

    def minimize(self):
        self._cache.minimize()


class _Ref:
    """placeholder for a persistent reference inside a state being resolved"""

    def __init__(self, ref):
        self.ref = ref

    def __eq__(self, other):
        return isinstance(other, _Ref) and self.ref[0] == other.ref[0]

    def __ne__(self, other):
        return not self == other

    def __hash__(self):
        return hash(self.ref[0])
