"""Regenerates MANIFEST.json from the table below (kept valid at all times)."""
import json, os
VERIF = os.path.dirname(os.path.dirname(os.path.abspath(__file__)))
BASE = "cd /repo && /venv/bin/python -m pytest -ra -q -p no:cacheprovider --timeout=900 --continue-on-collection-errors"

CHECKS = {
 "C19": dict(
   text="Theorems C19_no_lost_update, C19_order_independent, C19_n_way, C19_cell over unbounded Z about a model that harness/translate.py regenerates from src/BTrees/Length.py on every run; the real class is run against the generated model (vm_compute) and against the closed formula. A Length living in a database: change()/set() must register the object, a reader sees the committed value, two connections changing it concurrently end with old + a + b in both commit orders.",
   note="Trusted: Coq kernel, the ~150-line fail-closed translator (grammar in its docstring), CPython integer arithmetic, persistent's pickling protocol. No axioms (Print Assumptions: closed).",
   technique="Coq proof (lia) over a model regenerated from the source by a translator + differential run of class vs model",
   ref="DESIGN.md section 6 C19"),
}
CHECKS.update({
 "C07": dict(
   text="Theorems C07_exact (resolution succeeds iff next links equal, neither side empty, touched key sets disjoint, minimum not raised), C07_result (result = original with both change sets applied, same link, sorted, non-empty), C07_merged_unique, C07_no_invention, C07_refusal (otherwise a conflict, never reason 10, never another outcome), C07_tree_level, proved for all sorted leaf states over Z keys and any value type with decidable equality, about a literal model of bucket_merge/_p_resolveConflict. The model is compared with the C and the Python implementation (results, reason codes and the three cursor positions) on every triple over a small universe and on random larger triples, several families, mappings and sets, tree-level wrappers and malformed states.",
   note="Trusted: Coq kernel; hand-written model Model/Merge.v tied by the correspondence of this run; keys modelled as Z (comparison-only algorithm); value equality assumed decidable and reflexive (no NaN). Print Assumptions: closed.",
   technique="Coq proof (induction on the merge walk) about a hand-written model + exhaustive/random differential correspondence with C and Python, evaluated by vm_compute",
   ref="DESIGN.md section 6 C07"),
 "C10": dict(
   text="Theorems C10_walk (the c1/c12/c2 merge walk over strictly ascending streams yields exactly the selected keys, strictly ascending), C10_adapt (an arbitrary iterable is adapted to a sorted duplicate-free stream with the same elements), C10_union / C10_intersection / C10_difference (mathematical result, kind and values of the first operand kept) and C10_none (None table), for all operands; model compared with C and Python on operand-kind x key-relation grids in many families; operators | & - ^ and in-place forms checked against python set algebra. Operands include one-shot iterators / generators and the keys() / values() views of trees.",
   note="Trusted: Coq kernel; Model/SetOps.v tied by correspondence; keys as Z. The ^ operator is only exercised with a Set/TreeSet on the left (documented API). Plain lists mixing None and ints are not generated (python cannot sort them). Print Assumptions: closed.",
   technique="Coq proof about a hand-written model of set_operation + differential correspondence with C and Python",
   ref="DESIGN.md section 6 C10"),
 "C12": dict(
   text="Theorems C12_wunion_map, C12_winter_map (keys = union/intersection, value = v1*w1+v2*w2 with absent=0 and set member=1, including the operand swap), C12_both_sets (plain set, weight 1 resp. w1+w2), C12_none, and C12_no_overflow (the C flavour, computing in the wrapped value type, equals the exact formula whenever no product or sum leaves the type). Model (with the value type's wrap-around for C) compared with both implementations on all numeric-valued families; overflowing inputs are a separate stream and are recorded as known findings F10a/F10b.",
   note="Trusted: Coq kernel; Model/SetOps.v tied by correspondence; float-valued families exercised only where float32 arithmetic is exact. Print Assumptions: closed.",
   technique="Coq proof about a hand-written model of the weighted merge + differential correspondence with C and Python",
   ref="DESIGN.md section 6 C12"),
})
CHECKS.update({
 "C11": dict(
   text="Theorems C11_radix (the byte-wise LSB-first radix sort with the signed/unsigned most-significant-byte order sorts every list of keys of the type's range), C11_quicksort (the explicit-stack median-of-3 quicksort with insertion sort below 26 sorts and its fuel suffices), C11_uniq, C11_multiunion_c (gather + sort on either side of the 800 switch + uniq = sorted duplicate-free union), C11_multiunion_py and C11_same (C and Python return the same set), for all inputs. The model is compared with C and Python multiunion on all 16 integer-key families, all operand kinds, sizes around 25/800 and beyond, keys over the whole range; the generator is required to reach both sort paths for every key type. Inputs include duplicate-free key sets varying in exactly 2..8 low-order bytes and stored operands that have been evicted from the cache.",
   note="Trusted: Coq kernel; Model/Sort.v tied by correspondence; little-endian two's-complement keys; the insertion sort inside quicksort is modelled functionally (slice sorted in place). Print Assumptions: closed.",
   technique="Coq proofs (radix sort by stable-pass invariant; in-place quicksort by slice invariant) about a hand-written model of sorters.c + differential correspondence",
   ref="DESIGN.md section 6 C11"),
})
CHECKS.update({
 "C18": dict(
   text="Theorems C18_sound and C18_complete: on ARBITRARY stored states (leaves and interior nodes whose next / firstbucket pointers are arbitrary identities), check() and _check() both accept a state if and only if it satisfies the globally stated stored invariant (key order, containment in the intervals promised by the separators, every leaf linked to its in-order successor and every firstbucket = leftmost leaf, uniform child kinds, non-empty nodes) -- so between them the tools have no blind spot for any single or multiple corruption; C18_accepts_api_trees: every tree satisfying the API invariant (C03) is accepted. The model of both checkers is compared with the C and Python implementations on valid trees and 12 classes of single corruptions installed through __setstate__, and with an independent Python statement of the invariant. Valid trees that live in a database with all or some nodes evicted (ghosts) must be accepted too.",
   note="Trusted: Coq kernel; Model/Check.v tied by correspondence; states in which one leaf object is the child of two parents are outside the state type; refcount/len<=size clauses of the C _check are not modelled. Print Assumptions: closed.",
   technique="Coq proof (equivalence of two recursive checkers with a global invariant, nested induction) + differential correspondence on corrupted states",
   ref="DESIGN.md section 6 C18"),
})
CHECKS.update({
 "C02": dict(
   text="Theorems C02_c_range, C02_py_range (keys/values/items with any min/max/excludemin/excludemax = the interval filter on the contents, an exclusive omitted bound dropping only the overall smallest/largest key), C02_c_minmax, C02_py_minmax (minKey/maxKey), C02_c_lazyseq (length and ANY run of index operations of the C lazy sequence, the finger moving right and left, agree with the list), for EVERY tree satisfying the stored invariant (stale separators, single-child roots, one-key leaves), and C02_reachable_wf (API trees satisfy it). Models of the C and of the Python range algorithms compared with both implementations on history-built and __setstate__-installed stale-separator trees: bound pairs from present keys / gaps / outside / None x four flags, index runs, slices, all families.",
   note="Trusted: Coq kernel; Model/Range.v + Model/RTree.v tied by correspondence; positions are (leaf index, offset) in the in-order leaf sequence (PreviousBucket / lastBucket pointer walks abstracted); the slice of a C lazy sequence is compared with the list slice, not modelled separately. Print Assumptions: closed. Four defects found and fixed in /repo (F1-F4).",
   technique="Coq proof over all trees satisfying the stored invariant (hand-written models of both range algorithms) + differential correspondence",
   ref="DESIGN.md section 6 C02"),
 "C13": dict(
   text="Theorems C13_c_int / C13_c_range_arith (the C conversion macros, including their (int)vcopy != vcopy arithmetic, accept exactly ints/bools inside the type's range and store the argument itself), C13_py_int, C13_c_py_agree, over bounds regenerated from _datatypes.py / the macro headers by the translator. The harness offers ~90 candidate values as key and as value through every writing entry point of all 22 families x 4 kinds x 2 implementations and checks rejection-without-modification, exact read-back (floats: single-precision rounding, bit-exact by struct) and absence on lookups.",
   note="Partial: the float32 rounding is checked differentially (struct.pack('f')), not proved in Coq; bytes and object-key acceptance are modelled as boolean predicates only. __setstate__ as an entry point performs no validation in Python and clears before converting in C (design limitation, not exercised). Known finding F8 (Python float values not rounded). Print Assumptions: closed.",
   technique="Coq proof (lia over generated bounds) about hand-written conversion models + exhaustive boundary sweep through all entry points",
   ref="DESIGN.md section 6 C13"),
})
CHECKS.update({
 "C01": dict(
   text="Theorems C01_refines (for every history of the 28 public calls and every node-size setting ml>=1, mi>=2: every return value / KeyError and the final ordered contents of the B+tree model equal those of the reference sorted association list), C01_keys_sorted (keys unique and ascending in every reachable state), C01_raise_preserves (a call raising KeyError leaves the contents unchanged), C01_leaf (Bucket/Set insert/delete = reference insert/remove). The model is compared with the C and the Python implementation on random histories for all 22 families x 4 kinds: every output, final contents AND final shape (separators, leaf boundaries), at node sizes reaching 8 levels. Histories include the container itself as operand of |= &= -= ^= and writes the family rejects (unusable key / value), which must leave the contents untouched.",
   note="Trusted: Coq kernel; Model/RTree.v + Model/TreeRun.v tied by correspondence; keys as Z (order-isomorphic family adapters incl. None-smallest object keys and integer extremes); has_key compared by truth value; update()'s return value not compared; C01_refines assumes that a history using the set-only operator &= stores only the value 0 (true for sets). Print Assumptions: closed.",
   technique="Coq proof of refinement (B+tree model -> sorted association list) by induction over histories and tree structure + differential correspondence incl. shape",
   ref="DESIGN.md section 6 C01"),
 "C03": dict(
   text="Theorems C03_init, C03_step, C03_reachable, C03_set, C03_del: the invariant Inv (no empty node, uniform child kinds and depth, keys strictly ascending, every key and separator inside the interval its ancestors promise, exact separators, leaf size <= max_leaf_size, interior size <= max_internal_size, root < 2*max_internal_size) holds initially and is preserved by every public call, for all node sizes ml>=1, mi>=2; with C18_accepts_api_trees both checkers accept every such tree. The harness checks after EVERY call of random histories: _check(), BTrees.check.check(), an independent walker (chain = descent order, bounds, sizes), and shape equality with the model, class-level and subclass-level size settings. Rejected writes (unusable key or value, in particular into an empty tree) are interleaved and checked the same way (plus contents unchanged, bool agrees with len).",
   note="Trusted: Coq kernel; model tied by per-step shape correspondence. The leaf chain of the model is the in-order leaf sequence by construction: that the implementation's next/firstbucket pointers realise it is checked by the correspondence run, not proved (partial for the pointer clause). Print Assumptions: closed.",
   technique="Coq invariant proof over the B+tree model (insert/split/root split/delete/unlink) + per-step differential correspondence",
   ref="DESIGN.md section 6 C03"),
})
CHECKS.update({
 "C14": dict(
   text="Theorems C14_btree_search and C14_bucket_search (the two binary searches, transcribed literally with their fuel, find the right child / the key or its insertion point on sorted input, and only probe stored keys), C14_probes_are_stored_keys, C14_atomic (an operation is its comparison phase followed by its change: if the n-th comparison raises nothing has been modified). The harness records the sequence of stored keys every lookup/insert/delete compares with and checks it against the model for C and Python, and fails EVERY comparison of every operation kind (lookup, insert, replace, delete, range search, minKey, union/intersection/difference, conflict merge) in turn: exception propagated, contents before-or-after, _check(), check(), chain walk, follow-up calls. Every second injected failure in lookups on trees is a TypeError subclass; after each injection the container is dropped and no key or value object may stay alive (leak detection by live-instance counters).",
   note="Partial: that all comparisons precede all modifications is a property of the code's control flow which the model states by construction (cmp_trace then change); it is tied to the code by the probe-sequence correspondence and the exhaustive failure injection, not by a proof about the C text. Finding F13 (comparison after the change in delete) was repaired. Reference counts on the failure paths belong to C16. Print Assumptions: closed.",
   technique="Coq proof of the literal binary searches + probe-sequence correspondence + exhaustive comparison-failure injection",
   ref="DESIGN.md section 6 C14"),
})
CHECKS.update({
 "C15": dict(
   text="Theorems C15_next_total / C15_iteration_never_oob (on a leaf store mutated ARBITRARILY between steps -- leaves shrunk, emptied, unlinked but kept alive by the iterator's reference -- every step of the C iterator yields an element of the leaf it is parked on, ends the iteration or raises RuntimeError; it never reads outside a vector or through a dead pointer) and C15_seek_in_bounds (the lazy sequence reads an entry only after validating the computed position against the leaf's current size). The harness runs interleavings of iterator steps / indexings with inserts, deletes, pop-min until leaves are emptied and unlinked, clear, on all four kinds, C and Python, in a child process: allowed outcome per step, final contents, _check(), check(); a crash is a failure. Sources include range sequences starting deep inside a leaf with targeted deletes below the range start; steps include len, bool, iteration and indexing of stale sequences.",
   note="Partial: real memory safety of the C process is runtime behaviour the model cannot exhibit; the model states the bounds discipline of BTreeIter_next / BTreeItems_seek and the harness observes crashes. The Python generator-based iteration is covered by the harness only. Print Assumptions: closed.",
   technique="Coq proof of the iterator's bounds discipline on arbitrarily mutated stores + interleaving exploration in a sacrificial child process",
   ref="DESIGN.md section 6 C15"),
})
CHECKS.update({
 "C04": dict(
   text="Theorems (all under the guard that only the ROOT holds a single leaf without oid): C04_footprint_set_partial / C04_footprint_del_partial (every stored object whose record would differ after an insert / delete was marked changed by that operation -- each modification is announced), C04_commit_partial (a commit that dumps, in ANY order, every registered object and every object that received an oid brings every record up to date), C04_reader_partial (a fresh reader of up-to-date records sees precisely the writer's contents, by descent and along the leaf chain, in a state satisfying the stored invariant), C04_run_partial (the run-level statement: for EVERY history of public calls and commits, commits anywhere and in any complete dump order, during which the guard holds, a fresh reader after a final commit sees exactly the writer's contents in a sound tree; both implementations' switches, all node sizes), and C04_refuted (without the guard the statement is false: witness tree and dump order, the reader gets two copies of a leaf -- finding F16). The model (events -> registration, getstate with the embedding rule, order-dependent commit, reader) is compared with C and Python through a data manager: registered and read-current sets after every call, the dump sequence, the reader's view after every commit (the model predicts the F16 corruption exactly when it happens), aborts; the hypotheses of the theorems are evaluated as boolean checks on every real step / commit. After a third of the commits the cache drops every object (the writer continues with ghosts); two targeted patterns (grow-commit-shrink-to-one-leaf-commit-touch; a bucket unlinked in the transaction still pointing at the leaf the root embeds) run in every tier.",
   note="Partial: guard no_embed_below (F16 is a recorded finding of both implementations); the run-level theorem's commits write tree nodes only -- a real commit also writes registered objects that left the tree, and when one still references the leaf embedded in the root the hypothesis on the dump sequence is false and an update is lost (finding F33, recorded); harness/minijar.py stands in for ZODB's connection (three dump orders); the run-level theorem covers all calls except the bulk forms (update, |=, &=, -=, ^=: folds of single inserts/deletes in the model, whose intermediate states would need the guard too); abort is modelled as restoring the last committed tree. Print Assumptions: closed.",
   technique="Coq proofs about a hand-written persistence model (write footprint, order-independent commit under a guard, reader reconstruction, refutation witness) + differential correspondence through a mini data manager",
   ref="DESIGN.md section 6 C04"),
 "C16": dict(
   text="Theorems C16_owned (after ANY history of leaf operations -- insert, replace, delete, clear, pop, minKey, release by the caller -- the net references the extension took on every object equal the key slots + value slots holding it + the references handed to the caller), C16_released, C16_never_freed_while_stored, about a model with INCREF/DECREF where BucketTemplate.c / SetTemplate.c have them. The harness compares sys.getrefcount deltas of probe objects with the model after leaf histories, and, for trees, after EVERY call of histories (error paths, failing comparisons, pop/popitem/setdefault/update, set algebra, merges, pickling, eviction, destruction) with the number of leaf slots and node-key slots holding each probe. Three targeted scenarios: entries around an iterator's cursor deleted before next() (yielded objects must still be stored); every pair of edits through _p_resolveConflict, all refusal reasons, with a reference audit after everything is dropped; reference counts of all NODE objects across every read-only query (all bound pairs x exclusion flags).",
   note="Partial: the Coq model covers the leaf; interior node keys (index >= 1 owns a reference) are checked by the harness oracle only; reads or writes outside allocated memory are not observable without a sanitizer build (crashes are). F11 (Set.pop/TreeSet.pop leak) found and fixed. Print Assumptions: closed.",
   technique="Coq proof of an ownership invariant over an INCREF/DECREF model + per-call reference-count differential check",
   ref="DESIGN.md section 6 C16"),
 "C17": dict(
   text="Theorems C17_grow, C17_insert, C17_inserts, C17_resize: in a block-heap model where a successful realloc always releases the old block, for EVERY placement of the failing allocation request, Bucket_grow / an insert / any number of inserts from the empty bucket / the realloc pair of __setstate__ and fromBytes end in a state where no field refers to a released block, the two vectors are distinct live blocks, nothing leaks, and the length is the previous one (MemoryError) or the new one. The harness counts the allocations of every allocating operation with the BTREES_VERIF hook and fails each one in turn (insert, splits, root split, update, setstate, set operations, multiunion, merge, fromBytes, pickling) in a child process under MALLOC_CHECK_/MALLOC_PERTURB_: MemoryError, contents before-or-after, _check(), follow-up workload, destruction; no stored object's reference count may drop; a fixed grid (first insert into every kind, leaf split, interior and root split, __setstate__ on empty / small / full containers) runs in every tier; allocation counts of n inserts are compared with the model.",
   note="Partial: the model covers the bucket vectors (the sites of finding F14, repaired); BTree_grow/BTree_split/_BTree_setstate are exercised by the harness only; allocations made by CPython itself are outside the hook; __setstate__ losing the previous contents on MemoryError is recorded as F26. Print Assumptions: closed.",
   technique="Coq proof over an explicit block heap with failing allocation oracle + exhaustive allocation-failure injection through a guarded hook",
   ref="DESIGN.md section 6 C17"),
})
CHECKS.update({
 "C05": dict(
   text="Theorems C05_sync_set_partial / C05_sync_del_partial: after every insert and every delete (any tree satisfying the invariant, any node sizes, under the C04 guard) every stored node that the operation did not mark changed still EQUALS its record -- so evicting any set of unchanged nodes between operations and reloading them from their records is the identity, and with C04_reader_partial the whole tree can be dropped and reloaded at any commit point. The part of the property that lives in the run time -- pins (sticky state) while an operation runs, cache sweeps from INSIDE key comparisons, failing operations leaving nothing pinned -- is decided by the harness: histories on stored containers of all families with sweeps / single-node deactivations between calls; object-keyed containers whose comparison sweeps the cache on every comparison, compared with an un-swept twin; after every call (also failing ones: bad key, missing key, unusable bound) no node is sticky and every stored unchanged node is evictable. Module-level set algebra and multiunion are run on stored operands that have been evicted.",
   note="Partial: the model has no notion of a pin; pin discipline and sweeps inside comparisons are exercised, not proved (runtime behaviour of cPersistence the model cannot exhibit). Guard no_embed_below as in C04 (finding F16). Findings F12 and F25 (C) found and fixed; F24 (pure Python has no pin protection at all) is a recorded finding. harness/minijar.py + persistent.PickleCache stand in for ZODB. Print Assumptions: closed.",
   technique="Coq proof that unchanged stored nodes stay equal to their records (eviction = identity between operations) + eviction-schedule exploration incl. sweeps inside comparisons and pin checks after failing calls",
   ref="DESIGN.md section 6 C05"),
 "C08": dict(
   text="Theorems C08_writes_declare_reads_set / _del (every insert and every delete -- also one that ends in KeyError -- declares EVERY interior node it descended through as a read dependency, for all trees and keys), C08_reads_declare_nothing (lookups, len, bool, keys, items, isdisjoint emit no event and change nothing), C08_leaf_outcome / C08_leaf_outcome_serial (for a container that is one leaf -- Bucket, Set, embedded tree -- the second commit conflicts or stores the original with both disjoint change sets applied, nothing else; with one side unchanged it is the other side's state); together with the write footprint of C04 and the exact leaf merge of C07 these are the facts optimistic concurrency control relies on. The OUTCOME clause (the second commit conflicts, or the stored tree is sound and its contents are the serial result or the merge of two disjoint change sets) is decided by the harness: random committed base trees of all families and both implementations at node sizes (2,2)..defaults, two transactions of 1..3 operations (insert / delete / replace / clear) on separate connections, both commit orders with conflict resolution, a third connection reads the result and checks _check(), the independent walker and the contents; the read-dependency declarations of every write and of pure reads are checked against the connection.",
   note="Partial: for multi-node trees the protocol-level outcome statement is checked on explored schedules, not proved (the composition footprint + merge + read-current => serializable-or-merged is not a theorem here). harness/minijar.py implements ZODB's commit protocol (read-current check, per-object resolution with placeholders for references). Base trees already unsound after their own commit (finding F16 of C04) are skipped. Print Assumptions: closed.",
   technique="Coq proofs of the read-dependency footprint of writes and of the silence of reads + two-connection commit-schedule exploration with conflict resolution",
   ref="DESIGN.md section 6 C08"),
 "C09": dict(
   text="Both implementations are tied to ONE Coq model whose only differences are explicit switches (isC / vsame / iand_rebuilds). Theorems: C09_results_equal (for every history, every node-size setting, the two settings of the switches give the same results and the same final contents), C09_shape_equal (for every history without the set operator &=, the resulting trees are IDENTICAL -- separators, leaf boundaries, node identities -- hence equal serialized state), C09_conversions_agree (the C and the Python integer conversion accept the same values, except objects that merely define __index__). The harness runs one history on the C and on the Python class of all 22 families x 4 kinds side by side, interleaving calls whose key or value lies OUTSIDE the family's domain (out-of-range ints, wrong types, None, floats, bools, default-comparison objects, unhashable values): equal result, same exception class, equal contents, equal shape, byte-identical pickle after every call. Also: keys that cannot be ordered against the stored ones, and probes at the edges of each family's key and value domain (then restored).",
   note="Partial: exception classes and out-of-domain arguments are outside the Coq model (differential only). Recorded divergences: F17 (&= leaves different shapes), F27 (fs pickles differ by a memo reference), F28 (exception classes on an empty container), F29 (setdefault with an unusable value on an existing key), F31 (unorderable key: Bucket.get / discard); F30, F32 fixed. byValue, error texts and update()'s return value are excluded by the property. Print Assumptions: closed.",
   technique="Coq proof that the model's C/Python switches do not influence results, contents or shape + paired differential execution incl. out-of-domain arguments",
   ref="DESIGN.md section 6 C09"),
})
CHECKS.update({
 "C06": dict(
   text="Theorems C06_pickle_roundtrip_partial (for EVERY tree satisfying the invariant in which only the root may hold a single leaf child: the object graph that pickle / deepcopy writes -- every object once, with the state __getstate__ returns, a single leaf child embedded in its parent's state -- is rebuilt by the reader into a container with the same ordered contents, by descent and along the leaf chain, that satisfies the stored invariant both checkers decide (C18)), C06_refuted (without the guard the statement is false: witness tree whose copy fails _check -- finding F16c, both implementations). Correspondence: for every generated history the records the model writes (dump_all []) are compared, object by object in pre-order, with what __getstate__ of the C and of the Python container returns (items, next links, separators, firstbucket, embedded form). Differential part: __getstate__/__setstate__, pickle protocols 0..5, copy and deepcopy in C and Python on all 22 families x 4 kinds; byte comparison C vs Python for every protocol; C pickles loaded in a pure-Python process (PURE_PYTHON=1) and its pickles compared byte-wise with the C ones; every reproduced container is checked for contents, _check(), the independent walker, and replays follow-up calls like the original. Further: __setstate__ on objects in use (a leaf with a successor, a populated tree); keys/values of a convertible but different Python type (bool, int for float) must be stored as the family's type in both implementations (typed comparison of states, pickles, type stability across pickle and deepcopy); containers living in a database have equal states in C and Python after every commit.",
   note="Partial: the byte level of pickle is CPython's (the model covers the state values); guard no_embed_below (F16c is a recorded finding); F27 (fs pickles differ by a memo back-reference) recorded; F18, F19 (copy.copy of pure-Python trees) found and fixed. Print Assumptions: closed.",
   technique="Coq proof (reader reconstruction of the pickled object graph, refutation witness) + object-graph correspondence with __getstate__ + differential pickle/copy/cross-implementation loading",
   ref="DESIGN.md section 6 C06"),
})
NOT_YET = {}

def main():
    props = [json.loads(l) for l in open(os.path.join(VERIF, "properties.jsonl"))]
    checks, na = [], []
    for p in props:
        i = p["id"]
        if i in CHECKS:
            c = CHECKS[i]
            checks.append({
                "property_id": i,
                "quick_cmd": "./check %s --tier quick" % i,
                "thorough_cmd": "./check %s --tier thorough" % i,
                "evidence_file": "evidence/%s.json" % i,
                "replay_cmd_template": "./check %s --replay {path}" % i,
                "engine": "coq-model+correspondence",
                "level_claimed": {"category": "proof", "text": c["text"], "design_ref": c["ref"]},
                "level_note": c["note"],
                "technique": c["technique"],
            })
        else:
            na.append({"property_id": i, "reason": NOT_YET.get(i, "not claimed yet: model and theorems for this property are still being built (see DESIGN.md section 10); no check is registered until they exist")})
    m = {
        "version": 1,
        "setup_cmd": "./check setup",
        "hooks": {"guard": "BTREES_VERIF", "enable": "checks compile a scratch copy of /repo's working tree with gcc -DBTREES_VERIF=1 (harness/impl.py); setup.py passes the define only when BTREES_VERIF=1 is in the environment",
                  "baseline_off_cmd": "cd /repo && env -u BTREES_VERIF /venv/bin/python -m pytest -ra -q -p no:cacheprovider --timeout=900 --continue-on-collection-errors",
                  "source_commits": ["30bb2f0"], "add_only": True},
        "engines": [{"name": "coq-model+correspondence", "path": "coq/ harness/", "serves_properties": sorted(CHECKS),
                     "kind_free_text": "Coq 8.16.1 theorems about executable Gallina models; models tied to /repo's working tree by a translator (C19) or by a differential correspondence check evaluated with vm_compute"}],
        "checks": checks,
        "notes": "See DESIGN.md. known_findings.json lists recorded/fixed genuine defects.",
        "not_applicable": na,
    }
    json.dump(m, open(os.path.join(VERIF, "MANIFEST.json"), "w"), indent=1)

if __name__ == "__main__":
    main()
