"""Regenerates MANIFEST.json from the table below (kept valid at all times)."""
import json, os
VERIF = os.path.dirname(os.path.dirname(os.path.abspath(__file__)))
BASE = "cd /repo && /venv/bin/python -m pytest -ra -q -p no:cacheprovider --timeout=900 --continue-on-collection-errors"

CHECKS = {
 "C19": dict(
   text="Theorems C19_no_lost_update, C19_order_independent, C19_n_way, C19_cell over unbounded Z about a model that harness/translate.py regenerates from src/BTrees/Length.py on every run; the real class is run against the generated model (vm_compute) and against the closed formula.",
   note="Trusted: Coq kernel, the ~150-line fail-closed translator (grammar in its docstring), CPython integer arithmetic, persistent's pickling protocol. No axioms (Print Assumptions: closed).",
   technique="Coq proof (lia) over a model regenerated from the source by a translator + differential run of class vs model",
   ref="DESIGN.md section 6 C19"),
}
NOT_YET = {}

def main():
    props = [json.loads(l) for l in open(os.path.join(VERIF, "properties.jsonl"))]
    checks, na = [], []
    for p in props:
        i = p["id"]
        if i in CHECKS:
            c = CHECKS[i]
            checks.append({
                "property_id": i,
                "quick_cmd": "./check %s --tier quick" % i,
                "thorough_cmd": "./check %s --tier thorough" % i,
                "evidence_file": "evidence/%s.json" % i,
                "replay_cmd_template": "./check %s --replay {path}" % i,
                "engine": "coq-model+correspondence",
                "level_claimed": {"category": "proof", "text": c["text"], "design_ref": c["ref"]},
                "level_note": c["note"],
                "technique": c["technique"],
            })
        else:
            na.append({"property_id": i, "reason": NOT_YET.get(i, "not claimed yet: model and theorems for this property are still being built (see DESIGN.md section 10); no check is registered until they exist")})
    m = {
        "version": 1,
        "setup_cmd": "./check setup",
        "hooks": {"guard": "BTREES_VERIF", "enable": "checks compile a scratch copy of /repo's working tree with gcc -DBTREES_VERIF=1 (harness/impl.py); setup.py passes the define only when BTREES_VERIF=1 is in the environment",
                  "baseline_off_cmd": "cd /repo && env -u BTREES_VERIF /venv/bin/python -m pytest -ra -q -p no:cacheprovider --timeout=900 --continue-on-collection-errors",
                  "source_commits": [], "add_only": True},
        "engines": [{"name": "coq-model+correspondence", "path": "coq/ harness/", "serves_properties": sorted(CHECKS),
                     "kind_free_text": "Coq 8.16.1 theorems about executable Gallina models; models tied to /repo's working tree by a translator (C19) or by a differential correspondence check evaluated with vm_compute"}],
        "checks": checks,
        "notes": "See DESIGN.md. known_findings.json lists recorded/fixed genuine defects.",
        "not_applicable": na,
    }
    json.dump(m, open(os.path.join(VERIF, "MANIFEST.json"), "w"), indent=1)

if __name__ == "__main__":
    main()
