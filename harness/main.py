"""./check <Cnn> [--tier quick|thorough] [--replay file]

One run = build the implementation from /repo's working tree, regenerate the
generated Coq files, check the property's proof obligations, run its
correspondence (model vs implementation) and its direct oracle (search for a
failing input), write evidence/<id>.json, print VIOLATION / KNOWN-FINDING
lines, exit 0/1.
"""
import argparse
import importlib
import json
import os
import random
import sys
import time
import traceback

VERIF = os.path.dirname(os.path.dirname(os.path.abspath(__file__)))
sys.path.insert(0, VERIF)

from harness import coqtools, impl, translate  # noqa: E402

REPO = impl.REPO


class Ctx:
    def __init__(self, prop, tier, seed):
        self.prop = prop
        self.tier = tier
        self.seed = seed
        self.rng = random.Random(seed)
        self.t0 = time.time()
        self.impl_dir = None
        self.obligations = []      # (theorem, ok, axioms)
        self.obligation_log = ""
        self.corr_fail = []        # [(name, detail)]  model/impl disagreements
        self.oracle_fail = []      # [(signature, what, replay_obj)]
        self._sigs = set()
        self.broken = []           # [(name, detail)]  proof obligations / translator
        self.evaluations = 0
        self.distinct = set()
        self.samples = []
        self.cov = {}
        self.assumptions = []
        self.rule = ""
        self.traces = 0

    # -- reporting API used by property modules
    def count(self, key=None, nontrivial=True):
        self.evaluations += 1
        if key is not None and nontrivial:
            if len(self.distinct) < 2_000_000:
                self.distinct.add(hash(key))

    def progress(self, obj):
        """remember the case that is about to run (reported if the implementation kills the process)"""
        try:
            with open(os.path.join(VERIF, "replay", "%s_last.json" % self.prop), "w") as f:
                json.dump(obj, f, default=repr)
        except Exception:  # noqa
            pass

    def sample(self, obj, limit=6):
        if len(self.samples) < limit:
            self.samples.append(obj)

    def corr_mismatch(self, name, detail):
        if len(self.corr_fail) < 20:
            self.corr_fail.append((name, detail))

    def oracle_failure(self, signature, what, replay):
        # one entry per distinct signature (so that a frequent known finding cannot hide another failure)
        self.oracle_fail_count = getattr(self, "oracle_fail_count", 0) + 1
        if signature not in self._sigs and len(self._sigs) < 300:
            self._sigs.add(signature)
            self.oracle_fail.append((signature, what, replay))

    def obligation_broken(self, name, detail):
        self.broken.append((name, detail))

    def quick(self):
        return self.tier == "quick"

    def n(self, quick, thorough):
        return quick if self.tier == "quick" else thorough


def load_known():
    p = os.path.join(VERIF, "known_findings.json")
    if not os.path.exists(p):
        return []
    return json.load(open(p)).get("findings", [])


def check_obligations(ctx, mod):
    """Build Props/<id>.vo and read Print Assumptions."""
    rel = mod.PROPS_FILE
    # forbidden constructs in every file this property's theorems and models depend on
    files = set(coqtools.closure(rel))
    for m in getattr(mod, "MODEL_FILES", []):
        files |= set(coqtools.closure(m))
    bad = coqtools.grep_gate(sorted(files))
    if bad:
        ctx.obligation_broken("grep-gate", "\n".join(bad[:20]))
    models = [m + "o" for m in getattr(mod, "MODEL_FILES", [])]
    if models:
        okm, logm = coqtools.make(["Model/CaseUtil.vo"] + models)
        if not okm:
            ctx.corr_mismatch("model files do not build", logm[-3000:])
    ok, log = coqtools.make([rel + "o"])
    ctx.obligation_log = log[-6000:]
    names = coqtools.declared_theorems(rel)
    if not ok:
        for n in names or ["<build>"]:
            ctx.obligations.append((n, False, []))
        ctx.obligation_broken("build " + rel, log[-3000:])
        return
    ok2, res, log2 = coqtools.theorems_and_assumptions(rel)
    if not ok2:
        ctx.obligation_broken("coqc " + rel, log2[-3000:])
        for n in names:
            ctx.obligations.append((n, False, []))
        return
    printed = dict(res)
    for n in names:
        if n not in printed:
            ctx.obligations.append((n, False, []))
            ctx.obligation_broken(n, "no Print Assumptions for theorem")
            continue
        ax = printed[n]
        extra = [a for a in ax if a not in coqtools.ALLOWED_AXIOMS]
        ctx.obligations.append((n, not extra, ax))
        if extra:
            ctx.obligation_broken(n, "depends on axioms outside the trusted base: %s" % extra)


def regenerate(ctx):
    """Translator: Length.py -> Gen/LengthGen.v ; tables -> Gen/TablesGen.v."""
    errs = {}
    try:
        src = open(os.path.join(REPO, "src/BTrees/Length.py")).read()
        text = translate.translate_length(src)
    except (translate.Unsupported, SyntaxError, OSError) as e:
        errs["LengthGen"] = "%s: %s" % (type(e).__name__, e)
        text = "(* translator refused: %s *)\nFail Definition refused := 0.\nDefinition translator_refused_Length_py : True := I I.\n" % str(e).replace("*)", "* )")
    translate.write_if_changed(os.path.join(coqtools.COQ, "Gen/LengthGen.v"), text)
    try:
        text = translate.translate_tables(REPO)
    except (translate.Unsupported, SyntaxError, OSError) as e:
        errs["TablesGen"] = "%s: %s" % (type(e).__name__, e)
        text = "(* translator refused: %s *)\nDefinition translator_refused_tables : True := I I.\n" % str(e).replace("*)", "* )")
    translate.write_if_changed(os.path.join(coqtools.COQ, "Gen/TablesGen.v"), text)
    return errs


def main(argv=None):
    ap = argparse.ArgumentParser()
    ap.add_argument("prop")
    ap.add_argument("--tier", default=os.environ.get("VERIF_TIER") or "quick",
                    choices=["quick", "thorough"])
    ap.add_argument("--replay")
    ap.add_argument("--setup", action="store_true")
    ap.add_argument("--crashed", type=int, default=None, help=argparse.SUPPRESS)
    args = ap.parse_args(argv)
    seed = int(os.environ.get("VERIF_SEED") or 20260930)

    if args.prop == "setup":
        return setup()

    prop = args.prop.upper()
    # 1. implementation under test
    build_err = None
    try:
        impl_dir = impl.build()
    except impl.BuildError as e:
        impl_dir, build_err = None, str(e)
    want = (impl_dir or "") + os.pathsep + VERIF
    if impl_dir and os.environ.get("VERIF_REEXEC") != impl_dir:
        env = dict(os.environ)
        env.update(PYTHONPATH=want, PYTHONHASHSEED="0", VERIF_REEXEC=impl_dir,
                   PYTHONDONTWRITEBYTECODE="1")
        # the implementation runs in a child: if it takes the process down (segfault, abort)
        # that is reported as a violation with the case that was running as the replay
        import subprocess
        cmd = [sys.executable, os.path.abspath(__file__)] + sys.argv[1:]
        # a check that does not come back (the implementation loops for ever) is a violation too
        limit = float(os.environ.get("VERIF_TIMEOUT") or (900 if args.tier == "quick" else 6 * 3600))
        try:
            rc = subprocess.call(cmd, env=env, timeout=None if args.replay else limit)
        except subprocess.TimeoutExpired:
            rc = 124
        if rc in (0, 1) or args.replay:
            return rc
        rc2 = subprocess.call(cmd + ["--crashed", str(rc)], env=env)
        if rc2 not in (0, 1):
            path = os.path.join(VERIF, "replay", "%s_crash.json" % prop)
            json.dump({"property": prop, "what": "the check process died (exit status %d) and so did the reporting pass (%d)" % (rc, rc2)}, open(path, "w"))
            print("VIOLATION property=%s replay=%s" % (prop, path))
            return 1
        return rc2

    ctx = Ctx(prop, args.tier, seed)
    ctx.impl_dir = impl_dir
    mod = importlib.import_module("harness.props." + prop.lower())
    os.makedirs(os.path.join(VERIF, "evidence"), exist_ok=True)
    os.makedirs(os.path.join(VERIF, "replay"), exist_ok=True)
    last_case = None
    if args.crashed is not None:
        try:
            last_case = json.load(open(os.path.join(VERIF, "replay", "%s_last.json" % prop)))
        except Exception:  # noqa
            last_case = None
    if not args.replay:
        import glob
        for old in glob.glob(os.path.join(VERIF, "replay", "%s_*.json" % prop)):
            os.remove(old)

    if build_err is not None:
        ctx.obligation_broken("build of /repo working tree", build_err[-4000:])
        return finish(ctx, mod)

    if args.replay:
        data = json.load(open(args.replay))
        rc = mod.replay(ctx, data)
        if rc:
            return rc
        # generic replay: every random choice derives from the seed, so re-running the harness with the seed
        # and tier recorded in the file reproduces the failure if the code still has it
        sig = data.get("signature")
        if sig is None or "seed" not in data:
            return rc
        print("re-running %s with seed %s, tier %s, looking for signature %r ..." % (prop, data["seed"], data.get("tier", "quick"), sig))
        ctx2 = Ctx(prop, data.get("tier", "quick"), int(data["seed"]))
        ctx2.impl_dir = impl_dir
        ctx2.gen_errs = regenerate(ctx2)
        try:
            mod.run(ctx2)
        except Exception:
            print(traceback.format_exc()[-1500:])
            return 1
        hit = [w for s_, w, _ in ctx2.oracle_fail if s_ == sig]
        if hit:
            print("REPRODUCED: " + hit[0][:600])
            return 1
        print("not reproduced: the signature does not occur any more")
        return 0

    # 2. generated files, 3. proof obligations
    gen_errs = regenerate(ctx)
    ctx.gen_errs = gen_errs
    for k, v in gen_errs.items():
        if k in getattr(mod, "GENERATED", ()):
            ctx.obligation_broken("translator " + k, v)
    check_obligations(ctx, mod)
    # 4. correspondence + oracle
    if args.crashed is not None:
        rc0 = args.crashed
        how = "signal %d" % (-rc0 if rc0 < 0 else rc0 - 128) if (rc0 < 0 or rc0 > 128) else "exit status %d" % rc0
        if rc0 == 124:
            ctx.oracle_failure("did-not-terminate", "the check did not finish within its time limit (the implementation does not return, or is orders of magnitude slower than on the unchanged tree); the case that was running is the replay",
                               {"exit_status": rc0, "last_case": last_case})
            return finish(ctx, mod)
        ctx.oracle_failure("process-died", "the process running the implementation died (%s) while the check was driving it; the case that was running is the replay" % how,
                           {"exit_status": rc0, "last_case": last_case})
        return finish(ctx, mod)
    try:
        mod.run(ctx)
    except Exception:
        ctx.obligation_broken("harness exception", traceback.format_exc()[-4000:])
    return finish(ctx, mod)


def finish(ctx, mod):
    known = [k for k in load_known() if ctx.prop in [k.get("property")] + list(k.get("also_properties", []))]
    open_known = {}
    for k in known:
        if k.get("status") == "open":
            for sg in ([k["signature"]] if "signature" in k else []) + list(k.get("signatures", [])):
                open_known[sg] = k
    lines = []
    rc = 0
    seen_known = set()
    seen_ids = set()
    unlisted = []
    for sig, what, replay in ctx.oracle_fail:
        if sig in open_known:
            if sig not in seen_known:
                seen_known.add(sig)
                if open_known[sig]["id"] not in seen_ids:
                    seen_ids.add(open_known[sig]["id"])
                    lines.append("KNOWN-FINDING: property=%s %s [%s]" % (ctx.prop, open_known[sig]["what"], open_known[sig]["id"]))
        else:
            unlisted.append((sig, what, replay))
    nviol = 0
    if unlisted:
        by_sig = {}
        for sig, what, replay in unlisted:
            by_sig.setdefault(sig, (what, replay))
        for i, (sig, (what, replay)) in enumerate(sorted(by_sig.items())):
            path = os.path.join(VERIF, "replay", "%s_%d.json" % (ctx.prop, i))
            json.dump({"property": ctx.prop, "signature": sig, "what": what,
                       "replay": replay, "seed": ctx.seed, "tier": ctx.tier,
                       "broken_obligations": ctx.broken[:5],
                       "correspondence": ctx.corr_fail[:5]},
                      open(path, "w"), indent=1, default=repr)
            lines.append("VIOLATION property=%s replay=%s" % (ctx.prop, path))
            nviol += 1
        rc = 1
    elif ctx.broken or ctx.corr_fail:
        path = os.path.join(VERIF, "replay", "%s_unproved.json" % ctx.prop)
        json.dump({"property": ctx.prop,
                   "what": "proof obligation or correspondence no longer checks; "
                           "the search found no failing input",
                   "broken_obligations": ctx.broken[:10],
                   "correspondence": ctx.corr_fail[:10],
                   "seed": ctx.seed, "tier": ctx.tier},
                  open(path, "w"), indent=1, default=repr)
        lines.append("VIOLATION property=%s replay=%s no-failing-input-found" % (ctx.prop, path))
        nviol += 1
        rc = 1
    write_evidence(ctx, mod, nviol, sorted(seen_known))
    for l in lines:
        print(l)
    nob = len(ctx.obligations)
    print("%s tier=%s obligations=%d/%d evaluations=%d distinct=%d corr_mismatch=%d oracle_fail=%d wall=%.1fs rc=%d" % (
        ctx.prop, ctx.tier, sum(1 for o in ctx.obligations if o[1]), nob, ctx.evaluations,
        len(ctx.distinct), len(ctx.corr_fail), len(ctx.oracle_fail), time.time() - ctx.t0, rc))
    if rc and os.environ.get("VERIF_VERBOSE"):
        print(json.dumps({"broken": ctx.broken, "corr": ctx.corr_fail}, indent=1, default=repr)[:6000])
    sys.stdout.flush()
    return rc


TRUSTED = [
    "Coq 8.16.1 kernel (coqc, full .vo build; vm_compute used for finite sweeps and witnesses; native_compute not used)",
    "no axioms declared; per-theorem Print Assumptions output listed under 'axioms' (only the float theorems of C13 depend on axioms: the standard library's real-number and classical axioms, through Flocq)",
    "hand-written Gallina models under coq/Model tied to the code by the correspondence check of this run (vm_compute inside coqc; no extraction)",
    "harness: generators, canonicalisation, harness/minijar.py standing in for a ZODB connection, CPython 3.12, persistent 6.8, pickle",
    "build of the implementation: gcc -O1 of /repo working tree copy with -DBTREES_VERIF=1",
]


def write_evidence(ctx, mod, nviol, known_seen):
    nob = len(ctx.obligations)
    cov = {
        "obligations": max(nob, 0),
        "discharged": sum(1 for o in ctx.obligations if o[1]),
        "checker_cmd": "cd /verif/coq && make -f Makefile.coq %so && coqc -Q . BT %s  (Print Assumptions)" % (mod.PROPS_FILE, mod.PROPS_FILE),
        "trusted_base": TRUSTED + list(getattr(mod, "TRUSTED_EXTRA", [])),
        "theorems": [{"name": n, "checked": ok, "axioms": ax} for n, ok, ax in ctx.obligations],
        "evaluations": ctx.evaluations,
        "distinct_nontrivial": len(ctx.distinct),
        "rule": ctx.rule or getattr(mod, "RULE", ""),
        "samples": ctx.samples or ["<none>"],
        "traces_validated_against_impl": ctx.traces or ctx.evaluations,
        "correspondence_mismatches": len(ctx.corr_fail),
        "oracle_failures": len(ctx.oracle_fail),
        "known_findings_seen": known_seen,
        "broken_obligations": [b[0] for b in ctx.broken],
    }
    cov.update(ctx.cov)
    ev = {
        "property_id": ctx.prop, "tier": ctx.tier, "seed": ctx.seed, "level": "proof",
        "coverage": cov,
        "assumptions": list(getattr(mod, "ASSUMPTIONS", [])) + ctx.assumptions,
        "wall_s": round(time.time() - ctx.t0, 2),
        "violations": nviol,
    }
    p = os.path.join(VERIF, "evidence", "%s.json" % ctx.prop)
    with open(p, "w") as f:
        json.dump(ev, f, indent=1, default=repr)


def setup():
    """MANIFEST.setup_cmd: build the implementation copy and the Coq files of
    every registered check (files of properties still under construction are
    not part of the claim and are not built here)."""
    t0 = time.time()
    impl.build()

    class _C:
        pass
    regenerate(_C())
    man = json.load(open(os.path.join(VERIF, "MANIFEST.json")))
    targets = ["Model/CaseUtil.vo"]
    for c in man["checks"]:
        mod = importlib.import_module("harness.props." + c["property_id"].lower())
        targets.append(mod.PROPS_FILE + "o")
        targets += [m + "o" for m in getattr(mod, "MODEL_FILES", [])]
    ok, log = coqtools.make(sorted(set(targets)), timeout=3000)
    print(log[-3000:])
    print("setup: coq build ok=%s in %.0fs (%d targets)" % (ok, time.time() - t0, len(set(targets))))
    return 0 if ok else 1


if __name__ == "__main__":
    sys.exit(main())
