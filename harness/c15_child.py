"""Child of the C15 check: interleaves iterator steps / sequence indexing with
mutations.  One JSON job per stdin line, one JSON result per line; a dead
child = crash of the job that was running."""
import json
import sys

sys.path.insert(0, "/verif")
from harness.families import fam, sizes  # noqa: E402


def main():
    for line in sys.stdin:
        job = json.loads(line)
        f = fam(job["family"])
        impl, kind = job["impl"], job["kind"]
        cls = f.cls(kind, impl)
        setlike = kind in ("Set", "TreeSet")
        km, vm = f.keymap("int" if f.kk == "O" else None), f.valmap()
        print(json.dumps({"start": job["id"]})); sys.stdout.flush()
        with sizes([f.cls("BTree", impl), f.cls("TreeSet", impl)], *job["sizes"]):
            t = cls()
            ref = {}
            for k in job.get("order") or job["keys"]:
                if setlike:
                    t.add(km.k(k))
                else:
                    t[km.k(k)] = vm.v(k % 4)
                ref[k] = k % 4
            src = job["source"]
            it = seq = None
            if src == "iter":
                it = iter(t)
            elif src == "iteritems":
                it = t.iteritems() if not setlike else iter(t)
            elif src == "iterkeys-range":
                if not job["keys"]:
                    it = iter(t)
                elif setlike:
                    it = iter(t.keys(km.k(job["keys"][0])))
                else:
                    it = t.iterkeys(km.k(job["keys"][0]))
            elif src == "keys":
                seq = t.keys()
            elif src == "items":
                seq = t.items() if not setlike else t.keys()
            elif src == "values":
                seq = t.values() if not setlike else t.keys()
            elif src in ("keys-range", "items-range"):
                # a sequence over a key range that starts and ends INSIDE leaves
                ks = sorted(job["keys"])
                lo, hi = (ks[job["range"][0]], ks[job["range"][1]]) if ks else (0, 0)
                seq = (t.items if (src == "items-range" and not setlike) else t.keys)(km.k(lo), km.k(hi))
            outcomes, bad = [], None
            ever = set(job["keys"])          # every key that has ever been in the container
            # ---- trace for the correspondence with Model/Iter.v (C iterators without bounds): the leaf
            # store by object identity before every next(), and what the call did
            trace = None
            known = []                       # every bucket object ever seen on the chain (kept alive here)

            def leaf_keys(b):
                items = b.__getstate__()[0]
                ks = items if setlike else items[0::2]
                return [km.ik(k) for k in ks]

            def observe():
                b = t._firstbucket if kind in ("BTree", "TreeSet") else t
                n = 0
                while b is not None and n < 10000:
                    if not any(b is x for x in known):
                        known.append(b)
                    b = b._next
                    n += 1
                i = 0
                while i < len(known):        # buckets that left the chain may still point at others
                    nb = known[i]._next
                    if nb is not None and not any(nb is x for x in known):
                        known.append(nb)
                    i += 1
                idx = lambda o: next(j for j, x in enumerate(known) if x is o)   # noqa
                return [[j, leaf_keys(b), None if b._next is None else idx(b._next)] for j, b in enumerate(known)]
            if src in ("iter", "iteritems") and it is not None and (impl == "C" or kind in ("BTree", "TreeSet")):
                st0 = observe()
                chain = []
                b = t._firstbucket if kind in ("BTree", "TreeSet") else t
                while b is not None:
                    chain.append(b)
                    b = b._next
                if impl == "Py":
                    # _TreeItems starts at the first bucket whatever it holds
                    trace = {"py": True, "cur": None if not chain else next(j for j, x in enumerate(known) if x is chain[0]), "last": 0, "lastoff": 0, "steps": []}
                elif not chain or not len(t):
                    trace = {"cur": None, "last": 0, "lastoff": 0, "steps": []}
                else:
                    li = next(j for j, x in enumerate(known) if x is chain[-1])
                    trace = {"cur": next(j for j, x in enumerate(known) if x is chain[0]), "last": li,
                             "lastoff": len(leaf_keys(chain[-1])) - 1, "steps": []}

            def is_entry(x):
                """what a step hands out must be (made of) a key / value that was stored at some time"""
                def key_ok(k):
                    try:
                        return km.ik(k) in ever
                    except Exception:  # noqa
                        return False

                def val_ok(v):
                    try:
                        vm.iv(v); return True
                    except Exception:  # noqa
                        return False
                if isinstance(x, tuple) and len(x) == 2 and not setlike and f.kk != "O":
                    return key_ok(x[0]) and val_ok(x[1])
                if isinstance(x, tuple) and len(x) == 2 and not setlike and key_ok(x[0]):
                    return val_ok(x[1])
                return key_ok(x) or (not setlike and val_ok(x))
            for st in job["steps"]:
                try:
                    if st[0] == "next":
                        snap = observe() if trace is not None else None
                        try:
                            x = next(it)
                            outcomes.append("entry")
                            if trace is not None:
                                try:
                                    trace["steps"].append([snap, "entry", km.ik(x[0] if (src == "iteritems" and not setlike) else x)])
                                except Exception:  # noqa
                                    trace["steps"].append([snap, "entry", None])
                            if not is_entry(x):
                                bad = "next-yielded-something-that-never-was-an-entry:%r" % (x,)
                                break
                        except StopIteration:
                            outcomes.append("stop")
                            if trace is not None:
                                trace["steps"].append([snap, "stop", None])
                        except RuntimeError:
                            if trace is not None:
                                trace["steps"].append([snap, "runtime", None])
                            raise
                        except IndexError:
                            if trace is not None:
                                trace["steps"].append([snap, "indexerror", None])
                            raise
                    elif st[0] == "index":
                        x = seq[st[1]]
                        outcomes.append("entry")
                        if not is_entry(x):
                            bad = "index-returned-something-that-never-was-an-entry:%r" % (x,)
                            break
                    elif st[0] == "len":
                        len(seq)
                        outcomes.append("entry")
                    elif st[0] == "bool":
                        bool(seq)
                        outcomes.append("entry")
                    elif st[0] == "list":
                        [x for x in seq]
                        outcomes.append("entry")
                    elif st[0] == "ins":
                        if setlike:
                            t.add(km.k(st[1]))
                        else:
                            t[km.k(st[1])] = vm.v(1)
                        ref[st[1]] = 1
                        ever.add(st[1])
                    elif st[0] == "del":
                        if st[1] in ref:
                            if setlike:
                                t.remove(km.k(st[1]))
                            else:
                                del t[km.k(st[1])]
                            del ref[st[1]]
                    elif st[0] == "popmin":
                        if ref:
                            m = min(ref)
                            if setlike:
                                t.remove(km.k(m))
                            else:
                                t.pop(km.k(m))
                            del ref[m]
                    elif st[0] == "clear":
                        t.clear(); ref.clear()
                except (RuntimeError, IndexError) as e:
                    if st[0] in ("next", "index", "len", "bool", "list"):
                        outcomes.append(type(e).__name__)
                    else:
                        bad = "mutation-raised-" + type(e).__name__
                        break
                except Exception as e:  # noqa
                    bad = "%s-raised-%s" % (st[0], type(e).__name__)
                    break
            if bad is None:
                try:
                    got = sorted(km.ik(k) for k in t)
                    if got != sorted(ref):
                        bad = "contents-differ"
                    elif not setlike and {km.ik(k): vm.iv(v) for k, v in t.items()} != ref:
                        bad = "values-differ"
                    elif kind in ("BTree", "TreeSet"):
                        t._check()
                        import BTrees.check
                        BTrees.check.check(t)
                except AssertionError as e:
                    bad = "unsound:" + str(e)[:50]
                except Exception as e:  # noqa
                    bad = "final-raises-" + type(e).__name__
        print(json.dumps({"id": job["id"], "outcomes": outcomes, "bad": bad, "trace": trace if bad is None else None})); sys.stdout.flush()


main()
