"""Coq side of a check run: regenerate Gen/*.v, build targets, read
`Print Assumptions`, evaluate correspondence case files with vm_compute."""
import fcntl
import glob
import os
import re
import subprocess
import time

VERIF = os.path.dirname(os.path.dirname(os.path.abspath(__file__)))
COQ = os.path.join(VERIF, "coq")
FORBIDDEN = re.compile(
    r"\b(Admitted|admit|Axiom|Axioms|Parameter|Parameters|Conjecture|"
    r"Admit Obligations|bypass_check)\b|Unset Guard|Unset Positivity|"
    r"Unset Universe|type-in-type|impredicative-set")
# standard-library axioms a theorem may depend on (named in DESIGN.md §7)
ALLOWED_AXIOMS = {
    "ClassicalDedekindReals.sig_not_dec", "ClassicalDedekindReals.sig_forall_dec",
    "FunctionalExtensionality.functional_extensionality_dep",
    "Classical_Prop.classic",
}


def _lock():
    f = open(os.path.join(COQ, ".lock"), "w")
    fcntl.flock(f, fcntl.LOCK_EX)
    return f


def project_files():
    fs = []
    for d in ("Gen", "Model", "Proofs", "Props"):
        fs += sorted(glob.glob(os.path.join(COQ, d, "*.v")))
    return [os.path.relpath(f, COQ) for f in fs]


def write_project():
    text = "-Q . BT\n-arg -w -arg -all\n" + "\n".join(project_files()) + "\n"
    p = os.path.join(COQ, "_CoqProject")
    old = open(p).read() if os.path.exists(p) else None
    if old != text or not os.path.exists(os.path.join(COQ, "Makefile.coq")):
        with open(p, "w") as f:
            f.write(text)
        subprocess.run(["coq_makefile", "-f", "_CoqProject", "-o", "Makefile.coq"],
                       cwd=COQ, check=True, capture_output=True)


def make(targets, timeout=1500):
    """Build .vo targets (paths relative to coq/).  Returns (ok, log)."""
    lk = _lock()
    try:
        write_project()
        cmd = ["timeout", str(timeout), "make", "-f", "Makefile.coq", "-j16", "-k"] + list(targets)
        r = subprocess.run(cmd, cwd=COQ, capture_output=True, text=True)
        return r.returncode == 0, (r.stdout + r.stderr)
    finally:
        lk.close()


def grep_gate(files=None):
    """Forbidden constructs anywhere in the development (comments stripped)."""
    bad = []
    for rel in (files or project_files()):
        txt = open(os.path.join(COQ, rel)).read()
        txt = _strip_comments(txt)
        for i, line in enumerate(txt.split("\n"), 1):
            if FORBIDDEN.search(line):
                bad.append("%s:%d: %s" % (rel, i, line.strip()))
    return bad


def _strip_comments(txt):
    out, depth, i = [], 0, 0
    while i < len(txt):
        if txt.startswith("(*", i):
            depth += 1
            i += 2
        elif txt.startswith("*)", i) and depth:
            depth -= 1
            i += 2
        else:
            if depth == 0 or txt[i] == "\n":
                out.append(txt[i])
            i += 1
    return "".join(out)


def closure(rel):
    """Transitive project-local Require closure of a .v file (relative paths)."""
    seen, todo = [], [rel]
    mods = {}
    for f in project_files():
        mods["BT." + f[:-2].replace("/", ".")] = f
        mods[f[:-2].split("/")[-1]] = f
    while todo:
        f = todo.pop()
        if f in seen:
            continue
        seen.append(f)
        txt = _strip_comments(open(os.path.join(COQ, f)).read())
        for m in re.finditer(r"(?:From\s+BT\s+)?Require\s+(?:Import\s+|Export\s+)?([^.]*(?:\.[A-Za-z_][^.\s]*)*)\.", txt):
            for name in m.group(1).split():
                if name in mods:
                    todo.append(mods[name])
                elif "BT." + name in mods:
                    todo.append(mods["BT." + name])
    return seen


def theorems_and_assumptions(prop_rel, timeout=600):
    """Compile Props/<x>.v on its own, capture the Print Assumptions output.

    Returns (ok, [(theorem, [axioms])], log)."""
    lk = _lock()
    try:
        r = subprocess.run(["timeout", str(timeout), "coqc", "-Q", ".", "BT", "-w", "-all", prop_rel],
                           cwd=COQ, capture_output=True, text=True)
    finally:
        lk.close()
    log = r.stdout + r.stderr
    if r.returncode != 0:
        return False, [], log
    src = _strip_comments(open(os.path.join(COQ, prop_rel)).read())
    names = re.findall(r"Print Assumptions\s+([A-Za-z0-9_'.]+)\s*\.", src)
    blocks = re.split(r"(?m)^(?=Closed under the global context|Axioms:)", r.stdout)
    blocks = [b for b in blocks if b.startswith(("Closed", "Axioms:"))]
    res = []
    for i, n in enumerate(names):
        if i >= len(blocks):
            res.append((n, ["<no output>"]))
            continue
        b = blocks[i]
        if b.startswith("Closed"):
            res.append((n, []))
        else:
            ax = re.findall(r"(?m)^([A-Za-z_][A-Za-z0-9_'.]*)\s*:", b[len("Axioms:"):])
            res.append((n, ax))
    return True, res, log


def declared_theorems(prop_rel):
    src = _strip_comments(open(os.path.join(COQ, prop_rel)).read())
    return re.findall(r"(?m)^\s*(?:Theorem|Corollary)\s+([A-Za-z0-9_']+)", src)


def run_cases(name, text, timeout=900):
    """Compile one generated case file under coq/Cases; return (rc, stdout+stderr)."""
    d = os.path.join(COQ, "Cases")
    os.makedirs(d, exist_ok=True)
    p = os.path.join(d, name + ".v")
    with open(p, "w") as f:
        f.write(text)
    try:
        r = subprocess.run(
            "ulimit -s unlimited 2>/dev/null; exec timeout %d coqc -Q . BT -w -all Cases/%s.v" % (timeout, name),
            shell=True, cwd=COQ, capture_output=True, text=True,
            env=dict(os.environ, OCAMLRUNPARAM="s=8M,h=256M"))
        return r.returncode, r.stdout + r.stderr
    finally:
        for ext in (".v", ".vo", ".vok", ".vos", ".glob", ".aux"):
            q = os.path.join(d, name + ext)
            if os.path.exists(q):
                os.remove(q)
        aux = os.path.join(d, "." + name + ".aux")
        if os.path.exists(aux):
            os.remove(aux)


def run_cases_parallel(items, timeout=900, jobs=12):
    """items: [(name, text)] -> [(name, rc, out)] evaluated concurrently."""
    from concurrent.futures import ThreadPoolExecutor
    with ThreadPoolExecutor(jobs) as ex:
        outs = list(ex.map(lambda it: run_cases(it[0], it[1], timeout), items))
    return [(items[i][0],) + outs[i] for i in range(len(items))]


def zlit(n):
    return "(%d)%%Z" % n if n < 0 else "%d%%Z" % n
