"""Driving and observing real BTree / TreeSet / Bucket / Set objects."""
from harness import caseutil
from harness.families import fam, sizes, BOUNDS

Z = caseutil.z
HDR = ("From Coq Require Import ZArith List.\nFrom BT Require Import Model.CaseUtil Model.RTree Model.TreeRun.\n"
       "Import ListNotations.\nOpen Scope Z_scope.\n")


class TreeEnv:
    def __init__(self, famname, kind, impl, keymode=None):
        self.f = fam(famname)
        self.kind = kind                      # 'BTree' | 'TreeSet' | 'Bucket' | 'Set'
        self.impl = impl
        self.setlike = kind in ("TreeSet", "Set")
        self.km = self.f.keymap(keymode)
        self.vm = self.f.valmap()
        self.cls = self.f.cls(kind, impl)
        self.treecls = [self.f.cls(k, impl) for k in ("BTree", "TreeSet")]
        self.vsame = impl == "C" and (self.f.vk in BOUNDS or self.f.vk == "F") and not self.setlike

    def sized(self, ml, mi):
        return sizes(self.treecls, ml, mi)

    def new(self):
        return self.cls()

    def k(self, i):
        return self.km.k(i)

    def v(self, j):
        return self.vm.v(j)

    # -- canonical outputs
    def call(self, t, c):
        """c = (name, args...) in model terms; returns canonical out tuple"""
        K, V = self.km.k, self.vm.v
        ik, iv = self.km.ik, self.vm.iv
        n = c[0]
        try:
            if n == "set":
                t[K(c[1])] = V(c[2]); return ("none",)
            if n == "del":
                del t[K(c[1])]; return ("none",)
            if n == "insert":
                return ("bool", bool(t.insert(K(c[1]), V(c[2]))))
            if n == "setdefault":
                return ("val", iv(t.setdefault(K(c[1]), V(c[2]))))
            if n == "pop":
                return ("val", iv(t.pop(K(c[1]))))
            if n == "popd":
                r = t.pop(K(c[1]), V(c[2])); return ("val", iv(r))
            if n == "popitem":
                k, v = t.popitem(); return ("kv", ik(k), iv(v))
            if n == "update":
                kind = c[2]
                pairs = [(K(a), V(b)) for a, b in c[1]]
                arg = dict(pairs) if kind == "dict" else (pairs if kind == "list" else iter(pairs))
                t.update(arg); return ("none",)
            if n == "clear":
                t.clear(); return ("none",)
            if n == "get":
                r = t.get(K(c[1])); return ("none",) if r is None else ("val", iv(r))
            if n == "getd":
                r = t.get(K(c[1]), V(c[2])); return ("val", iv(r))
            if n == "item":
                return ("val", iv(t[K(c[1])]))
            if n == "in":
                r = K(c[1]) in t; assert type(r) is bool; return ("bool", r)
            if n == "has_key":
                return ("bool", bool(t.has_key(K(c[1]))))
            if n == "len":
                return ("nat", len(t))
            if n == "bool":
                return ("bool", bool(t))
            if n == "keys":
                return ("keys", [ik(k) for k in t])
            if n == "items":
                return ("items", [(ik(k), iv(v)) for k, v in t.items()])
            if n == "add":
                return ("bool", bool(t.add(K(c[1]))))
            if n == "remove":
                t.remove(K(c[1])); return ("none",)
            if n == "discard":
                r = t.discard(K(c[1])); return ("none",)
            if n == "spop":
                return ("val", ik(t.pop()))
            if n == "supdate":
                t.update([K(x) for x in c[1]]); return ("none",)
            if n in ("ior", "iand", "isub", "ixor"):
                import operator
                fn = {"ior": operator.ior, "iand": operator.iand, "isub": operator.isub, "ixor": operator.ixor}[n]
                arg = t if (len(c) > 2 and c[2] == "self") else [K(x) for x in c[1]]     # s ^= s etc.: c[1] = the current keys
                if arg is not t:
                    # a third of the operands are one-shot iterators, a third generators (decided by the call itself,
                    # so that C and Python, and a replay, get the same kind)
                    sel = (len(c[1]) + sum(abs(x) for x in c[1])) % 3
                    if sel == 0:
                        arg = iter(arg)
                    elif sel == 1:
                        arg = (x for x in list(arg))
                r = fn(t, arg)
                return ("none",) if r is t else ("other", "not-self")
            if n == "isdisjoint":
                return ("bool", bool(t.isdisjoint([K(x) for x in c[1]])))
        except KeyError:
            return ("KeyError",)
        except Exception as e:  # noqa
            return ("other", type(e).__name__)
        raise ValueError(n)

    # -- shape
    def keys_of_leafstate(self, st):
        items = st[0]
        ks = items if self.setlike else items[0::2]
        return [self.km.ik(k) for k in ks]

    def shape(self, t):
        """('node', [(sep|None, child)]) | ('leaf', keys); raises on unknown state forms"""
        st = t.__getstate__()
        if st is None:
            return ("node", [])
        if len(st) == 1:
            return ("node", [(None, ("leaf", self.keys_of_leafstate(st[0][0])))])
        data = st[0]
        kids = []
        for i in range(0, len(data), 2):
            child = data[i]
            sep = None if i == 0 else self.km.ik(data[i - 1])
            if type(child) is type(t):
                kids.append((sep, self.shape(child)))
            else:
                kids.append((sep, ("leaf", self.keys_of_leafstate(child.__getstate__()))))
        return ("node", kids)

    def leaf_objects(self, t):
        """leaves by descent (object list)"""
        st = t.__getstate__()
        if st is None:
            return []
        if len(st) == 1:
            return [t._firstbucket]
        out = []
        data = st[0]
        for i in range(0, len(data), 2):
            child = data[i]
            if type(child) is type(t):
                out += self.leaf_objects(child)
            else:
                out.append(child)
        return out

    def chain(self, t, limit=100000):
        out, b = [], t._firstbucket
        while b is not None and len(out) < limit:
            out.append(b)
            b = b._next
        return out


def interior_nodes(t):
    """interior nodes in preorder (the root first)"""
    out = [t]
    st = t.__getstate__()
    if st is None or len(st) == 1:
        return out
    data = st[0]
    for i in range(0, len(data), 2):
        if type(data[i]) is type(t):
            out += interior_nodes(data[i])
    return out


def chain_obs(env, t):
    """what the pointers show: (keys of each bucket met from _firstbucket along _next,
    keys of the _firstbucket of every interior node in preorder; [] for NULL)"""
    keys = lambda b: env.keys_of_leafstate(b.__getstate__())   # noqa
    chain = [keys(b) for b in env.chain(t)]
    firsts = [([] if n._firstbucket is None else keys(n._firstbucket)) for n in interior_nodes(t)]
    return chain, firsts


def chobs_term(o):
    zl = lambda l: "[%s]" % "; ".join(Z(k) for k in l)   # noqa
    return "ChObs [%s] [%s]" % ("; ".join(zl(l) for l in o[0]), "; ".join(zl(l) for l in o[1]))


def shape_term(sh):
    if sh[0] == "leaf":
        return "(WLeafS [%s])" % "; ".join(Z(k) for k in sh[1])
    return "(WNodeS [%s])" % "; ".join("WKid %s %s" % (Z(0 if s is None else s), shape_term(c)) for s, c in sh[1])


def call_term(c):
    n = c[0]
    if n == "set":
        return "CSet %s %s" % (Z(c[1]), Z(c[2]))
    if n == "del":
        return "CDel %s" % Z(c[1])
    if n == "insert":
        return "CInsert %s %s" % (Z(c[1]), Z(c[2]))
    if n == "setdefault":
        return "CSetdefault %s %s" % (Z(c[1]), Z(c[2]))
    if n == "pop":
        return "CPop %s" % Z(c[1])
    if n == "popd":
        return "CPopD %s %s" % (Z(c[1]), Z(c[2]))
    if n == "popitem":
        return "CPopitem"
    if n == "update":
        return "CUpdate [%s]" % "; ".join("KV %s %s" % (Z(a), Z(b)) for a, b in c[1])
    if n == "clear":
        return "CClear"
    if n == "get":
        return "CGet %s" % Z(c[1])
    if n == "getd":
        return "CGetD %s %s" % (Z(c[1]), Z(c[2]))
    if n == "item":
        return "CItem %s" % Z(c[1])
    if n == "in":
        return "CIn %s" % Z(c[1])
    if n == "has_key":
        return "CHasKey %s" % Z(c[1])
    if n == "len":
        return "CLen"
    if n == "bool":
        return "CBool"
    if n == "keys":
        return "CKeys"
    if n == "items":
        return "CItems"
    if n == "add":
        return "CAdd %s" % Z(c[1])
    if n == "remove":
        return "CRemove %s" % Z(c[1])
    if n == "discard":
        return "CDiscard %s" % Z(c[1])
    if n == "spop":
        return "CSPop"
    lst = "[%s]" % "; ".join(Z(x) for x in c[1]) if len(c) > 1 and isinstance(c[1], list) else ""
    return {"supdate": "CSUpdate", "ior": "CIor", "iand": "CIand", "isub": "CIsub", "ixor": "CIxor",
            "isdisjoint": "CIsdisjoint"}[n] + " " + lst


def out_term(o):
    k = o[0]
    if k == "none":
        return "ONone"
    if k == "val":
        return "OVal %s" % Z(o[1])
    if k == "bool":
        return "OBool %s" % ("true" if o[1] else "false")
    if k == "KeyError":
        return "OKeyError"
    if k == "kv":
        return "OKV %s %s" % (Z(o[1]), Z(o[2]))
    if k == "nat":
        return "ONat %d" % o[1]
    if k == "keys":
        return "OKeys [%s]" % "; ".join(Z(x) for x in o[1])
    if k == "items":
        return "OItems [%s]" % "; ".join("KV %s %s" % (Z(a), Z(b)) for a, b in o[1])
    return "OOther"


# ---------------------------------------------------------------- reference sorted map (python oracle)
class RefMap:
    def __init__(self):
        self.d = {}

    def items(self):
        return sorted(self.d.items())

    def call(self, c):
        d, n = self.d, c[0]
        if n == "set":
            d[c[1]] = c[2]; return ("none",)
        if n in ("del", "remove"):
            if c[1] in d:
                del d[c[1]]; return ("none",)
            return ("KeyError",)
        if n == "insert":
            if c[1] in d:
                return ("bool", False)
            d[c[1]] = c[2]; return ("bool", True)
        if n == "setdefault":
            return ("val", d.setdefault(c[1], c[2]))
        if n == "pop":
            return ("val", d.pop(c[1])) if c[1] in d else ("KeyError",)
        if n == "popd":
            return ("val", d.pop(c[1], c[2]))
        if n == "popitem":
            if not d:
                return ("KeyError",)
            k = min(d); return ("kv", k, d.pop(k))
        if n == "update":
            for a, b in c[1]:
                d[a] = b
            return ("none",)
        if n == "clear":
            d.clear(); return ("none",)
        if n == "get":
            return ("val", d[c[1]]) if c[1] in d else ("none",)
        if n == "getd":
            return ("val", d.get(c[1], c[2]))
        if n == "item":
            return ("val", d[c[1]]) if c[1] in d else ("KeyError",)
        if n in ("in", "has_key"):
            return ("bool", c[1] in d)
        if n == "len":
            return ("nat", len(d))
        if n == "bool":
            return ("bool", bool(d))
        if n == "keys":
            return ("keys", sorted(d))
        if n == "items":
            return ("items", sorted(d.items()))
        if n == "add":
            if c[1] in d:
                return ("bool", False)
            d[c[1]] = 0; return ("bool", True)
        if n == "discard":
            d.pop(c[1], None); return ("none",)
        if n == "spop":
            if not d:
                return ("KeyError",)
            k = min(d); del d[k]; return ("val", k)
        if n in ("supdate", "ior"):
            for k in c[1]:
                d.setdefault(k, 0)
            return ("none",)
        if n == "iand":
            keep = set(c[1])
            for k in list(d):
                if k not in keep:
                    del d[k]
            return ("none",)
        if n == "isub":
            for k in c[1]:
                d.pop(k, None)
            return ("none",)
        if n == "ixor":
            for k in c[1]:
                if k in d:
                    del d[k]
                else:
                    d[k] = 0
            return ("none",)
        if n == "isdisjoint":
            return ("bool", not any(k in d for k in c[1]))
        raise ValueError(n)


# ---------------------------------------------------------------- independent soundness walker (C03 oracle)
def walk_invariants(env, t, ml=None, mi=None, is_root=True):
    """Returns a list of violated clauses (empty = sound)."""
    bad = []
    sh = env.shape(t)
    leaves = env.leaf_objects(t)
    chain = env.chain(t)
    if [id(x) for x in leaves] != [id(x) for x in chain]:
        bad.append("chain-differs-from-descent")
    if sh == ("node", []):
        if t._firstbucket is not None:
            bad.append("empty-tree-has-firstbucket")
        return bad

    def rec(node, lo, hi, depth, root):
        kind, kids = node
        if kind == "leaf":
            ks = kids
            if not ks:
                bad.append("empty-leaf")
            if any(ks[i] >= ks[i + 1] for i in range(len(ks) - 1)):
                bad.append("leaf-keys-not-ascending")
            if any((lo is not None and k < lo) or (hi is not None and k >= hi) for k in ks):
                bad.append("key-outside-separator-range")
            if ml is not None and len(ks) > ml:
                bad.append("leaf-too-big")
            return depth
        if not kids:
            bad.append("empty-interior-node")
            return depth
        if mi is not None and (len(kids) > mi if not root else len(kids) >= 2 * mi):
            bad.append("interior-too-big")
        if len({c[0] for _, c in kids}) != 1:
            bad.append("mixed-child-kinds")
        depths = set()
        for i, (sep, c) in enumerate(kids):
            l = lo if i == 0 else sep
            h = kids[i + 1][0] if i + 1 < len(kids) else hi
            if i > 0 and ((lo is not None and sep < lo) or (hi is not None and sep >= hi)):
                bad.append("separator-outside-range")
            if i + 1 < len(kids) and i > 0 and not sep < kids[i + 1][0]:
                bad.append("separators-not-ascending")
            depths.add(rec(c, l, h, depth + 1, False))
        if len(depths) != 1:
            bad.append("uneven-depth")
        return max(depths)
    rec(sh, None, None, 0, True)
    # chain order
    allkeys = []
    for b in chain:
        allkeys += env.keys_of_leafstate(b.__getstate__())
    if any(allkeys[i] >= allkeys[i + 1] for i in range(len(allkeys) - 1)):
        bad.append("chain-keys-not-ascending")
    return bad
