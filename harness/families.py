"""Family adapters: map model keys/values (small ints) order-isomorphically into
each family's domain, and back."""
import importlib
import struct

INT_FAMS = ["IO", "II", "IF", "IU", "UO", "UU", "UF", "UI", "LO", "LL", "LF",
            "LQ", "QO", "QQ", "QF", "QL"]
OBJ_FAMS = ["OO", "OI", "OU", "OL", "OQ"]
ALL_FAMS = INT_FAMS + OBJ_FAMS + ["fs"]
BOUNDS = {"I": (-2**31, 2**31 - 1), "U": (0, 2**32 - 1),
          "L": (-2**63, 2**63 - 1), "Q": (0, 2**64 - 1)}
KINDS = ["BTree", "Bucket", "TreeSet", "Set"]


class KeyMap:
    """Order-isomorphic map from model keys lo..hi (ints, may be negative small)
    into the family's key domain.  mode: 'small', 'extreme' (hugging both type
    bounds), object-key modes 'none-int', 'str', 'tuple'."""

    def __init__(self, kind, mode="small", span=64):
        self.kind, self.mode, self.span = kind, mode, span
        self._fwd, self._bwd = {}, {}

    def k(self, i):
        if i in self._fwd:
            return self._fwd[i]
        kd, md = self.kind, self.mode
        if kd in BOUNDS:
            lo, hi = BOUNDS[kd]
            if md == "small":
                v = i if lo < 0 else i + self.span
            else:  # extreme: three zones -- hugging lo, around the middle of the range, hugging hi
                if i < 4:
                    v = lo + (i + self.span)
                elif i < 12:
                    v = (lo + hi + 1) // 2 + (i - 8)
                else:
                    v = hi - (self.span - i)
            assert lo <= v <= hi, (i, v)
        elif kd == "O":
            if md == "none-int":
                assert i >= 0
                v = None if i == 0 else i - 3  # model key 0 is None, the smallest object key
            elif md == "str":
                v = "k%06d" % (i + self.span)
            elif md == "tuple":
                v = (i // 4, "t%d" % (i % 4))
            else:
                v = i
        elif kd == "f":
            if md == "extreme":   # three zones: hugging b"\x00\x00", straddling first byte 0x7f / 0x80, hugging b"\xff\xff"
                n = (i + self.span) if i < 4 else (0x8000 + (i - 8)) if i < 12 else 0xffff - (self.span - i)
            else:
                n = i + self.span
            assert 0 <= n <= 0xffff, (i, n)
            v = struct.pack(">H", n)
        else:
            raise ValueError(kd)
        self._fwd[i] = v
        self._bwd[v] = i
        return v

    def ik(self, v):
        if v not in self._bwd:
            # a key the model never produced: report it as is
            raise KeyError("unmapped key %r" % (v,))
        return self._bwd[v]


class ValMap:
    def __init__(self, kind):
        self.kind = kind
        self._bwd = {}

    def v(self, j):
        kd = self.kind
        if kd in BOUNDS:
            r = j if BOUNDS[kd][0] < 0 else j + 1000
        elif kd == "F":
            # exactly representable in float32 and CLOSE to one another (2^-30 apart): an overwrite with the
            # neighbouring value is a change, however small
            r = (j + 3) * 2.0 ** -30
        elif kd == "O":
            r = "v%d" % j
        elif kd == "s":
            r = struct.pack(">HI", 7, j + 1000)
        else:
            raise ValueError(kd)
        self._bwd[r] = j
        return r

    def iv(self, r):
        return self._bwd[r]


class Family:
    def __init__(self, name):
        self.name = name
        self.kk = "f" if name == "fs" else name[0]
        self.vk = "s" if name == "fs" else name[1]
        self.mod = importlib.import_module("BTrees.%sBTree" % name)

    def cls(self, kind, impl):
        """impl: 'C' or 'Py'."""
        n = self.name + kind + ("Py" if impl == "Py" else "")
        return getattr(self.mod, n)

    def keymap(self, mode=None, span=64):
        if mode is None:
            mode = "small"
        return KeyMap(self.kk, mode, span)

    def keymodes(self):
        if self.kk in BOUNDS:
            return ["small", "extreme"]
        if self.kk == "O":
            return ["int", "none-int", "str", "tuple"]
        return ["small", "extreme"]

    def valmap(self):
        return ValMap(self.vk)

    def func(self, name, impl):
        return getattr(self.mod, name + ("Py" if impl == "Py" else ""), None)


_cache = {}


def fam(name):
    if name not in _cache:
        _cache[name] = Family(name)
    return _cache[name]


class sizes:
    """Temporarily set node sizes on the class itself (check.py classifies by
    exact type)."""

    def __init__(self, classes, leaf, internal):
        self.classes, self.leaf, self.internal = classes, leaf, internal

    def __enter__(self):
        self.saved = [(c, c.max_leaf_size, c.max_internal_size) for c in self.classes]
        for c in self.classes:
            c.max_leaf_size = self.leaf
            c.max_internal_size = self.internal

    def __exit__(self, *a):
        for c, l, i in self.saved:
            c.max_leaf_size = l
            c.max_internal_size = i
