"""Build the implementation under test from /repo's *current working tree*.

A copy of /repo/src/BTrees (+ /repo/include) is compiled outside /repo, /verif
and /tmp, keyed by a content hash of every source file, so that an edit to the
working tree always yields a fresh build and an unchanged tree is built once.
Nothing is read from the in-place .so files of /repo.
"""
import fcntl
import hashlib
import os
import shutil
import subprocess
import sys
import sysconfig
from concurrent.futures import ThreadPoolExecutor

REPO = os.environ.get("VERIF_REPO", "/repo")
CACHE = os.environ.get("VERIF_SCRATCH", "/var/tmp/btrees-verif-cache")
GUARD = "BTREES_VERIF"
KEEP = 3  # cache entries kept

FAMILIES = ["IO", "II", "IF", "IU", "UO", "UU", "UF", "UI", "LO", "LL", "LF",
            "LQ", "QO", "QQ", "QF", "QL", "OO", "OI", "OU", "OL", "OQ", "fs"]


class BuildError(Exception):
    pass


def _source_files():
    out = []
    for base in ("src/BTrees", "include"):
        for root, dirs, files in os.walk(os.path.join(REPO, base)):
            dirs[:] = sorted(d for d in dirs if d not in ("__pycache__", "tests"))
            for f in sorted(files):
                if f.endswith((".c", ".h", ".py")):
                    out.append(os.path.join(root, f))
    return out


def tree_hash():
    h = hashlib.sha256()
    for p in _source_files():
        h.update(os.path.relpath(p, REPO).encode())
        with open(p, "rb") as f:
            h.update(hashlib.sha256(f.read()).digest())
    h.update(sys.version.encode())
    return h.hexdigest()[:20]


def _compile_one(dst, fam, extra):
    inc = sysconfig.get_paths()["include"]
    suffix = sysconfig.get_config_var("EXT_SUFFIX")
    src = os.path.join(dst, "BTrees", "_%sBTree.c" % fam)
    out = os.path.join(dst, "BTrees", "_%sBTree%s" % (fam, suffix))
    cmd = ["gcc", "-shared", "-fPIC", "-O1", "-g", "-fno-strict-overflow",
           "-fwrapv", "-DNDEBUG", "-D%s=1" % GUARD,
           "-I", inc, "-I", os.path.join(dst, "include", "persistent"),
           "-I", os.path.join(dst, "BTrees")] + extra
    if not fam.startswith("O"):
        cmd.append("-DEXCLUDE_INTSET_SUPPORT")
    cmd += [src, "-o", out]
    r = subprocess.run(cmd, capture_output=True, text=True)
    return fam, r.returncode, r.stderr


def build(extra_cflags=(), tag=""):
    """Return the directory to put on PYTHONPATH (contains BTrees/)."""
    os.makedirs(CACHE, exist_ok=True)
    key = tree_hash() + tag
    dst = os.path.join(CACHE, key)
    lock = open(os.path.join(CACHE, ".lock"), "w")
    fcntl.flock(lock, fcntl.LOCK_EX)
    try:
        if os.path.exists(os.path.join(dst, ".ok")):
            os.utime(dst)
            return dst
        if os.path.exists(dst):
            shutil.rmtree(dst)
        os.makedirs(dst)
        shutil.copytree(os.path.join(REPO, "src", "BTrees"),
                        os.path.join(dst, "BTrees"),
                        ignore=shutil.ignore_patterns(
                            "*.so", "__pycache__", "tests", "*.o"))
        shutil.copytree(os.path.join(REPO, "include"),
                        os.path.join(dst, "include"))
        with ThreadPoolExecutor(16) as ex:
            res = list(ex.map(lambda f: _compile_one(dst, f, list(extra_cflags)),
                              FAMILIES))
        bad = [(f, e) for f, rc, e in res if rc != 0]
        if bad:
            msg = "\n".join("== %s ==\n%s" % be for be in bad)
            shutil.rmtree(dst, ignore_errors=True)
            raise BuildError(msg)
        open(os.path.join(dst, ".ok"), "w").close()
        # prune old entries
        ents = sorted((e for e in os.scandir(CACHE) if e.is_dir()),
                      key=lambda e: e.stat().st_mtime, reverse=True)
        import time
        for e in ents[KEEP:]:
            # never a build another run may still be importing from (runs in parallel, e.g. a background
            # sweep beside a seeded-change run): only entries untouched for an hour
            if time.time() - e.stat().st_mtime > 3600:
                shutil.rmtree(e.path, ignore_errors=True)
        for e in ents[25:]:
            shutil.rmtree(e.path, ignore_errors=True)      # a hard cap on the disk used
        return dst
    finally:
        fcntl.flock(lock, fcntl.LOCK_UN)
        lock.close()


if __name__ == "__main__":
    print(build())
