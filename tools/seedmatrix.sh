#!/bin/sh
# own-property check + related checks for every filed seeded change (sequential: /repo is patched in place)
cd /verif
rel() { case $1 in
 C01) echo C01,C03,C02,C09;; C02) echo C02,C01,C09;; C03) echo C03,C01,C18,C09;; C04) echo C04,C05,C08,C06;;
 C05) echo C05,C04,C08;; C06) echo C06,C04,C09,C13;; C07) echo C07,C08,C14;; C08) echo C08,C07,C04;;
 C09) echo C09,C13,C01,C06;; C10) echo C10,C12,C14,C09;; C11) echo C11,C10;; C12) echo C12,C10;;
 C13) echo C13,C09,C06,C01;; C14) echo C14,C16,C01,C03;; C15) echo C15,C03,C01,C16;; C16) echo C16,C14,C15;;
 C17) echo C17,C03,C16;; C18) echo C18,C03;; C19) echo C19;; esac; }
for p in C01 C02 C03 C04 C05 C06 C07 C08 C09 C10 C11 C12 C13 C14 C15 C16 C17 C18 C19; do
  for m in m1 m2 m3; do
    [ -f seeded/$p/$m/patch.diff ] || continue
    rm -f seeded/$p/$m/result.json
    echo "== $p/$m"
    tools/seedrun.py seeded/$p/$m --checks $(rel $p) 2>&1 | grep -v WARNING | cut -c1-160
  done
done
git -C /repo status --short
echo MATRIX-DONE
