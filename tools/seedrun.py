#!/venv/bin/python
"""Run checks against a seeded change.

  tools/seedrun.py <seeded-dir> [--checks C01,C03] [--tier quick]

<seeded-dir> holds patch.diff (+ meta.json).  The patch is applied to /repo's
working tree (never committed), the listed checks (default: the one the
directory is filed under, then all other registered ones with --all) run, and
the tree is restored with `git checkout -- .` whatever happens.  The outcome is
written to <seeded-dir>/result.json.  /repo must be clean on entry.
"""
import json
import os
import subprocess
import sys
import time

VERIF = os.path.dirname(os.path.dirname(os.path.abspath(__file__)))


def sh(cmd, **kw):
    return subprocess.run(cmd, shell=True, stdout=subprocess.PIPE, stderr=subprocess.STDOUT, text=True, **kw)


def main():
    args = sys.argv[1:]
    d = os.path.abspath(args[0])
    checks = None
    tier = "quick"
    run_all = False
    i = 1
    while i < len(args):
        if args[i] == "--checks":
            checks = args[i + 1].split(","); i += 2
        elif args[i] == "--tier":
            tier = args[i + 1]; i += 2
        elif args[i] == "--all":
            run_all = True; i += 1
        else:
            raise SystemExit("unknown argument " + args[i])
    prop = os.path.basename(os.path.dirname(d)) if os.path.basename(os.path.dirname(d)).startswith("C") else None
    man = json.load(open(os.path.join(VERIF, "MANIFEST.json")))
    registered = [c["property_id"] for c in man["checks"]]
    if checks is None:
        checks = [prop] if prop else []
        if run_all:
            checks += [c for c in registered if c not in checks]
    st = sh("git -C /repo status --porcelain --untracked-files=no").stdout.strip()
    if st:
        raise SystemExit("/repo is not clean:\n" + st)
    patch = os.path.join(d, "patch.diff")
    r = sh("git -C /repo apply %s" % patch)
    if r.returncode:
        raise SystemExit("patch does not apply: " + r.stdout)
    res = {"patch": os.path.relpath(patch, VERIF), "tier": tier, "checks": {}}
    try:
        for c in checks:
            t0 = time.time()
            r = sh("./check %s --tier %s" % (c, tier), cwd=VERIF, timeout=7200)
            lines = [l for l in r.stdout.splitlines() if l.startswith("VIOLATION") or l.startswith("KNOWN-FINDING")]
            viol = [l for l in lines if l.startswith("VIOLATION")]
            entry = {"exit": r.returncode, "seconds": round(time.time() - t0, 1), "violations": viol[:5]}
            # keep a short description of what was reported
            for l in viol[:1]:
                rp = l.split("replay=")[1].split()[0]
                rp = rp if os.path.isabs(rp) else os.path.join(VERIF, rp)
                try:
                    data = json.load(open(rp))
                    entry["first_failure"] = (str(data.get("signature", "")) + " :: " + str(data.get("what", "")))[:700]
                    if data.get("broken_obligations"):
                        entry["broken_obligations"] = json.dumps(data["broken_obligations"])[:300]
                    if data.get("correspondence"):
                        entry["correspondence"] = json.dumps(data["correspondence"])[:300]
                except Exception as e:  # noqa
                    entry["first_failure"] = "unreadable replay: %r" % (e,)
            res["checks"][c] = entry
            print("%s: exit=%d %s" % (c, r.returncode, viol[0] if viol else "no violation"))
            sys.stdout.flush()
    finally:
        sh("git -C /repo checkout -- .")
    rp = os.path.join(d, "result.json")
    if os.path.exists(rp):
        try:
            old = json.load(open(rp))
            merged = dict(old.get("checks", {}))
            merged.update(res["checks"])
            res["checks"] = merged
        except Exception:  # noqa
            pass
    res["caught_by"] = sorted(c for c, e in res["checks"].items() if e["exit"] != 0)
    res["not_caught_by"] = sorted(c for c, e in res["checks"].items() if e["exit"] == 0)
    json.dump(res, open(rp, "w"), indent=1)


main()
