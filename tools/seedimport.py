#!/venv/bin/python
"""Confirm and file the seeded changes a sub-agent left in /tmp/seed/<Cnn>/out.

  tools/seedimport.py C07

For each mN.diff: apply it in the scratch worktree, rebuild, run the existing
test suite (must pass) and the agent's demonstration (must exit 1); then on the
clean worktree the demonstration must exit 0.  Confirmed changes are copied to
/verif/seeded/<Cnn>/mN/{patch.diff,demo.py,meta.json}."""
import glob
import json
import os
import shutil
import subprocess
import sys

prop = sys.argv[1]
ROOT = os.environ.get("SEED_ROOT", "/tmp/seed")          # round 2: SEED_ROOT=/tmp/seed2 SEED_OFFSET=3
OFFSET = int(os.environ.get("SEED_OFFSET", "0"))
WT = "%s/%s" % (ROOT, prop)
OUT = os.path.join(WT, "out")
DEST = "/verif/seeded/%s" % prop
ENV = dict(os.environ, PYTHONPATH=WT + "/src", PYTHONHASHSEED="0")
ENV.pop("BTREES_VERIF", None)


def sh(cmd, **kw):
    return subprocess.run(cmd, shell=True, cwd=WT, stdout=subprocess.PIPE, stderr=subprocess.STDOUT, text=True, env=ENV, **kw)


HOOK = prop == "C17"      # demonstrations of C17 need the allocation-failure hook compiled in


def build(hook=False):
    r = sh(("BTREES_VERIF=1 " if hook else "") + "/venv/bin/python setup.py -q build_ext --inplace -j 16" + (" --force" if HOOK else ""))
    return r.returncode == 0


def demo(path):
    try:
        r = sh("timeout 600 /venv/bin/python %s" % path)
        return r.returncode, r.stdout[-600:]
    except Exception as e:  # noqa
        return -1, repr(e)


def suite():
    r = sh("/venv/bin/python -m pytest -q -p no:cacheprovider --timeout=900 2>&1 | tail -6")
    ls = [l for l in r.stdout.splitlines() if " passed" in l or " failed" in l or " error" in l]
    return ls[-1].strip() if ls else r.stdout[-200:]


diffs = sorted(glob.glob(os.path.join(OUT, "m*.diff")))
sh("git checkout -- .")
results = {}
for d in diffs:
    name = os.path.basename(d)[:-5]
    r = sh("git apply %s" % d)
    if r.returncode:
        results[name] = {"confirmed": False, "why": "patch does not apply: " + r.stdout[-200:]}
        continue
    touches_c = any(l.startswith("+++") and (l.strip().endswith(".c") or l.strip().endswith(".h")) for l in open(d))
    ok = build() if touches_c else True
    st = suite() if ok else "build failed"
    if HOOK:
        build(hook=True)
    rc, out = demo(os.path.join(OUT, name + "_demo.py"))
    sh("git checkout -- .")
    if touches_c:
        build()
    if HOOK:
        build(hook=True)
        results[name] = {"suite": st, "demo_exit_mutated": rc, "demo_out": out, "touches_c": touches_c}
        results[name]["demo_exit_clean_hook"] = demo(os.path.join(OUT, name + "_demo.py"))[0]
        build()
        continue
    results[name] = {"suite": st, "demo_exit_mutated": rc, "demo_out": out, "touches_c": touches_c}
for name, r in results.items():
    if "demo_exit_mutated" not in r:
        continue
    rc, out = (r["demo_exit_clean_hook"], "") if HOOK else demo(os.path.join(OUT, name + "_demo.py"))
    r["demo_exit_clean"] = rc
    r["confirmed"] = ("1468 passed" in r["suite"]) and r["demo_exit_mutated"] == 1 and rc == 0
    if r["confirmed"]:
        dd = os.path.join(DEST, "m%d" % (int(name[1:]) + OFFSET))
        os.makedirs(dd, exist_ok=True)
        shutil.copy(os.path.join(OUT, name + ".diff"), os.path.join(dd, "patch.diff"))
        shutil.copy(os.path.join(OUT, name + "_demo.py"), os.path.join(dd, "demo.py"))
        try:
            meta = json.load(open(os.path.join(OUT, name + ".json")))
        except Exception:  # noqa
            meta = {}
        for extra in glob.glob(os.path.join(OUT, "*.py")):
            if not os.path.basename(extra).startswith("m"):
                shutil.copy(extra, os.path.join(dd, os.path.basename(extra)))   # helper modules of the demonstration
        meta.update({"property": prop, "origin": "fresh sub-agent given only the property text and a scratch worktree" + (" (second round: told which changes had been tried before)" if OFFSET else ""),
                     "confirmed": {"existing_suite": r["suite"], "demo_exit_on_mutated_build": r["demo_exit_mutated"], "demo_exit_on_clean_build": rc,
                                   "demo_output_on_mutated_build": r["demo_out"][-300:]}})
        json.dump(meta, open(os.path.join(dd, "meta.json"), "w"), indent=1)
    print(name, "confirmed" if r["confirmed"] else "NOT CONFIRMED", r.get("suite"), r.get("demo_exit_mutated"), r.get("demo_exit_clean"), (r.get("why") or ""))
