#!/bin/sh
# independent re-check of all compiled property files and the axioms they rely on
cd /verif/coq && exec coqchk -o -Q . BT $(for i in 01 02 03 04 05 06 07 08 09 10 11 12 13 14 15 16 17 18 19; do echo BT.Props.C$i; done)
