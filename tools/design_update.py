#!/venv/bin/python
"""Regenerate section 11 of DESIGN.md (seeded changes) from tools/design_seeded_intro.md + tools/seedtable.py."""
import subprocess
s = open('/verif/DESIGN.md').read()
a = s.index("## 11. Seeded changes")
a = s.index("\n", s.index("\n", a) + 1) + 1          # after the rule under the heading
b = s.index("--------------------------------------------------------------------------------\n## 12.")
tab = subprocess.run(["/verif/tools/seedtable.py"], capture_output=True, text=True).stdout
tab = "\n".join(l for l in tab.splitlines() if "WARNING" not in l)
intro = open('/verif/tools/design_seeded_intro.md').read()
open('/verif/DESIGN.md', 'w').write(s[:a] + "\n" + intro + tab + "\n\n\n" + s[b:])
