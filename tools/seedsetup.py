#!/venv/bin/python
"""Prepare scratch worktrees for a round of seeding sub-agents and print their prompts.

  tools/seedsetup.py /tmp/seed5 C02 C03 ...

For each property: a detached git worktree of /repo under <root>/<Cnn>, the
property text (and nothing from /verif besides it) as PROPERTY.md, an empty
out/ directory, extensions built in place.  The prompt (tools/SEED_PROMPT.txt
with the list of changes already tried, one line each) is written to
<root>/<Cnn>.prompt."""
import glob
import json
import os
import subprocess
import sys

root = sys.argv[1]
props = sys.argv[2:]
os.makedirs(root, exist_ok=True)
recs = {}
for line in open("/verif/properties.jsonl"):
    d = json.loads(line)
    recs[d["id"]] = d
tmpl = open("/verif/tools/SEED_PROMPT.txt").read()
for p in props:
    wt = os.path.join(root, p)
    if not os.path.isdir(wt):
        subprocess.run(["git", "-C", "/repo", "worktree", "add", "--detach", wt], check=True,
                       stdout=subprocess.DEVNULL, stderr=subprocess.DEVNULL)
    d = recs[p]
    with open(os.path.join(wt, "PROPERTY.md"), "w") as f:
        f.write("# %s\n\n%s\n\nQuantifier: %s\n\nWhy the existing tests cannot settle it: %s\n\nAnchors in the code:\n" % (
            d["title"], d["statement"], d["quantifier"]["text"], d["why_tests_cant"]))
        for a in d["anchors"]:
            f.write("- %s\n" % json.dumps(a))
    os.makedirs(os.path.join(wt, "out"), exist_ok=True)
    tried = []
    for m in sorted(glob.glob("/verif/seeded/%s/m*/meta.json" % p)):
        try:
            tried.append("  - " + json.load(open(m)).get("description", "")[:230].replace("\n", " "))
        except Exception:  # noqa
            pass
    avoid = ""
    if tried:
        avoid = ("The following changes have ALREADY been tried by others; deliver changes at DIFFERENT code sites with DIFFERENT mechanisms, "
                 "and prefer ones that need something specific to manifest (a particular multi-step sequence, tree shape, interleaving, fault point, "
                 "unusual input, or two cooperating sites that each look fine alone):\n" + "\n".join(tried) + "\n")
    with open(os.path.join(root, p + ".prompt"), "w") as f:
        f.write(tmpl.replace("{WT}", wt).replace("{AVOID}", avoid))
    env = dict(os.environ)
    env.pop("BTREES_VERIF", None)
    subprocess.run("/venv/bin/python setup.py -q build_ext --inplace -j 16 2>&1 | tail -2", shell=True, cwd=wt, env=env)
    print(p, "ready", wt)
