#!/usr/bin/env python3
"""print distinct violation signatures of the last run of a property (short)"""
import json, glob, sys
prop = sys.argv[1]
seen = set()
corr_shown = False
for f in sorted(glob.glob('/verif/replay/%s_*.json' % prop)):
    d = json.load(open(f)); s = d.get('signature')
    if s in seen: continue
    seen.add(s); print(s, '|', str(d.get('what'))[:int(sys.argv[2]) if len(sys.argv) > 2 else 300])
    if not corr_shown:
        corr_shown = True
        for c in d.get('correspondence', [])[:3]: print('   CORR', str(c)[:500])
        for c in d.get('broken_obligations', [])[:3]: print('   BROKEN', str(c)[-800:])
