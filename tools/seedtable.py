#!/venv/bin/python
"""Markdown table of the seeded changes and the checks that catch them
(from seeded/<Cnn>/<mN>/meta.json and result.json)."""
import glob
import json
import os

VERIF = os.path.dirname(os.path.dirname(os.path.abspath(__file__)))
rows = []
tot = caught_own = 0
for d in sorted(glob.glob(os.path.join(VERIF, "seeded", "C*", "m*"))):
    prop, name = d.split(os.sep)[-2:]
    meta = json.load(open(os.path.join(d, "meta.json")))
    try:
        res = json.load(open(os.path.join(d, "result.json")))
    except Exception:  # noqa
        res = {"checks": {}}
    desc = " ".join(str(meta.get("description", "")).split())
    if len(desc) > 230:
        desc = desc[:227] + "..."
    files = ", ".join(os.path.basename(f) for f in (meta.get("files") or []))[:60]
    own = res["checks"].get(prop)
    how = ""
    if own:
        if own["exit"] != 0:
            ff = own.get("first_failure", "")
            how = ff.split(" :: ")[0][:70] if ff else ("no-failing-input-found" if any("no-failing" in v for v in own.get("violations", [])) else "violation")
        else:
            how = "NOT CAUGHT"
    others = sorted(c for c, e in res["checks"].items() if c != prop and e["exit"] != 0)
    missed = sorted(c for c, e in res["checks"].items() if c != prop and e["exit"] == 0)
    tot += 1
    caught_own += bool(own and own["exit"] != 0)
    rows.append("| %s/%s | %s | %s | %s | %s | %s |" % (prop, name, meta.get("implementation", "?"), desc.replace("|", "/"), how.replace("|", "/"), " ".join(others) or "-", " ".join(missed) or "-"))
print("State after strengthening: %d seeded changes (ten rounds; two or three changes per property and round), %d of them are caught by the quick tier of the check of the property they were aimed at (result.json beside each patch; 'also caught by' / 'not caught by' list the related checks that were run against it).\n" % (tot, caught_own))
print("| change | impl | what was changed | own check reports (signature) | also caught by | run but not caught by |")
print("|---|---|---|---|---|---|")
print("\n".join(rows))
