#!/bin/sh
# behaviour-preserving refactorings: every registered check, quick tier (sequential: /repo is patched in place)
cd /verif
ALL=C01,C02,C03,C04,C05,C06,C07,C08,C09,C10,C11,C12,C13,C14,C15,C16,C17,C18,C19
for d in seeded/harmless/R*; do
  rm -f $d/result.json
  echo "== $d"
  tools/seedrun.py $d --checks $ALL 2>&1 | grep -v WARNING | grep -v "exit=0" | cut -c1-160
done
git -C /repo status --short
echo HARMLESS-DONE
