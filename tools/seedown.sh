#!/bin/sh
# the check of the property each seeded change was aimed at (sequential: /repo is patched in place)
cd /verif
for d in seeded/C*/m*; do
  p=$(basename $(dirname $d))
  echo "== $d: $(tools/seedrun.py $d --checks $p 2>&1 | grep -v WARNING | cut -c1-120)"
done
git -C /repo status --short
echo OWN-DONE
