"""F33: data loss after commit when a registered bucket that is no longer part of the tree
still points (through its next link) at the single leaf the root embeds.
Run:  PYTHONPATH=/repo/src:/verif /venv/bin/python /verif/findings/F33_demo.py
(uses harness/minijar.py as the data manager; commit order = order of registration, as ZODB)."""
import sys
from harness.minijar import Storage, Jar


def scenario(cls):
    cls.max_leaf_size, cls.max_internal_size = 2, 6
    st = Storage()
    jar = Jar(st, "fifo")
    t = cls()
    root = jar.add(t)
    for k in (10, 20, 30, 40):
        t.add(k)
    jar.commit()                       # leaves [10] [20] [30,40] (or similar), all stored
    t.add(11); t.add(12)               # the first leaf splits: the ROOT is registered early in this transaction
    t.add(50)                          # now the last leaf B splits: a NEW leaf N (no oid) behind it, B.next = N
    for k in (10, 11, 12, 20, 30):     # empty and unlink every other leaf; B is detached but still points at N
        t.remove(k)
    if 40 in t and len(t) > 2:
        t.remove(40)
    st_root = t.__getstate__()
    assert len(st_root) == 1, st_root  # the root embeds N
    jar.commit()
    leaf = t._firstbucket
    got_oid = leaf._p_oid is not None
    t.remove(40)                       # changes N only
    jar.commit()
    seen = list(Jar(st).get(root))
    return got_oid, list(t), seen


def main():
    import BTrees.IIBTree as m
    bad = 0
    for name in ("IITreeSet", "IITreeSetPy"):
        cls = getattr(m, name)
        old = cls.max_leaf_size, cls.max_internal_size
        try:
            got_oid, writer, reader = scenario(cls)
        finally:
            cls.max_leaf_size, cls.max_internal_size = old
        print(name, "embedded leaf received an oid during the commit:", got_oid, "| writer holds", writer, "| a fresh reader sees", reader)
        if writer != reader:
            bad = 1
    return bad


sys.exit(main())
