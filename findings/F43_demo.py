"""F43 (C14): pure-Python BTree/TreeSet.minKey(k) swallows a ValueError raised by a key comparison.

_Tree.minKey wrapped bucket.minKey(min) in `except ValueError` (to step to the next bucket when `min` lies behind the
last key of the bucket the search leads to); an exception of that class raised by a COMPARISON inside the bucket's
search was treated the same way, so the caller got a wrong answer instead of the exception.  Exit 1 when the defect is
present, 0 otherwise."""
import sys
from BTrees.OOBTree import OOBTreePy, OOTreeSetPy


class Cmp(ValueError):
    pass


class K:
    fail = False

    def __init__(self, n):
        self.n = n

    def __lt__(self, o):
        if K.fail and self.n == 4 or K.fail and o.n == 4:
            raise Cmp("comparison failed")
        return self.n < o.n

    def __eq__(self, o):
        return self.n == o.n

    def __hash__(self):
        return hash(self.n)


bad = 0
for cls in (OOBTreePy, OOTreeSetPy):
    old = cls.max_leaf_size, cls.max_internal_size
    cls.max_leaf_size, cls.max_internal_size = 2, 3
    try:
        t = cls()
        for n in (4, 8, 10):
            if cls is OOBTreePy:
                t[K(n)] = n
            else:
                t.add(K(n))
        K.fail = True
        try:
            r = t.minKey(K(1))
            print("%s.minKey(K(1)) returned K(%d) although the comparison with K(4) raised" % (cls.__name__, r.n))
            bad = 1
        except Cmp:
            pass
        finally:
            K.fail = False
    finally:
        cls.max_leaf_size, cls.max_internal_size = old
sys.exit(bad)
