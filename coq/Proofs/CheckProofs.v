(* Proofs for C18: the two diagnostic checkers (check_fn, pcheck_fn) accept a
   stored state exactly when it satisfies the globally stated invariant
   inv_stored, and every tree satisfying the C03 invariant is accepted. *)
From Coq Require Import ZArith List Bool Arith Sorted Lia Setoid.
From BT Require Import Model.RTree Model.TreeSpec Model.Check Model.CheckTree.
Import ListNotations.
Open Scope Z_scope.

(* ---------- induction principle for the nested type pnode ---------- *)
Section PInd.
Variable P : pnode -> Prop.
Hypothesis HL : forall i k nx, P (PLeaf i k nx).
Hypothesis HN : forall i f kids, Forall (fun sc => P (snd sc)) kids -> P (PNode i f kids).
Fixpoint pnode_ind' (p : pnode) : P p :=
  match p with
  | PLeaf i k nx => HL i k nx
  | PNode i f kids =>
    HN i f kids
       ((fix go (l : list (Z * pnode)) : Forall (fun sc => P (snd sc)) l :=
           match l with
           | [] => Forall_nil _
           | sc :: r => Forall_cons sc (pnode_ind' (snd sc)) (go r)
           end) kids)
  end.
End PInd.

(* ---------- names for the local fixpoints of Model/Check.v ---------- *)
Section Named.
Variable hi : option Z.
Fixpoint cv_go (first : bool) (lo' : option Z) (l : list (Z * pnode)) {struct l} : bool :=
  match l with
  | [] => true
  | (s, c) :: rest =>
    let lo1 := if first then lo' else Some s in
    let hi1 := match rest with [] => hi | (s2, _) :: _ => Some s2 end in
    check_value lo1 hi1 c && cv_go false lo1 rest
  end.
Fixpoint bo_go (first : bool) (lo' : option Z) (l : list (Z * pnode)) {struct l} : Prop :=
  match l with
  | [] => True
  | (s, c) :: rest =>
    let lo1 := if first then lo' else Some s in
    let hi1 := match rest with [] => hi | (s2, _) :: _ => Some s2 end in
    bounds_ok lo1 hi1 c /\ bo_go false lo1 rest
  end.
End Named.

Fixpoint ls_all (l : list (Z * pnode)) : Prop :=
  match l with [] => True | (_, c) :: r => leaves_sorted c /\ ls_all r end.
Fixpoint sh_all (l : list (Z * pnode)) : Prop :=
  match l with [] => True | (_, c) :: r => shape_ok false c /\ sh_all r end.

Lemma check_value_node i f kids lo hi :
  check_value lo hi (PNode i f kids) =
  check_sorted lo hi (map fst (tl kids)) && cv_go hi true lo kids.
Proof. reflexivity. Qed.
Lemma bounds_ok_node i f kids lo hi :
  bounds_ok lo hi (PNode i f kids) =
  ((forall s, In s (map fst (tl kids)) -> okb lo hi s = true) /\
   StronglySorted Z.lt (map fst (tl kids)) /\ bo_go hi true lo kids).
Proof. reflexivity. Qed.
Lemma leaves_sorted_node i f kids : leaves_sorted (PNode i f kids) = ls_all kids.
Proof. reflexivity. Qed.
Lemma shape_ok_node r i f kids :
  shape_ok r (PNode i f kids) =
  ((kids = [] -> r = true /\ f = None) /\
   (kids <> [] -> f = match pleaves (PNode i f kids) with [] => None | (j, _, _) :: _ => Some j end
                  /\ f <> None) /\
   (forall c1 c2, In c1 (map snd kids) -> In c2 (map snd kids) -> is_pleaf c1 = is_pleaf c2) /\
   sh_all kids).
Proof. reflexivity. Qed.

(* ---------- the value checker ---------- *)
Lemma check_sorted_iff lo hi keys :
  check_sorted lo hi keys = true <->
  StronglySorted Z.lt keys /\ (forall x, In x keys -> okb lo hi x = true).
Proof.
  induction keys as [|x r IH]; simpl.
  - split; [intros _; split; [constructor | intros ? []] | reflexivity].
  - rewrite !andb_true_iff, IH. split.
    + intros [[Hx Hh] [Hs Ha]]. split.
      * constructor; auto. destruct r as [|y r']; constructor.
        -- apply Z.ltb_lt; auto.
        -- inversion Hs; subst. apply Z.ltb_lt in Hh.
           eapply Forall_impl; [|eassumption]. intros; simpl in *; lia.
      * intros z [<-|Hz]; auto.
    + intros [Hs Ha]. inversion Hs; subst. repeat split; auto.
      destruct r as [|y r']; auto. inversion H2; subst. apply Z.ltb_lt; auto.
Qed.

Lemma value_iff : forall p lo hi,
  check_value lo hi p = true <-> leaves_sorted p /\ bounds_ok lo hi p.
Proof.
  induction p using pnode_ind'; intros lo hi.
  - simpl. apply check_sorted_iff.
  - rewrite check_value_node, leaves_sorted_node, bounds_ok_node, andb_true_iff, check_sorted_iff.
    assert (G : forall first lo',
               cv_go hi first lo' kids = true <-> ls_all kids /\ bo_go hi first lo' kids).
    { induction H as [|[s c] rest Hc Hr IH]; intros first lo'; simpl.
      - tauto.
      - simpl in Hc. rewrite andb_true_iff, Hc, IH. tauto. }
    rewrite G. tauto.
Qed.

(* ---------- the pointer checker ---------- *)
Definition pc' (p : pnode) (after : option nat) : bool :=
  match p with PLeaf _ _ nx => onat_eqb nx after | _ => pcheck p after end.

Section PN.
Variable nb : option nat.
Fixpoint pc_leaf (l : list (Z * pnode)) {struct l} : bool :=
  match l with
  | [] => true
  | (_, c) :: rest =>
    let after := match rest with [] => nb | (_, c2) :: _ => pfirst c2 end in
    (match c with PLeaf _ _ nx => onat_eqb nx after | _ => false end) && pc_leaf rest
  end.
Fixpoint pc_node (l : list (Z * pnode)) {struct l} : bool :=
  match l with
  | [] => true
  | (_, c) :: rest =>
    let after := match rest with [] => nb | (_, c2) :: _ => pfirst c2 end in
    pcheck c after && pc_node rest
  end.
Fixpoint pc_go (l : list (Z * pnode)) {struct l} : bool :=
  match l with
  | [] => true
  | (_, c) :: rest =>
    let after := match rest with [] => nb | (_, c2) :: _ => pfirst c2 end in
    pc' c after && pc_go rest
  end.
End PN.

Lemma pcheck_cons i f s0 c0 k' nb :
  pcheck (PNode i f ((s0, c0) :: k')) nb =
  negb (onat_eqb f None) &&
  forallb (fun sc => Bool.eqb (is_pleaf (snd sc)) (is_pleaf c0) && negb (psize (snd sc) =? 0)%nat)
          ((s0, c0) :: k') &&
  (if is_pleaf c0 then onat_eqb f (pfirst c0) && pc_leaf nb ((s0, c0) :: k')
   else onat_eqb f (pfirst c0) && pc_node nb ((s0, c0) :: k')).
Proof. reflexivity. Qed.

Lemma onat_eqb_iff a b : onat_eqb a b = true <-> a = b.
Proof.
  destruct a, b; simpl; try (split; congruence).
  rewrite Nat.eqb_eq. split; congruence.
Qed.

Lemma pc_leaf_go nb l :
  Forall (fun sc => is_pleaf (snd sc) = true) l -> pc_leaf nb l = pc_go nb l.
Proof.
  induction 1 as [|[s c] rest Hc Hr IH]; simpl; auto.
  rewrite IH. destruct c; simpl in *; [reflexivity | discriminate].
Qed.
Lemma pc_node_go nb l :
  Forall (fun sc => is_pleaf (snd sc) = false) l -> pc_node nb l = pc_go nb l.
Proof.
  induction 1 as [|[s c] rest Hc Hr IH]; simpl; auto.
  rewrite IH. destruct c; simpl in *; [discriminate | reflexivity].
Qed.

Lemma pcheck_cons_iff i f s0 c0 k' nb :
  pcheck (PNode i f ((s0, c0) :: k')) nb = true <->
  f <> None /\
  Forall (fun sc => is_pleaf (snd sc) = is_pleaf c0 /\ psize (snd sc) <> 0%nat) ((s0, c0) :: k') /\
  f = pfirst c0 /\ pc_go nb ((s0, c0) :: k') = true.
Proof.
  rewrite pcheck_cons. set (kids := (s0, c0) :: k').
  assert (F : forallb (fun sc => Bool.eqb (is_pleaf (snd sc)) (is_pleaf c0)
                                 && negb (psize (snd sc) =? 0)%nat) kids = true <->
              Forall (fun sc => is_pleaf (snd sc) = is_pleaf c0 /\ psize (snd sc) <> 0%nat) kids).
  { rewrite forallb_forall, Forall_forall.
    split; intros H x Hx; specialize (H x Hx);
      rewrite andb_true_iff, negb_true_iff, Nat.eqb_neq, eqb_true_iff in *; auto. }
  assert (E : Forall (fun sc => is_pleaf (snd sc) = is_pleaf c0 /\ psize (snd sc) <> 0%nat) kids ->
              (if is_pleaf c0 then onat_eqb f (pfirst c0) && pc_leaf nb kids
               else onat_eqb f (pfirst c0) && pc_node nb kids) =
              onat_eqb f (pfirst c0) && pc_go nb kids).
  { intros HF. destruct (is_pleaf c0).
    - rewrite pc_leaf_go; auto. eapply Forall_impl; [|exact HF]. simpl; tauto.
    - rewrite pc_node_go; auto. eapply Forall_impl; [|exact HF]. simpl; tauto. }
  assert (N : negb (onat_eqb f None) = true <-> f <> None).
  { destruct f; simpl; split; congruence. }
  rewrite !andb_true_iff, N, F. split.
  - intros [[A B] C]. rewrite (E B), andb_true_iff, onat_eqb_iff in C. tauto.
  - intros (A & B & C & D). rewrite (E B), andb_true_iff, onat_eqb_iff. tauto.
Qed.

(* ---------- shape and chain ---------- *)
Definition hd_id (ls : list (nat * list Z * option nat)) (after : option nat) : option nat :=
  match ls with [] => after | (i, _, _) :: _ => Some i end.

Lemma chain_app l1 l2 after :
  chain_ok (l1 ++ l2) after <-> chain_ok l1 (hd_id l2 after) /\ chain_ok l2 after.
Proof.
  induction l1 as [|[[i k] nx] l1 IH]; simpl.
  - tauto.
  - rewrite IH. destruct l1 as [|[[i1 k1] nx1] l1]; simpl.
    + destruct l2 as [|[[i2 k2] nx2] l2]; simpl; tauto.
    + tauto.
Qed.

Lemma shape_first p :
  shape_ok false p ->
  exists i k nx rest, pleaves p = (i, k, nx) :: rest /\ pfirst p = Some i.
Proof.
  destruct p as [i k nx|i f kids].
  - simpl; eauto 6.
  - rewrite shape_ok_node. intros (H1 & H2 & _).
    destruct kids as [|sc kids].
    + destruct H1; auto; discriminate.
    + destruct H2 as [E N]; [discriminate|]. simpl pfirst.
      destruct (pleaves (PNode i f (sc :: kids))) as [|[[j k] nx] rest].
      * congruence.
      * eauto 6.
Qed.

Lemma shape_size p : shape_ok false p -> psize p <> 0%nat.
Proof.
  destruct p as [i k nx|i f kids].
  - simpl. destruct k; simpl; congruence.
  - rewrite shape_ok_node. intros (H1 & _). destruct kids; simpl; [|congruence].
    destruct H1; auto; discriminate.
Qed.

Lemma sh_all_size l : sh_all l -> Forall (fun sc => psize (snd sc) <> 0%nat) l.
Proof.
  induction l as [|[s c] r IH]; simpl; intros H; constructor.
  - simpl. apply shape_size; tauto.
  - apply IH; tauto.
Qed.

Lemma hd_flat nb rest :
  sh_all rest ->
  hd_id (flat_map (fun sc => pleaves (snd sc)) rest) nb =
  match rest with [] => nb | (_, c2) :: _ => pfirst c2 end.
Proof.
  destruct rest as [|[s2 c2] r]; simpl; auto.
  intros [H _]. destruct (shape_first _ H) as (i & k & nx & r' & E & F).
  rewrite E, F. reflexivity.
Qed.

Definition good_spec (p : pnode) : Prop :=
  forall after, psize p <> 0%nat ->
    (pc' p after = true <-> shape_ok false p /\ chain_ok (pleaves p) after).

Lemma pc_go_iff nb l :
  Forall (fun sc => good_spec (snd sc)) l ->
  Forall (fun sc => psize (snd sc) <> 0%nat) l ->
  (pc_go nb l = true <->
   sh_all l /\ chain_ok (flat_map (fun sc => pleaves (snd sc)) l) nb).
Proof.
  induction l as [|[s c] rest IH]; intros HI HS; simpl.
  - tauto.
  - inversion HI as [|? ? Hc HIr]; inversion HS as [|? ? Sc HSr]; subst. simpl in *.
    rewrite andb_true_iff, chain_app, (Hc _ Sc), (IH HIr HSr).
    split.
    + intros [[A B] [C D]]. rewrite (hd_flat _ _ C). tauto.
    + intros [[A C] [B D]]. rewrite (hd_flat _ _ C) in B. tauto.
Qed.

Lemma node_iff i f s0 c0 k' :
  Forall (fun sc => good_spec (snd sc)) ((s0, c0) :: k') ->
  forall r nb,
    pcheck (PNode i f ((s0, c0) :: k')) nb = true <->
    shape_ok r (PNode i f ((s0, c0) :: k')) /\
    chain_ok (pleaves (PNode i f ((s0, c0) :: k'))) nb.
Proof.
  intros HI r nb. rewrite pcheck_cons_iff, shape_ok_node.
  change (pleaves (PNode i f ((s0, c0) :: k')))
    with (flat_map (fun sc => pleaves (snd sc)) ((s0, c0) :: k')).
  set (kids := (s0, c0) :: k') in *.
  assert (HD : sh_all kids ->
            match flat_map (fun sc => pleaves (snd sc)) kids with
            | [] => None | (j, _, _) :: _ => Some j end = pfirst c0).
  { intros [Hc0 _]. destruct (shape_first _ Hc0) as (j & k & nx & r' & E & F).
    unfold kids. simpl flat_map. rewrite E, F. reflexivity. }
  split.
  - intros (Hf & HF & Hfc & Hgo).
    assert (HS : Forall (fun sc => psize (snd sc) <> 0%nat) kids).
    { eapply Forall_impl; [|exact HF]. simpl; tauto. }
    apply pc_go_iff in Hgo; auto. destruct Hgo as [Hsh Hch].
    split; auto. split; [intros; discriminate|].
    split; [intros _; split; auto; rewrite (HD Hsh); auto|].
    split; auto.
    intros c1 c2 H1 H2. apply in_map_iff in H1, H2.
    destruct H1 as (x1 & <- & I1), H2 as (x2 & <- & I2).
    rewrite Forall_forall in HF.
    destruct (HF _ I1) as [-> _], (HF _ I2) as [-> _]. reflexivity.
  - intros ((_ & H2 & Hk & Hsh) & Hch).
    pose proof (sh_all_size _ Hsh) as HS.
    destruct H2 as [E N]; [discriminate|].
    split; auto. split.
    + apply Forall_forall. intros sc Hin. split.
      * apply Hk; [apply in_map; auto | simpl; auto].
      * rewrite Forall_forall in HS. auto.
    + split; [rewrite (HD Hsh) in E; auto|].
      apply pc_go_iff; auto.
Qed.

Lemma pc'_iff : forall p, good_spec p.
Proof.
  induction p using pnode_ind'; intros after Hs.
  - simpl. rewrite onat_eqb_iff. simpl in Hs. split.
    + intros ->. repeat split; auto. intro; subst; apply Hs; reflexivity.
    + intros (_ & E & _); auto.
  - destruct kids as [|[s0 c0] k']; [simpl in Hs; congruence|].
    apply node_iff; auto.
Qed.

Lemma pcheck_root p nb :
  is_pleaf p = false ->
  (pcheck p nb = true <-> shape_ok true p /\ chain_ok (pleaves p) nb).
Proof.
  destruct p as [|i f kids]; [discriminate|]. intros _.
  destruct kids as [|[s0 c0] k'].
  - simpl. rewrite onat_eqb_iff. split.
    + intros ->. split; [|exact I]. split; [auto|]. split; [intros H; destruct H; reflexivity|].
      split; [intros ? ? []|exact I].
    + intros ((H & _) & _). apply H; auto.
  - apply node_iff. apply Forall_forall. intros; apply pc'_iff.
Qed.

Theorem checkers_iff p :
  inv_stored p <-> is_pleaf p = false /\ check_fn p = true /\ pcheck_fn p = true.
Proof.
  unfold inv_stored, check_fn, pcheck_fn. split.
  - intros (L & S & B & C & H). split; auto. split.
    + apply value_iff; auto.
    + apply pcheck_root; auto.
  - intros (L & V & P). apply value_iff in V. apply (pcheck_root _ _ L) in P. tauto.
Qed.

Theorem checkers_sound : forall p : pnode,
  inv_stored p -> check_fn p = true /\ pcheck_fn p = true.
Proof. intros p H. apply checkers_iff in H. tauto. Qed.

Theorem checkers_complete : forall p : pnode,
  is_pleaf p = false -> check_fn p = true -> pcheck_fn p = true -> inv_stored p.
Proof. intros p A B C. apply checkers_iff. auto. Qed.

(* ---------- trees built through the API ---------- *)
Section Api.
Variable V : Type.
Variables ml mi : nat.
Notation tree := (tree V).

Section TInd.
Variable P : tree -> Prop.
Hypothesis HL : forall i l, P (Leaf i l).
Hypothesis HN : forall i kids, Forall (fun sc => P (snd sc)) kids -> P (Node i kids).
Fixpoint tree_ind' (t : tree) : P t :=
  match t with
  | Leaf i l => HL i l
  | Node i kids =>
    HN i kids
       ((fix go (l : list (Z * tree)) : Forall (fun sc => P (snd sc)) l :=
           match l with
           | [] => Forall_nil _
           | sc :: r => Forall_cons sc (tree_ind' (snd sc)) (go r)
           end) kids)
  end.
End TInd.

Section WG.
Variable c0 : tree.
Variable hi : option Z.
Fixpoint wf_go (first : bool) (lo' : option Z) (l : list (Z * tree)) {struct l} : bool :=
  match l with
  | [] => true
  | (s, c) :: rest =>
    let lo1 := if first then lo' else Some s in
    let hi1 := match rest with [] => hi | (s2, _) :: _ => Some s2 end in
    (first || (within lo' hi s && opt_eqb (tmin V c) s)) &&
    Bool.eqb (is_leaf V c) (is_leaf V c0) && (depth V c =? depth V c0)%nat &&
    wf_node V ml mi false lo1 hi1 c && wf_go false lo1 rest
  end.
End WG.

Section TG.
Variable after : option nat.
Fixpoint tp_go (l : list (Z * tree)) : list (Z * pnode) :=
  match l with
  | [] => []
  | (s, c) :: rest =>
    (s, to_p V c (match rest with [] => after | (_, c2) :: _ => first_id V c2 end)) :: tp_go rest
  end.
End TG.

Lemma wf_node_cons r lo hi i s0 c0 k' :
  wf_node V ml mi r lo hi (Node i ((s0, c0) :: k')) =
  negb (length ((s0, c0) :: k') =? 0)%nat &&
  (if r then (length ((s0, c0) :: k') <? 2 * mi)%nat else (length ((s0, c0) :: k') <=? mi)%nat) &&
  wf_go c0 hi true lo ((s0, c0) :: k').
Proof. reflexivity. Qed.

Lemma to_p_node i kids after :
  to_p V (Node i kids) after = PNode i (first_id V (Node i kids)) (tp_go after kids).
Proof. reflexivity. Qed.

Lemma wf_go_inv c0 hi first lo' s c rest :
  wf_go c0 hi first lo' ((s, c) :: rest) = true ->
  (first = true \/ (within lo' hi s = true /\ tmin V c = Some s)) /\
  is_leaf V c = is_leaf V c0 /\
  wf_node V ml mi false (if first then lo' else Some s)
          (match rest with [] => hi | (s2, _) :: _ => Some s2 end) c = true /\
  wf_go c0 hi false (if first then lo' else Some s) rest = true.
Proof.
  simpl. rewrite !andb_true_iff, orb_true_iff, andb_true_iff, eqb_true_iff.
  intros [[[[A B] C] D] E]. repeat split; auto.
  destruct A as [A|[A1 A2]]; auto. right. split; auto.
  unfold opt_eqb in A2. destruct (tmin V c); [|discriminate].
  apply Z.eqb_eq in A2. congruence.
Qed.

Lemma okb_within lo hi x : okb lo hi x = within lo hi x.
Proof. reflexivity. Qed.

Lemma check_sorted_cons lo hi x r :
  check_sorted lo hi (x :: r) =
  okb lo hi x && (match r with [] => true | y :: _ => x <? y end) && check_sorted lo hi r.
Proof. reflexivity. Qed.

Lemma leaf_sorted lo hi ks :
  strictly_sorted_b ks = true -> forallb (within lo hi) ks = true ->
  check_sorted lo hi ks = true.
Proof.
  induction ks as [|x r IH]; auto.
  intros H1 H2. simpl in H2. apply andb_true_iff in H2 as [W F].
  rewrite check_sorted_cons, okb_within, W.
  destruct r as [|y r']; [reflexivity|].
  change (strictly_sorted_b (x :: y :: r')) with ((x <? y) && strictly_sorted_b (y :: r')) in H1.
  apply andb_true_iff in H1 as [A B]. rewrite A. simpl andb. apply IH; auto.
Qed.

Lemma within_shrink lo hi s2 k :
  within lo (Some s2) k = true -> within lo hi s2 = true -> within lo hi k = true.
Proof.
  unfold within, above, below. rewrite !andb_true_iff.
  destruct lo, hi; rewrite ?Z.leb_le, ?Z.ltb_lt; intuition lia.
Qed.

Lemma tmin_within : forall t r lo hi k,
  wf_node V ml mi r lo hi t = true -> tmin V t = Some k -> within lo hi k = true.
Proof.
  induction t using tree_ind'; intros r lo hi k W T.
  - simpl in W, T. destruct l as [|[k0 v] l']; [discriminate|]. inversion T; subst.
    rewrite !andb_true_iff in W. destruct W as [_ F]. simpl in F.
    apply andb_true_iff in F. tauto.
  - destruct kids as [|[s0 c0] k']; [discriminate|].
    rewrite wf_node_cons, !andb_true_iff in W. destruct W as [_ G].
    apply wf_go_inv in G. destruct G as (_ & _ & Wc & Gr).
    inversion H as [|? ? Hc _]; subst. simpl in Hc, T.
    specialize (Hc _ _ _ _ Wc T).
    destruct k' as [|[s2 c2] r']; auto.
    apply wf_go_inv in Gr. destruct Gr as ([Gr|[Gr _]] & _); [discriminate|].
    eapply within_shrink; eauto.
Qed.

Lemma seps c0 lo hi : forall l lo',
  (forall x, above lo' x = true -> above lo x = true) ->
  wf_go c0 hi false lo' l = true -> check_sorted lo hi (map fst l) = true.
Proof.
  induction l as [|[s c] rest IH]; intros lo' A G; [reflexivity|].
  apply wf_go_inv in G. destruct G as ([G|[W T]] & _ & Wc & Gr); [discriminate|].
  change (map fst ((s, c) :: rest)) with (s :: map fst rest).
  rewrite check_sorted_cons, !andb_true_iff. split; [split|].
  - rewrite okb_within. unfold within in *. apply andb_true_iff in W as [W1 W2].
    rewrite (A _ W1), W2. reflexivity.
  - destruct rest as [|[s2 c2] r']; [reflexivity|]. simpl.
    pose proof (tmin_within _ _ _ _ _ Wc T) as Q.
    unfold within, above, below in Q. apply andb_true_iff in Q. tauto.
  - apply (IH (Some s)); auto.
    intros x Hx. apply A. unfold within in W. apply andb_true_iff in W as [W1 _].
    simpl in Hx. apply Z.leb_le in Hx.
    destruct lo' as [a|]; simpl in *; auto. apply Z.leb_le in W1. apply Z.leb_le. lia.
Qed.

Definition value_spec (t : tree) : Prop :=
  forall r lo hi after,
    wf_node V ml mi r lo hi t = true -> check_value lo hi (to_p V t after) = true.

Lemma cv_tp c0 hi after l :
  Forall (fun sc => value_spec (snd sc)) l ->
  forall first lo', wf_go c0 hi first lo' l = true ->
                    cv_go hi first lo' (tp_go after l) = true.
Proof.
  induction 1 as [|[s c] rest Hc Hr IH]; intros first lo' G; [reflexivity|].
  apply wf_go_inv in G. destruct G as (_ & _ & Wc & Gr).
  specialize (IH _ _ Gr). simpl in Hc.
  destruct rest as [|[s2 c2] r']; simpl in *.
  - rewrite (Hc _ _ _ _ Wc). reflexivity.
  - rewrite (Hc _ _ _ _ Wc). simpl. exact IH.
Qed.

Lemma value_tree : forall t, value_spec t.
Proof.
  induction t using tree_ind'; intros r lo hi after W.
  - simpl in *. rewrite !andb_true_iff in W. destruct W as [[_ S] F].
    apply leaf_sorted; auto.
  - destruct kids as [|[s0 c0] k']; [discriminate|].
    rewrite to_p_node, check_value_node. rewrite wf_node_cons, !andb_true_iff in W.
    destruct W as [_ G]. apply andb_true_iff. split.
    + change (tl (tp_go after ((s0, c0) :: k'))) with (tp_go after k').
      assert (M : forall l, map fst (tp_go after l) = map fst l).
      { induction l as [|[s c] l IHl]; simpl; congruence. }
      rewrite M. apply wf_go_inv in G. destruct G as (_ & _ & _ & Gr).
      eapply seps; [|exact Gr]. auto.
    + eapply cv_tp; eauto.
Qed.

Lemma pfirst_to_p t a : pfirst (to_p V t a) = first_id V t.
Proof. destruct t; reflexivity. Qed.
Lemma is_pleaf_to_p t a : is_pleaf (to_p V t a) = is_leaf V t.
Proof. destruct t; reflexivity. Qed.
Lemma psize_to_p t a : psize (to_p V t a) = tsize V t.
Proof.
  destruct t as [i l|i kids].
  - simpl. apply map_length.
  - rewrite to_p_node. simpl. induction kids as [|[s c] r IH]; simpl; congruence.
Qed.

Lemma wf_size r lo hi t : wf_node V ml mi r lo hi t = true -> tsize V t <> 0%nat.
Proof.
  destruct t as [i l|i kids]; simpl; rewrite !andb_true_iff, negb_true_iff, Nat.eqb_neq; tauto.
Qed.

Lemma wf_first : forall t r lo hi,
  wf_node V ml mi r lo hi t = true -> first_id V t <> None.
Proof.
  induction t using tree_ind'; intros r lo hi W.
  - simpl. discriminate.
  - destruct kids as [|[s0 c0] k']; [discriminate|].
    rewrite wf_node_cons, !andb_true_iff in W. destruct W as [_ G].
    apply wf_go_inv in G. destruct G as (_ & _ & Wc & _).
    inversion H as [|? ? Hc _]; subst. simpl in *. eapply Hc; eauto.
Qed.

Lemma kinds_tp c0 hi after : forall l first lo',
  wf_go c0 hi first lo' l = true ->
  Forall (fun sc => is_pleaf (snd sc) = is_leaf V c0 /\ psize (snd sc) <> 0%nat) (tp_go after l).
Proof.
  induction l as [|[s c] rest IH]; intros first lo' G; simpl; constructor.
  - apply wf_go_inv in G. destruct G as (_ & K & Wc & _). simpl.
    rewrite is_pleaf_to_p, psize_to_p. split; auto. eapply wf_size; eauto.
  - apply wf_go_inv in G. destruct G as (_ & _ & _ & Gr). eapply IH; eauto.
Qed.

Definition ptr_spec (t : tree) : Prop :=
  forall r lo hi after,
    wf_node V ml mi r lo hi t = true -> pc' (to_p V t after) after = true.

Lemma pc_tp c0 hi after l :
  Forall (fun sc => ptr_spec (snd sc)) l ->
  forall first lo', wf_go c0 hi first lo' l = true -> pc_go after (tp_go after l) = true.
Proof.
  induction 1 as [|[s c] rest Hc Hr IH]; intros first lo' G; [reflexivity|].
  apply wf_go_inv in G. destruct G as (_ & _ & Wc & Gr).
  specialize (IH _ _ Gr). simpl in Hc.
  destruct rest as [|[s2 c2] r'].
  - simpl. rewrite (Hc _ _ _ _ Wc). reflexivity.
  - change (pc_go after (tp_go after ((s, c) :: (s2, c2) :: r'))) with
        (pc' (to_p V c (first_id V c2))
             (pfirst (to_p V c2 (match r' with [] => after | (_, c3) :: _ => first_id V c3 end)))
         && pc_go after (tp_go after ((s2, c2) :: r'))).
    rewrite pfirst_to_p, (Hc _ _ _ _ Wc), IH. reflexivity.
Qed.

Lemma ptr_tree : forall t, ptr_spec t.
Proof.
  induction t using tree_ind'; intros r lo hi after W.
  - simpl. apply onat_eqb_iff. reflexivity.
  - destruct kids as [|[s0 c0] k']; [discriminate|].
    pose proof (wf_first _ _ _ _ W) as HF.
    rewrite to_p_node.
    change (pc' (PNode i (first_id V (Node i ((s0, c0) :: k'))) (tp_go after ((s0, c0) :: k'))) after)
      with (pcheck (PNode i (first_id V (Node i ((s0, c0) :: k'))) (tp_go after ((s0, c0) :: k'))) after).
    rewrite wf_node_cons, !andb_true_iff in W. destruct W as [_ G].
    pose proof (kinds_tp _ _ after _ _ _ G) as K.
    pose proof (pc_tp _ _ after _ H _ _ G) as PG.
    set (a0 := match k' with [] => after | (_, c2) :: _ => first_id V c2 end).
    change (tp_go after ((s0, c0) :: k')) with ((s0, to_p V c0 a0) :: tp_go after k') in *.
    apply pcheck_cons_iff. split; auto. split; [|split; auto].
    + eapply Forall_impl; [|exact K]. intros sc. rewrite is_pleaf_to_p. auto.
    + rewrite pfirst_to_p. reflexivity.
Qed.

Theorem api_trees_accepted_sec : forall t : tree,
  Inv V ml mi t ->
  inv_stored (stored V t) /\ check_fn (stored V t) = true /\ pcheck_fn (stored V t) = true.
Proof.
  intros t I. unfold Inv, wfb in I.
  assert (Q : is_pleaf (stored V t) = false /\
              check_fn (stored V t) = true /\ pcheck_fn (stored V t) = true).
  { destruct t as [i l|i kids]; [discriminate|].
    destruct kids as [|[s0 c0] k'].
    - repeat split.
    - split; [reflexivity|]. split.
      + apply (value_tree _ _ _ _ None I).
      + apply (ptr_tree _ _ _ _ None I). }
  split; [|tauto]. apply checkers_iff. exact Q.
Qed.
End Api.

Theorem api_trees_accepted : forall (V : Type) (ml mi : nat) (t : tree V),
  Inv V ml mi t ->
  inv_stored (stored V t) /\ check_fn (stored V t) = true /\ pcheck_fn (stored V t) = true.
Proof. exact api_trees_accepted_sec. Qed.

