(* ChainStateProofs -- __getstate__ READS the pointers (self._next,
   self._firstbucket); Persist.getstate (C04, C05, C06, C08) computes them from
   the tree (successor in the in-order leaf sequence, first leaf below the
   node).  On every heap that realises the tree (chain_ok -- which every
   history of public calls maintains: C03_chain_calls) the two agree for every
   node, so what C04 proves about Persist.getstate is about the state the code
   pickles.  No axioms. *)
From Coq Require Import ZArith List Bool Arith Lia.
From BT Require Import Model.RTree Model.TreeSpec Model.TreeRun Model.Check Model.CheckTree Model.Persist Model.PersistSpec
                       Model.Chain Model.ChainRun Proofs.TreeBase Proofs.TreeProofs Proofs.StoreProofs Proofs.FootprintProofs
                       Proofs.ChainProofs Proofs.ChainRunProofs.
Import ListNotations.
Local Open Scope nat_scope.

Section CS.
Variable V : Type.
Notation tree := (tree V).
Notation subs := (FootprintProofs.subs V).
Notation lids := (leaf_ids V).

Notation pgetstate := (Chain.pgetstate V).

Lemma subs_trans : forall (t n m : tree), In n (subs t) -> In m (subs n) -> In m (subs t).
Proof.
  induction t as [i l|i kids IH] using (tree_ind' V); intros n m Hn Hm.
  - destruct Hn as [<-|[]]. exact Hm.
  - rewrite subs_Node in Hn. destruct Hn as [<-|Hn]; [exact Hm|].
    unfold ksubs in Hn. apply in_flat_map in Hn. destruct Hn as ([s c] & Hin & Hn). simpl in Hn.
    rewrite subs_Node. right. eapply ksubs_in; [exact Hin|].
    rewrite Forall_forall in IH. eapply (IH _ Hin); eassumption.
Qed.

Lemma lne_sub : forall t n, lne V t -> In n (subs t) -> lne V n.
Proof. intros t n H Hn m Hm. apply H. eapply subs_trans; eassumption. Qed.

Lemma fbs_sub : forall (t : tree) i kids, In (Node i kids) (subs t) ->
  In (i, hd_or (lids (Node i kids)) None) (fbs V t).
Proof.
  induction t as [j l|j kk IH] using (tree_ind' V); intros i kids Hn.
  - destruct Hn as [E|[]]. discriminate E.
  - rewrite subs_Node in Hn. destruct Hn as [E|Hn].
    + inversion E; subst. simpl. left. reflexivity.
    + unfold ksubs in Hn. apply in_flat_map in Hn. destruct Hn as ([s c] & Hin & Hn). simpl in Hn.
      simpl. right. apply in_flat_map. exists (s, c). split; [exact Hin|].
      rewrite Forall_forall in IH. apply (IH _ Hin). exact Hn.
Qed.

Lemma lids_sub : forall (t n : tree) x, In n (subs t) -> In x (lids n) -> In x (lids t).
Proof.
  induction t as [j l|j kk IH] using (tree_ind' V); intros n x Hn Hx.
  - destruct Hn as [<-|[]]. exact Hx.
  - rewrite subs_Node in Hn. destruct Hn as [<-|Hn]; [exact Hx|].
    unfold ksubs in Hn. apply in_flat_map in Hn. destruct Hn as ([s c] & Hin & Hn). simpl in Hn.
    rewrite leaf_ids_Node. unfold StoreProofs.kids_lids. apply in_flat_map. exists (s, c). split; [exact Hin|].
    rewrite Forall_forall in IH. eapply (IH _ Hin); eassumption.
Qed.

Theorem pgetstate_getstate : forall (t : tree) (h : heap) (stored : list nat),
  lne V t -> NoDup (ids V t) -> chain_ok V h t ->
  forall n, In n (subs t) -> pgetstate h stored n = getstate V stored t n.
Proof.
  intros t h stored Hl ND [Hc Hf] n Hn.
  assert (Hnx : forall x, In x (lids t) -> nx h x = succ_of (lids t) x).
  { apply chain_succ; [apply lids_NoDup; exact ND | exact Hc]. }
  assert (Hfb : forall i kids, In (Node i kids) (subs t) -> fb h i = first_leaf V (Node i kids)).
  { intros i kids Hin. rewrite (first_leaf_hd V _ (lne_sub _ _ Hl Hin)).
    unfold fbs_ok in Hf. rewrite Forall_forall in Hf. apply (Hf _ (fbs_sub t i kids Hin)). }
  destruct n as [i items|i kids].
  - simpl. f_equal. apply Hnx. eapply lids_sub; [exact Hn | left; reflexivity].
  - destruct kids as [|[s c] r]; [reflexivity|].
    destruct c as [l items|j kk].
    + destruct r as [|x r'].
      * simpl. destruct (mem l stored).
        -- f_equal. rewrite (Hfb _ _ Hn). reflexivity.
        -- f_equal. apply Hnx. eapply lids_sub; [exact Hn|]. rewrite leaf_ids_Node. left. reflexivity.
      * simpl. f_equal. exact (Hfb _ _ Hn).
    + simpl. f_equal. exact (Hfb _ _ Hn).
Qed.
End CS.

Section CSTop.
Variable V : Type.
Variables ml mi : nat.
Hypothesis Hml : 1 <= ml.
Hypothesis Hmi : 2 <= mi.

(* for the trees of the API: every object's pickled state, with next and
   firstbucket READ from the heap, is the state the persistence model uses *)
Theorem getstate_reads_pointers : forall (t : tree V) (h : heap) (stored : list nat),
  Inv V ml mi t -> NoDup (ids V t) -> chain_ok V h t ->
  forall i n, find_node V t i = Some n -> Chain.pgetstate V h stored n = getstate V stored t n.
Proof.
  intros t h stored HI ND Hok i n Hf.
  destruct (Inv_facts V ml mi Hml Hmi t HI) as (i0 & kids & -> & [->|[Hl _]]).
  - simpl in Hf. destruct (Nat.eqb i0 i); [|discriminate Hf]. injection Hf as <-. reflexivity.
  - apply find_node_subs in Hf. destruct Hf as [Hn _].
    apply pgetstate_getstate; assumption.
Qed.
End CSTop.

Section CSRun.
Variables vs ir : bool.
Variables ml mi : nat.
Hypothesis Hml : 1 <= ml.
Hypothesis Hmi : 2 <= mi.

Theorem getstate_after_history : forall (calls : list call) (stored : list nat),
  let sp := api_run vs ir ml mi calls in
  let t := t_tree (fst (run vs ir ml mi init calls)) in
  forall i n, find_node Z t i = Some n ->
    Chain.pgetstate Z (p_heap (snd sp)) stored n = getstate Z stored t n.
Proof.
  intros calls stored sp t i n Hf.
  destruct (chain_calls vs ir ml mi Hml Hmi calls) as (A & B & C & _). fold sp in A, B, C.
  unfold t. rewrite <- A.
  pose proof (inv_reachable vs ir ml mi calls Hml Hmi) as HI. rewrite <- A in HI.
  assert (P0 : pst_ok ml mi pinit) by (apply (chain_reachable vs ml mi Hml Hmi [])).
  destruct (api_fold vs ir ml mi Hml Hmi calls init pinit (conj eq_refl eq_refl) P0) as (_ & _ & (_ & [ND _] & _)).
  fold (api_run vs ir ml mi calls) in ND. fold sp in ND. rewrite B in ND.
  unfold t in Hf. rewrite <- A in Hf.
  exact (getstate_reads_pointers Z ml mi Hml Hmi _ _ stored HI ND C i n Hf).
Qed.
End CSRun.
