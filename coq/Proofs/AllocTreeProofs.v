(* Proofs for the interior-node part of C17 (Model/AllocTree.v): wherever the
   failing request is placed, BTree_grow and BTree_split_root leave every live
   block owned exactly once (nothing dangling, nothing leaked), the node's
   len within its size, and len unchanged on MemoryError.  No axioms. *)
From Coq Require Import List Bool Arith Lia Permutation.
From BT Require Import Model.Alloc Model.AllocTree Proofs.AllocProofs.
Import ListNotations.

Lemma acct_perm : forall h fr own own', Permutation own own' -> acct h fr own -> acct h fr own'.
Proof.
  intros h fr own own' P (A & B & C).
  assert (P' : Permutation (fr ++ own) (fr ++ own')) by (apply Permutation_app_head; exact P).
  split; [eapply Permutation_NoDup; eassumption|]. split; [|exact C].
  intros x. rewrite B. split; intro H; [eapply Permutation_in; eassumption|].
  eapply Permutation_in; [apply Permutation_sym; exact P' | exact H].
Qed.

Lemma acct_fresh : forall h fr own, acct h fr own -> ~ In (nextid h) (fr ++ own).
Proof. intros h fr own (_ & B & C) H. apply B in H. apply C in H. lia. Qed.

Lemma acct_malloc_ok : forall h fr own k h', acct h fr own -> malloc h = (Some k, h') ->
  acct h' fr (k :: own).
Proof.
  intros h fr own k h' Ha E. pose proof (acct_fresh _ _ _ Ha) as F.
  apply malloc_spec in E. destruct E as (-> & E1 & E2). destruct Ha as (A & B & C).
  split; [|split].
  - apply (Permutation_NoDup (l := nextid h :: fr ++ own)); [apply Permutation_middle|].
    constructor; assumption.
  - intros x. rewrite E1. simpl. rewrite B. rewrite !in_app_iff. simpl. tauto.
  - intros x. rewrite E1, E2. simpl. intros [<-|H]; [lia|]. apply C in H. lia.
Qed.
Lemma acct_malloc_fail : forall h fr own h', acct h fr own -> malloc h = (None, h') -> acct h' fr own.
Proof.
  intros h fr own h' (A & B & C) E. apply malloc_spec in E. destruct E as [E1 E2].
  split; [exact A|]. split; intros x; rewrite E1, ?E2; [apply B | apply C].
Qed.

Lemma acct_release : forall h fr b own, acct h fr (b :: own) -> acct (release b h) fr own.
Proof.
  intros h fr b own (A & B & C).
  assert (A' : NoDup (b :: fr ++ own)).
  { apply (Permutation_NoDup (l := fr ++ b :: own)); [apply Permutation_sym, Permutation_middle | exact A]. }
  inversion A' as [|? ? Hn ND]; subst.
  split; [exact ND|]. split.
  - intros x. rewrite release_live, B, !in_app_iff. simpl. split.
    + intros [[H|[H|H]] Hx]; [left; exact H | congruence | right; exact H].
    + intros H. split; [destruct H; [left|right; right]; assumption|].
      intro. subst x. apply Hn. apply in_or_app. exact H.
  - intros x. rewrite release_live, release_nextid. intros [H _]. apply C. exact H.
Qed.

Lemma acct_realloc_ok : forall h fr d own k h', acct h fr (d :: own) ->
  realloc (Some d) h = (Some k, h') -> acct h' fr (k :: own).
Proof.
  intros h fr d own k h' Ha E.
  unfold realloc in E. destruct (request h) as [[u|] h1] eqn:R; [|discriminate E].
  assert (Ha1 : acct h1 fr (d :: own)).
  { apply request_spec in R. destruct R as [R1 R2]. destruct Ha as (A & B & C).
    split; [exact A|]. split; intros x; rewrite R1, ?R2; [apply B | apply C]. }
  pose proof (acct_release _ _ _ _ Ha1) as Hr.
  assert (Em : malloc (mkH (live (release d h1)) (nextid (release d h1)) 0) =
               (Some (nextid h1), mkH (nextid h1 :: live (release d h1)) (S (nextid h1)) 0)) by reflexivity.
  unfold fresh_block in E. injection E as <- <-.
  pose proof (acct_fresh _ _ _ Hr) as F. rewrite release_nextid in F.
  destruct Hr as (A & B & C). split; [|split].
  - apply (Permutation_NoDup (l := nextid h1 :: fr ++ own)); [apply Permutation_middle|].
    constructor; assumption.
  - intros x. simpl. rewrite B, !in_app_iff. simpl. tauto.
  - intros x. simpl. intros [<-|H]; [lia|]. apply C in H. rewrite release_nextid in H. lia.
Qed.
Lemma acct_realloc_fail : forall h fr own p h', acct h fr own -> realloc p h = (None, h') -> acct h' fr own.
Proof.
  intros h fr own p h' (A & B & C) E. apply realloc_spec in E. destruct E as [E1 E2].
  split; [exact A|]. split; intros x; rewrite E1, ?E2; [apply B | apply C].
Qed.

(* ---------- the vector preamble ---------- *)
Lemma grow_vec_sound : forall n h fr own, acct h fr (dblocks n ++ own) -> node_ok n ->
  match grow_vec n h with
  | (Some n', h') => acct h' fr (dblocks n' ++ own) /\ node_ok n' /\ n_len n' = n_len n /\ n_len n' < n_size n'
  | (None, h') => acct h' fr (dblocks n ++ own)
  end.
Proof.
  intros n h fr own Ha [Hl Hz]. unfold grow_vec.
  destruct (Nat.eqb (n_len n) (n_size n)) eqn:Ef.
  2:{ apply Nat.eqb_neq in Ef. split; [exact Ha|]. split; [split; assumption|]. split; [reflexivity | lia]. }
  apply Nat.eqb_eq in Ef. destruct (n_size n) as [|sz] eqn:Es.
  - assert (Ed : n_data n = None) by (apply Hz; reflexivity).
    unfold dblocks in Ha. rewrite Ed in Ha. simpl in Ha.
    destruct (malloc h) as [[d|] h1] eqn:Em.
    + split; [exact (acct_malloc_ok _ _ _ _ _ Ha Em)|]. simpl.
      split; [split; simpl; [lia | split; discriminate]|]. split; [reflexivity | lia].
    + unfold dblocks. rewrite Ed. simpl. exact (acct_malloc_fail _ _ _ _ Ha Em).
  - destruct (n_data n) as [d0|] eqn:Ed; [|exfalso; assert (S sz = 0) by (apply Hz; reflexivity); discriminate].
    unfold dblocks in Ha. rewrite Ed in Ha. simpl in Ha.
    destruct (realloc (Some d0) h) as [[d|] h1] eqn:Er.
    + split; [exact (acct_realloc_ok _ _ _ _ _ _ Ha Er)|]. simpl.
      split; [split; simpl; [lia | split; [lia | discriminate]]|]. split; [reflexivity | lia].
    + unfold dblocks. rewrite Ed. simpl. exact (acct_realloc_fail _ _ _ _ _ Ha Er).
Qed.

Lemma split_vecs_sound : forall k h fr own, acct h fr own ->
  match split_vecs k h with
  | (Some vs, h') => acct h' fr (vs ++ own) /\ vs <> []
  | (None, h') => acct h' fr own
  end.
Proof.
  intros k h fr own Ha. destruct k as [noval|]; simpl.
  - destruct (malloc h) as [[ks|] h1] eqn:E1; [|exact (acct_malloc_fail _ _ _ _ Ha E1)].
    pose proof (acct_malloc_ok _ _ _ _ _ Ha E1) as H1.
    destruct noval; [split; [exact H1 | discriminate]|].
    destruct (malloc h1) as [[vs|] h2] eqn:E2.
    + split; [|discriminate]. pose proof (acct_malloc_ok _ _ _ _ _ H1 E2) as H2.
      eapply acct_perm; [|exact H2]. apply perm_swap.
    + apply acct_release. exact (acct_malloc_fail _ _ _ _ H1 E2).
  - destruct (malloc h) as [[d|] h1] eqn:E1; [|exact (acct_malloc_fail _ _ _ _ Ha E1)].
    split; [exact (acct_malloc_ok _ _ _ _ _ Ha E1) | discriminate].
Qed.

(* BTree_grow, for EVERY placement of the failing request *)
Theorem tree_grow_sound : forall k n h fr, acct h fr (dblocks n) -> node_ok n ->
  match tree_grow k n h with
  | GOk n' e h' => acct h' fr (dblocks n' ++ e) /\ node_ok n' /\ n_len n' = S (n_len n) /\ 2 <= length e
  | GMem n' h' => acct h' fr (dblocks n') /\ node_ok n' /\ n_len n' = n_len n
  end.
Proof.
  intros k n h fr Ha Hn. unfold tree_grow.
  assert (Ha0 : acct h fr (dblocks n ++ [])) by (rewrite app_nil_r; exact Ha).
  pose proof (grow_vec_sound n h fr [] Ha0 Hn) as G.
  destruct (grow_vec n h) as [[n1|] h1].
  2:{ rewrite app_nil_r in G. auto. }
  destruct G as (A1 & N1 & L1 & S1). rewrite app_nil_r in A1.
  destruct (malloc h1) as [[e|] h2] eqn:Ee.
  2:{ split; [exact (acct_malloc_fail _ _ _ _ A1 Ee) | auto]. }
  pose proof (acct_malloc_ok _ _ _ _ _ A1 Ee) as A2.
  pose proof (split_vecs_sound k h2 fr (e :: dblocks n1) A2) as S.
  destruct (split_vecs k h2) as [[vs|] h3].
  - destruct S as [A3 Hv]. simpl. split.
    + eapply acct_perm; [|exact A3]. change (dblocks {| n_data := n_data n1; n_size := n_size n1; n_len := S (n_len n1) |})
        with (dblocks n1).
      apply Permutation_trans with ((e :: vs) ++ dblocks n1); [|apply Permutation_app_comm].
      simpl. apply Permutation_sym. apply Permutation_middle.
    + split; [destruct N1 as [N1a N1b]; split; simpl; [lia | exact N1b]|].
      split; [simpl; lia|]. destruct vs; [congruence | simpl; lia].
  - split; [apply acct_release; exact S | auto].
Qed.

Theorem tree_first_sound : forall n h fr, acct h fr (dblocks n) -> node_ok n -> n_len n = 0 ->
  match tree_first n h with
  | GOk n' e h' => acct h' fr (dblocks n' ++ e) /\ node_ok n' /\ n_len n' = 1 /\ length e = 1
  | GMem n' h' => acct h' fr (dblocks n') /\ node_ok n' /\ n_len n' = 0
  end.
Proof.
  intros n h fr Ha Hn Hl. unfold tree_first.
  assert (Ha0 : acct h fr (dblocks n ++ [])) by (rewrite app_nil_r; exact Ha).
  pose proof (grow_vec_sound n h fr [] Ha0 Hn) as G.
  destruct (grow_vec n h) as [[n1|] h1].
  2:{ rewrite app_nil_r in G. auto. }
  destruct G as (A1 & N1 & L1 & S1). rewrite app_nil_r in A1.
  destruct (malloc h1) as [[b|] h2] eqn:Eb.
  - pose proof (acct_malloc_ok _ _ _ _ _ A1 Eb) as A2. simpl. split.
    + eapply acct_perm; [|exact A2]. change (dblocks {| n_data := n_data n1; n_size := n_size n1; n_len := 1 |}) with (dblocks n1).
      apply Permutation_cons_append.
    + split; [destruct N1 as [N1a N1b]; split; simpl; [lia | exact N1b]|]. auto.
  - split; [exact (acct_malloc_fail _ _ _ _ A1 Eb)|]. split; [exact N1 | lia].
Qed.

(* BTree_split_root: on MemoryError either nothing happened, or the root holds
   the child that took its vector (a valid tree); no block is lost either way *)
Theorem split_root_sound : forall n h fr, acct h fr (dblocks n) -> node_ok n ->
  match split_root n h with
  | SOk r child e h' => acct h' fr (dblocks r ++ child ++ e) /\ node_ok r /\ n_len r = 2 /\
                        child = hd 0 child :: dblocks n
  | SMem r child h' => acct h' fr (dblocks r ++ child) /\ node_ok r /\
                       ((r = n /\ child = []) \/ (n_len r = 1 /\ child = hd 0 child :: dblocks n))
  end.
Proof.
  intros n h fr Ha Hn. unfold split_root.
  destruct (malloc h) as [[c|] h1] eqn:Ec.
  2:{ rewrite app_nil_r. split; [exact (acct_malloc_fail _ _ _ _ Ha Ec) | auto]. }
  pose proof (acct_malloc_ok _ _ _ _ _ Ha Ec) as A1.
  destruct (malloc h1) as [[d|] h2] eqn:Ed.
  2:{ rewrite app_nil_r. split; [apply acct_release; exact (acct_malloc_fail _ _ _ _ A1 Ed) | auto]. }
  pose proof (acct_malloc_ok _ _ _ _ _ A1 Ed) as A2.
  (* the old vector and the child object move into the frame of the inner grow *)
  set (r0 := mkN (Some d) 2 1).
  assert (A3 : acct h2 (fr ++ c :: dblocks n) (dblocks r0)).
  { destruct A2 as (X & Y & Z). simpl dblocks.
    assert (P : Permutation (fr ++ d :: c :: dblocks n) ((fr ++ c :: dblocks n) ++ [d])).
    { rewrite <- app_assoc. apply Permutation_app_head. simpl.
      apply Permutation_trans with ((c :: dblocks n) ++ [d]); [apply Permutation_cons_append | reflexivity]. }
    split; [eapply Permutation_NoDup; eassumption|]. split; [|exact Z].
    intros x. rewrite Y. split; intro H; [eapply Permutation_in; eassumption|].
    eapply Permutation_in; [apply Permutation_sym; exact P | exact H]. }
  assert (N0 : node_ok r0) by (split; simpl; [lia | split; discriminate]).
  pose proof (tree_grow_sound KTree r0 h2 (fr ++ c :: dblocks n) A3 N0) as G.
  assert (Back : forall h' own, acct h' (fr ++ c :: dblocks n) own -> acct h' fr (own ++ c :: dblocks n)).
  { intros h' own (X & Y & Z).
    assert (P : Permutation ((fr ++ c :: dblocks n) ++ own) (fr ++ own ++ c :: dblocks n)).
    { rewrite <- app_assoc. apply Permutation_app_head. apply Permutation_app_comm. }
    split; [eapply Permutation_NoDup; eassumption|]. split; [|exact Z].
    intros x. rewrite Y. split; intro H; [eapply Permutation_in; eassumption|].
    eapply Permutation_in; [apply Permutation_sym; exact P | exact H]. }
  destruct (tree_grow KTree r0 h2) as [r e h3|r h3].
  - destruct G as (G1 & G2 & G3 & _). split.
    + eapply acct_perm; [|exact (Back _ _ G1)]. rewrite <- !app_assoc. apply Permutation_app_head.
      apply Permutation_app_comm.
    + split; [exact G2|]. split; [exact G3 | reflexivity].
  - destruct G as (G1 & G2 & G3). split; [exact (Back _ _ G1)|]. split; [exact G2|].
    right. split; [exact G3 | reflexivity].
Qed.
