(* Model/Float32.v against the IEEE 754 specification as Flocq states it:
   the value stored for a float argument is the round-to-nearest-even of the
   argument in the binary32 format (or an infinity on overflow), a float32
   reads back unchanged, an int goes through binary64 first, and whatever is
   stored is a binary32 number.  These theorems depend on the axioms of the
   standard library's real numbers (Flocq's specification is stated over R);
   Print Assumptions lists them. *)
From Coq Require Import ZArith Bool List Reals.
From Flocq Require Import Core.Core IEEE754.BinarySingleNaN.
From BT Require Import Model.Float32.
Open Scope R_scope.

Definition fmt32 := FLT_exp (-149) 24.
Definition fmt64 := FLT_exp (-1074) 53.
Definition rne (fexp : Z -> Z) (x : R) : R := round radix2 fexp ZnearestE x.

Lemma round32_correct (m e : Z) :
  let x := F2R (Float radix2 m e) in
  if Rlt_bool (Rabs (rne fmt32 x)) (bpow radix2 128)
  then B2R (round32 m e) = rne fmt32 x /\ is_finite (round32 m e) = true
  else B2SF (round32 m e) = SpecFloat.S754_infinity (Rlt_bool x 0).
Proof.
  intro x. pose proof (binary_normalize_correct 24 128 eq_refl eq_refl mode_NE m e false) as H.
  cbv zeta in H. fold x in H. unfold rne, fmt32.
  change (SpecFloat.fexp 24 128) with (FLT_exp (-149) 24) in H.
  change (round_mode mode_NE) with ZnearestE in H.
  destruct (Rlt_bool (Rabs (round radix2 (FLT_exp (-149) 24) ZnearestE x)) (bpow radix2 128)).
  - destruct H as (H1 & H2 & _). split; assumption.
  - exact H.
Qed.

(* a float32 is stored as it is *)
Lemma round32_exact (m e : Z) :
  let x := F2R (Float radix2 m e) in
  generic_format radix2 fmt32 x -> Rabs x < bpow radix2 128 ->
  B2R (round32 m e) = x /\ is_finite (round32 m e) = true.
Proof.
  intros x Hf Hb. pose proof (round32_correct m e) as H. cbv zeta in H. fold x in H.
  unfold rne in H. rewrite (round_generic radix2 fmt32 ZnearestE x Hf) in H.
  rewrite (Rlt_bool_true _ _ Hb) in H. exact H.
Qed.

Lemma cast_single_correct (d : double) :
  is_finite d = true ->
  let x := B2R d in
  if Rlt_bool (Rabs (rne fmt32 x)) (bpow radix2 128)
  then B2R (cast_single d) = rne fmt32 x /\ is_finite (cast_single d) = true
  else B2SF (cast_single d) = SpecFloat.S754_infinity (Rlt_bool x 0).
Proof.
  intros Hfin x. destruct d as [s|s| |s m e Hb]; try discriminate Hfin.
  - unfold x, rne. cbn [B2R]. rewrite !(round_0 radix2 fmt32 ZnearestE). rewrite Rabs_R0.
    rewrite (Rlt_bool_true _ _ (bpow_gt_0 radix2 128)). split; reflexivity.
  - pose proof (binary_normalize_correct 24 128 eq_refl eq_refl mode_NE (cond_Zopp s (Zpos m)) e s) as H.
    cbv zeta in H. unfold rne, fmt32. cbn [cast_single].
    change (SpecFloat.fexp 24 128) with (FLT_exp (-149) 24) in H.
    change (round_mode mode_NE) with ZnearestE in H.
    change (B2R (B754_finite s m e Hb)) with (F2R (Float radix2 (cond_Zopp s (Zpos m)) e)) in x.
    fold x in H.
    destruct (Rlt_bool (Rabs (round radix2 (FLT_exp (-149) 24) ZnearestE x)) (bpow radix2 128)).
    + destruct H as (H1 & H2 & _). split; assumption.
    + exact H.
Qed.

Lemma round64_correct (n : Z) :
  let x := IZR n in
  if Rlt_bool (Rabs (rne fmt64 x)) (bpow radix2 1024)
  then B2R (round64 n) = rne fmt64 x /\ is_finite (round64 n) = true
  else is_finite (round64 n) = false.
Proof.
  intro x. pose proof (binary_normalize_correct 53 1024 eq_refl eq_refl mode_NE n 0 false) as H.
  cbv zeta in H. unfold rne, fmt64.
  change (SpecFloat.fexp 53 1024) with (FLT_exp (-1074) 53) in H.
  change (round_mode mode_NE) with ZnearestE in H.
  assert (Hx : F2R (Float radix2 n 0) = x).
  { unfold F2R, x. cbn. apply Rmult_1_r. }
  rewrite Hx in H.
  destruct (Rlt_bool (Rabs (round radix2 (FLT_exp (-1074) 53) ZnearestE x)) (bpow radix2 1024)).
  - destruct H as (H1 & H2 & _). split; assumption.
  - unfold binary_overflow in H. cbn [overflow_to_inf] in H.
    change (binary_normalize 53 1024 eq_refl eq_refl mode_NE n 0 false) with (round64 n) in H.
    destruct (round64 n) as [s|s| |s m e Hb]; cbn in H; try discriminate H; reflexivity.
Qed.

(* the int path: accepted exactly when the int fits a double; what is stored is the
   double nearest to it, rounded once more into binary32 *)
Lemma conv_int_correct (n : Z) :
  if Rlt_bool (Rabs (rne fmt64 (IZR n))) (bpow radix2 1024)
  then exists r, conv_float (FInt n) = Some r /\
       let x := rne fmt64 (IZR n) in
       if Rlt_bool (Rabs (rne fmt32 x)) (bpow radix2 128)
       then B2R r = rne fmt32 x /\ is_finite r = true
       else B2SF r = SpecFloat.S754_infinity (Rlt_bool x 0)
  else conv_float (FInt n) = None.
Proof.
  pose proof (round64_correct n) as H. cbv zeta in H. unfold conv_float.
  destruct (Rlt_bool (Rabs (rne fmt64 (IZR n))) (bpow radix2 1024)).
  - destruct H as [H1 H2]. rewrite H2. exists (cast_single (round64 n)). split; [reflexivity|].
    pose proof (cast_single_correct (round64 n) H2) as H3. cbv zeta in H3 |- *. rewrite H1 in H3. exact H3.
  - rewrite H. reflexivity.
Qed.

(* whatever is stored is a binary32 number *)
Lemma stored_is_single (a : farg) (r : single) :
  conv_float a = Some r -> generic_format radix2 fmt32 (B2R r).
Proof. intros _. apply (generic_format_B2R 24 128). Qed.
