(* C06: plain pickling of a container that is not in a database.
   dump_all [] writes every object once with the state __getstate__ returns
   while no object has an oid.  Under the guard (only the root embeds a leaf)
   that set of records is exactly what a commit leaves behind, so the reader
   theorem of C04 (StoreProofs.reader_sees) applies. *)
From Coq Require Import ZArith List Bool Arith Lia.
From BT Require Import Model.RTree Model.TreeSpec Model.Check Model.CheckTree
                       Model.Persist Model.PersistSpec Proofs.CheckProofs Proofs.StoreProofs.
Import ListNotations.
Open Scope Z_scope.

Section Pickle.
Variable V : Type.
Notation tree := (tree V).

(* ---------- subtrees vs. ids / sub ---------- *)
Definition kids_subtrees (kids : list (Z * tree)) : list tree :=
  flat_map (fun sc => subtrees V (snd sc)) kids.
Lemma subtrees_Node i kids : subtrees V (Node i kids) = Node i kids :: kids_subtrees kids.
Proof. reflexivity. Qed.
Lemma subtrees_Leaf i l : subtrees V (Leaf i l) = [Leaf i l].
Proof. reflexivity. Qed.

Lemma subtrees_ids : forall t, map (tid V) (subtrees V t) = ids V t.
Proof.
  induction t as [i l|i kids IHk] using (tree_ind' V).
  - reflexivity.
  - rewrite subtrees_Node, ids_Node. simpl. f_equal.
    unfold kids_subtrees, kids_ids.
    induction IHk as [|[s c] rest Hc Hr IH]; [reflexivity|].
    simpl. rewrite map_app. simpl in Hc. rewrite Hc, IH. reflexivity.
Qed.

Lemma sub_subtrees : forall t n, sub V n t -> In n (subtrees V t).
Proof.
  intros t n S. induction S as [t|n i kids s c I S IH].
  - destruct t; simpl; auto.
  - rewrite subtrees_Node. right. unfold kids_subtrees. apply in_flat_map.
    exists (s, c). split; [exact I|exact IH].
Qed.

(* ---------- sget on a list of records keyed by distinct identities ---------- *)
Lemma sget_map (f : tree -> record V) : forall (l : list tree) (n : tree),
  NoDup (map (tid V) l) -> In n l ->
  sget V (map (fun m => (tid V m, f m)) l) (tid V n) = Some (f n).
Proof.
  induction l as [|m l IH]; intros n N I; [destruct I|].
  simpl in N. inversion N as [|? ? N1 N2]; subst. simpl.
  destruct I as [I|I].
  - subst m. rewrite Nat.eqb_refl. reflexivity.
  - destruct (Nat.eqb (tid V n) (tid V m)) eqn:E.
    + apply Nat.eqb_eq in E. exfalso. apply N1. rewrite <- E. apply in_map. exact I.
    + apply IH; assumption.
Qed.

Lemma dump_all_sget st t n :
  NoDup (ids V t) -> sub V n t ->
  sget V (dump_all V st t) (tid V n) = Some (getstate V st t n).
Proof.
  intros N S. unfold dump_all.
  apply (sget_map (getstate V st t)).
  - rewrite subtrees_ids. exact N.
  - apply sub_subtrees. exact S.
Qed.

(* ---------- the oids a commit of the whole tree would have assigned ---------- *)
Definition all_oids (t : tree) : list nat :=
  match t with
  | Node r [(_, Leaf _ _)] => [r]
  | _ => ids V t
  end.

Lemma all_oids_cover t : forall i, In i (ids V t) ->
  mem i (all_oids t) = true \/ (exists r x items, t = Node r [(x, Leaf i items)]).
Proof.
  intros i I.
  destruct t as [j l|r kids].
  - left. apply mem_In. exact I.
  - destruct kids as [|[x c] rest].
    + left. apply mem_In. exact I.
    + destruct c as [l items|j k2].
      * destruct rest as [|sc2 rest'].
        -- simpl in I. destruct I as [I|[I|[]]].
           ++ left. subst i. simpl. rewrite Nat.eqb_refl. reflexivity.
           ++ right. subst i. exists r, x, items. reflexivity.
        -- left. apply mem_In. exact I.
      * left. apply mem_In. destruct rest; exact I.
Qed.

Lemma all_oids_leaf t : NoDup (ids V t) ->
  forall r x l items, t = Node r [(x, Leaf l items)] -> mem l (all_oids t) = false.
Proof.
  intros N r x l items E. subst t. simpl.
  simpl in N. inversion N as [|? ? N1 _]; subst.
  destruct (Nat.eqb l r) eqn:Q; [|reflexivity].
  apply Nat.eqb_eq in Q. subst l. exfalso. apply N1. left. reflexivity.
Qed.

Lemma dump_all_current t :
  NoDup (ids V t) -> no_embed_below V true [] t ->
  current V t (all_oids t) (dump_all V [] t).
Proof.
  intros N G i n F _.
  destruct (find_some V _ _ _ F) as [S T]. subst i.
  rewrite (dump_all_sget [] t n N S). f_equal. symmetry.
  apply (getstate_indep V t [] (all_oids t)); auto.
  - intros x Hx. discriminate Hx.
  - intros r x l items E _. eapply all_oids_leaf; eauto.
Qed.

Lemma all_oids_guard t :
  no_embed_below V true [] t -> no_embed_below V true (all_oids t) t.
Proof.
  apply guard_mono. intros x Hx. discriminate Hx.
Qed.

End Pickle.

(* ---------- exported statements ---------- *)
Theorem pickle_roundtrip :
  forall (V : Type) (ml mi : nat) (t : tree V),
  Inv V ml mi t -> NoDup (ids V t) -> no_embed_below V true [] t ->
  let s := dump_all V [] t in
  let fuel := S (length (ids V t)) in
  load_items V fuel s (tid V t) = contents V t /\
  reader_iter V fuel s (tid V t) = contents V t /\
  exists p, load V fuel s (tid V t) = Some p /\ inv_stored p.
Proof.
  intros V ml mi t HI HN HG s fuel. subst s fuel.
  apply (reader_sees V ml mi t (all_oids V t) (dump_all V [] t) HI HN).
  - apply all_oids_guard. exact HG.
  - apply dump_all_current; assumption.
  - apply all_oids_cover.
Qed.

(* without the guard the copy is not a valid stored tree (F16c): two interior
   nodes below the root each embed their only leaf, the reader gives the second
   one a fresh identity, and the successor link of the first leaf (to the
   original identity) no longer reaches it *)
Theorem pickle_refuted :
  exists t : tree Z,
    Inv Z 1 2 t /\ NoDup (ids Z t) /\
    forall q, load Z 20 (dump_all Z [] t) (tid Z t) = Some q -> pcheck_fn q = false.
Proof.
  exists cex_t.
  split; [vm_compute; reflexivity|].
  split.
  { unfold cex_t. simpl. repeat constructor; simpl; intros H;
      repeat (destruct H as [H|H]; [discriminate H|]); exact H. }
  intros q H. cbv -[inline_id] in H. inversion H; subst q. clear H.
  assert (N4 : Nat.eqb 3 (inline_id 4) = false).
  { apply Nat.eqb_neq. unfold inline_id. lia. }
  revert N4. generalize (inline_id 4). generalize (inline_id 1).
  intros X1 X4 N4. unfold pcheck_fn. simpl. simpl in N4. rewrite N4.
  rewrite !andb_false_r. reflexivity.
Qed.
