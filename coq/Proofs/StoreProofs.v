(* C04: commit objects to a store, then let a fresh reader rebuild the tree. *)
From Coq Require Import ZArith List Bool Arith Lia.
From BT Require Import Model.RTree Model.TreeSpec Model.Check Model.CheckTree
                       Model.Persist Model.PersistSpec Proofs.CheckProofs.
Import ListNotations.
Open Scope Z_scope.

(* ---------- 1. the unguarded statement is false (F16) ---------- *)
Definition cex_t : tree Z :=
  Node 0%nat [(0, Node 1%nat [(0, Leaf 2%nat [(1, 0)])]);
              (5, Node 4%nat [(5, Leaf 3%nat [(5, 0)])])].
Definition cex_p : pstate := mkP [0%nat] [0%nat] [].
Definition cex_seq : list nat := [0; 4; 1; 2; 3]%nat.

Theorem commit_reload_refuted :
  exists (t : tree Z) (p : pstate) (seq : list nat),
    Inv Z 1 2 t /\ complete Z t p seq [] = true /\
    let '(_, s') := commit Z t p seq [] in
    reader_iter Z 20 s' (tid Z t) <> load_items Z 20 s' (tid Z t) \/
    (forall q, load Z 20 s' (tid Z t) = Some q -> pcheck_fn q = false).
Proof.
  exists cex_t, cex_p, cex_seq.
  split; [vm_compute; reflexivity|].
  split; [vm_compute; reflexivity|].
  destruct (commit Z cex_t cex_p cex_seq []) as [p' s'] eqn:E.
  vm_compute in E. inversion E; subst p' s'. clear E.
  right. intros q H. cbv -[inline_id] in H. inversion H; subst q. clear H.
  assert (N : Nat.eqb 3 (inline_id 4) = false).
  { apply Nat.eqb_neq. unfold inline_id. lia. }
  remember (inline_id 4) as X. unfold pcheck_fn. simpl. simpl in N. rewrite N. reflexivity.
Qed.

(* ---------- generic facts: mem / add / sget / succ_of / sublists ---------- *)
Lemma mem_In i l : mem i l = true <-> In i l.
Proof.
  unfold mem. rewrite existsb_exists. split.
  - intros (x & A & B). apply Nat.eqb_eq in B. subst; auto.
  - intros A. exists i. split; auto. apply Nat.eqb_refl.
Qed.
Lemma mem_false i l : mem i l = false <-> ~ In i l.
Proof. rewrite <- mem_In. destruct (mem i l); split; congruence. Qed.
Lemma add_In x i l : In x (add i l) <-> x = i \/ In x l.
Proof.
  unfold add. destruct (mem i l) eqn:E; simpl; [|intuition].
  apply mem_In in E. split; auto. intros [A|A]; subst; auto.
Qed.
Lemma fold_add_In x l : forall st,
  In x (fold_left (fun acc y => add y acc) l st) <-> In x l \/ In x st.
Proof.
  induction l as [|a l IH]; intros st; simpl; [tauto|].
  rewrite IH, add_In. intuition.
Qed.
Lemma fold_add_mem x l st :
  mem x (fold_left (fun acc y => add y acc) l st) = true <-> In x l \/ mem x st = true.
Proof. rewrite !mem_In. apply fold_add_In. Qed.

Inductive sl : list nat -> list nat -> Prop :=
| sl_nil : sl [] []
| sl_skip x a b : sl a b -> sl a (x :: b)
| sl_keep x a b : sl a b -> sl (x :: a) (x :: b).
Lemma sl_app a b c d : sl a b -> sl c d -> sl (a ++ c) (b ++ d).
Proof.
  induction 1; intros; simpl; auto; [apply sl_skip|apply sl_keep]; auto.
Qed.
Lemma sl_in a b x : sl a b -> In x a -> In x b.
Proof. induction 1; simpl; intuition. Qed.
Lemma sl_nodup a b : sl a b -> NoDup b -> NoDup a.
Proof.
  induction 1; intros N; auto; inversion N; subst; auto.
  constructor; auto. intros A. apply H2. eapply sl_in; eauto.
Qed.
Lemma sl_length a b : sl a b -> (length a <= length b)%nat.
Proof. induction 1; simpl; lia. Qed.

Lemma succ_of_mid pre i post :
  ~ In i pre -> succ_of (pre ++ i :: post) i = hd_error post.
Proof.
  induction pre as [|x pre IH]; simpl; intros N.
  - rewrite Nat.eqb_refl. destruct post; reflexivity.
  - destruct (Nat.eqb x i) eqn:E; [apply Nat.eqb_eq in E; tauto|]. apply IH. tauto.
Qed.
Lemma NoDup_mid (pre : list nat) i post : NoDup (pre ++ i :: post) -> ~ In i pre.
Proof. intros N A. apply NoDup_remove_2 in N. apply N. apply in_or_app. auto. Qed.
Lemma nodup_app (a b : list nat) :
  NoDup (a ++ b) -> NoDup a /\ NoDup b /\ (forall x, In x a -> In x b -> False).
Proof.
  induction a as [|x a IH]; simpl; intros N.
  - repeat split; auto. constructor.
  - inversion N; subst. destruct (IH H2) as (A & B & C). repeat split; auto.
    + constructor; auto. intros Q. apply H1. apply in_or_app; auto.
    + intros y [E|E] F; [subst; apply H1; apply in_or_app; auto|eauto].
Qed.

Section Store.
Variable V : Type.
Notation tree := (tree V).

(* ---------- subtrees, identities, find_node ---------- *)
Inductive sub : tree -> tree -> Prop :=
| sub_refl t : sub t t
| sub_kid n i kids s c : In (s, c) kids -> sub n c -> sub n (Node i kids).

Lemma sub_trans a b c : sub a b -> sub b c -> sub a c.
Proof. intros A B. induction B; auto. eapply sub_kid; eauto. Qed.

Definition kids_ids (kids : list (Z * tree)) : list nat := flat_map (fun sc => ids V (snd sc)) kids.
Lemma ids_Node i kids : ids V (Node i kids) = i :: kids_ids kids.
Proof. reflexivity. Qed.
Lemma kids_ids_in s c kids x : In (s, c) kids -> In x (ids V c) -> In x (kids_ids kids).
Proof. intros A B. unfold kids_ids. apply in_flat_map. exists (s, c). auto. Qed.
Lemma tid_in_ids n : In (tid V n) (ids V n).
Proof. destruct n; simpl; auto. Qed.
Lemma sub_ids n t : sub n t -> forall x, In x (ids V n) -> In x (ids V t).
Proof.
  induction 1; auto. intros x A. rewrite ids_Node. right. eapply kids_ids_in; eauto.
Qed.
Lemma ids_sub : forall t x, In x (ids V t) -> exists n, sub n t /\ tid V n = x.
Proof.
  induction t using (tree_ind' V); intros x A.
  - simpl in A. destruct A as [A|[]]. subst. eexists. split; [apply sub_refl|reflexivity].
  - rewrite ids_Node in A. destruct A as [A|A].
    + subst. eexists. split; [apply sub_refl|reflexivity].
    + unfold kids_ids in A. apply in_flat_map in A. destruct A as ([s c] & A & B).
      rewrite Forall_forall in H. destruct (H _ A _ B) as (n & S & T).
      exists n. split; auto. eapply sub_kid; eauto.
Qed.

Fixpoint find_go (i : nat) (l : list (Z * tree)) : option tree :=
  match l with
  | [] => None
  | (_, c) :: rest => match find_node V c i with Some x => Some x | None => find_go i rest end
  end.
Lemma find_node_Node j kids i :
  find_node V (Node j kids) i = if Nat.eqb j i then Some (Node j kids) else find_go i kids.
Proof.
  simpl. destruct (Nat.eqb j i); [reflexivity|].
  induction kids as [|[s c] r IH]; simpl; auto. rewrite IH. reflexivity.
Qed.
Lemma find_node_Leaf j l i :
  find_node V (Leaf j l) i = if Nat.eqb j i then Some (Leaf j l) else None.
Proof. reflexivity. Qed.

Lemma find_none : forall t i, ~ In i (ids V t) -> find_node V t i = None.
Proof.
  induction t using (tree_ind' V); intros x N.
  - rewrite find_node_Leaf. destruct (Nat.eqb i x) eqn:E; auto.
    apply Nat.eqb_eq in E. subst. simpl in N. tauto.
  - rewrite find_node_Node. rewrite ids_Node in N.
    destruct (Nat.eqb i x) eqn:E; [apply Nat.eqb_eq in E; subst; simpl in N; tauto|].
    assert (M : ~ In x (kids_ids kids)) by (simpl in N; tauto). clear N E.
    induction H as [|[s c] rest Hc Hr IH]; auto. simpl.
    unfold kids_ids in M. simpl in M. rewrite in_app_iff in M.
    rewrite Hc by tauto. apply IH. unfold kids_ids. tauto.
Qed.
Lemma find_some : forall t i n, find_node V t i = Some n -> sub n t /\ tid V n = i.
Proof.
  induction t using (tree_ind' V); intros x n F.
  - rewrite find_node_Leaf in F. destruct (Nat.eqb i x) eqn:E; [|discriminate].
    apply Nat.eqb_eq in E. inversion F; subst. split; [apply sub_refl|reflexivity].
  - rewrite find_node_Node in F. destruct (Nat.eqb i x) eqn:E.
    + apply Nat.eqb_eq in E. inversion F; subst. split; [apply sub_refl|reflexivity].
    + clear E. assert (Q : exists s c, In (s, c) kids /\ sub n c /\ tid V n = x).
      { induction H as [|[s c] rest Hc Hr IH]; [discriminate|]. simpl in F.
        destruct (find_node V c x) eqn:G.
        - inversion F; subst. destruct (Hc _ _ G). exists s, c. simpl. auto.
        - destruct (IH F) as (s' & c' & A & B). exists s', c'. simpl. auto. }
      destruct Q as (s & c & A & B & C). split; auto. eapply sub_kid; eauto.
Qed.
Lemma sub_inv n t : sub n t ->
  n = t \/ exists i kids s c, t = Node i kids /\ In (s, c) kids /\ sub n c.
Proof. destruct 1; auto. right. exists i, kids, s, c. auto. Qed.
Lemma find_sub : forall t n, NoDup (ids V t) -> sub n t -> find_node V t (tid V n) = Some n.
Proof.
  induction t using (tree_ind' V); intros n N S.
  - apply sub_inv in S. destruct S as [S|(? & ? & ? & ? & S & _)]; [|discriminate].
    subst. rewrite find_node_Leaf. simpl. rewrite Nat.eqb_refl. reflexivity.
  - rewrite find_node_Node. apply sub_inv in S.
    destruct S as [S|(i' & kids' & s & c & E & I & S)].
    + subst. simpl. rewrite Nat.eqb_refl. reflexivity.
    + inversion E; subst i' kids'. clear E.
      rewrite ids_Node in N. inversion N as [|? ? N1 N2]; subst.
      assert (A : In (tid V n) (kids_ids kids)).
      { eapply kids_ids_in; eauto. eapply sub_ids; eauto. apply tid_in_ids. }
      destruct (Nat.eqb i (tid V n)) eqn:E; [apply Nat.eqb_eq in E; subst; tauto|].
      clear E N N1 A. revert N2 I.
      induction H as [|[s0 c0] rest Hc Hr IH]; intros N2 I; [destruct I|].
      unfold kids_ids in N2. simpl in N2. apply nodup_app in N2. destruct N2 as (A & B & C).
      simpl. destruct I as [I|I].
      * inversion I; subst. rewrite Hc; auto.
      * rewrite find_none.
        -- apply IH; auto.
        -- intros Q. apply (C _ Q). eapply kids_ids_in; eauto.
           eapply sub_ids; eauto. apply tid_in_ids.
Qed.

(* ---------- leaves ---------- *)
Definition kids_lids (kids : list (Z * tree)) : list nat := flat_map (fun sc => leaf_ids V (snd sc)) kids.
Definition kids_leaves (kids : list (Z * tree)) := flat_map (fun sc => leaves V (snd sc)) kids.
Lemma leaves_Node i kids : leaves V (Node i kids) = kids_leaves kids.
Proof. reflexivity. Qed.
Lemma leaf_ids_Node i kids : leaf_ids V (Node i kids) = kids_lids kids.
Proof.
  unfold leaf_ids. rewrite leaves_Node. unfold kids_leaves, kids_lids.
  induction kids as [|[s c] r IH]; simpl; auto. rewrite map_app, IH. reflexivity.
Qed.
Lemma sl_refl l : sl l l.
Proof. induction l; [apply sl_nil|apply sl_keep; auto]. Qed.
Lemma sl_leaf_ids : forall t, sl (leaf_ids V t) (ids V t).
Proof.
  induction t using (tree_ind' V).
  - apply sl_refl.
  - rewrite leaf_ids_Node, ids_Node. apply sl_skip.
    induction H as [|[s c] r Hc Hr IH]; [constructor|].
    unfold kids_lids, kids_ids. simpl. apply sl_app; auto.
Qed.
Lemma leaf_sub : forall t i items, In (i, items) (leaves V t) -> sub (Leaf i items) t.
Proof.
  induction t using (tree_ind' V); intros j items A.
  - simpl in A. destruct A as [A|[]]. inversion A; subst. apply sub_refl.
  - rewrite leaves_Node in A. unfold kids_leaves in A. apply in_flat_map in A.
    destruct A as ([s c] & A & B). rewrite Forall_forall in H.
    eapply sub_kid; eauto. apply (H _ A); auto.
Qed.
Lemma fm_app {A B} (f : A -> list B) a b : flat_map f (a ++ b) = flat_map f a ++ flat_map f b.
Proof. induction a; simpl; auto. rewrite IHa, app_assoc. reflexivity. Qed.
Lemma contents_leaves : forall t, contents V t = flat_map snd (leaves V t).
Proof.
  induction t using (tree_ind' V).
  - simpl. rewrite app_nil_r. reflexivity.
  - rewrite leaves_Node. simpl. unfold kids_leaves.
    induction H as [|[s c] r Hc Hr IH]; simpl; auto.
    rewrite fm_app, IH. simpl in Hc. rewrite Hc. reflexivity.
Qed.
(* ---------- first separators normalised the way __getstate__ writes them ---------- *)
Variables ml mi : nat.
Definition single_leaf (kids : list (Z * tree)) : bool :=
  match kids with [(_, Leaf _ _)] => true | _ => false end.
Fixpoint nz (t : tree) : tree :=
  match t with
  | Leaf i l => Leaf i l
  | Node i kids => Node i (map (fun sc => (if single_leaf kids then 0 else fst sc, nz (snd sc))) kids)
  end.
Lemma nz_Node i kids :
  nz (Node i kids) = Node i (map (fun sc => (if single_leaf kids then 0 else fst sc, nz (snd sc))) kids).
Proof. reflexivity. Qed.
Lemma nz_tid t : tid V (nz t) = tid V t.
Proof. destruct t; reflexivity. Qed.
Lemma nz_is_leaf t : is_leaf V (nz t) = is_leaf V t.
Proof. destruct t; reflexivity. Qed.
Lemma nz_depth : forall t, depth V (nz t) = depth V t.
Proof.
  induction t using (tree_ind' V); auto. rewrite nz_Node.
  destruct H as [|[s c] r Hc _]; auto. simpl in *. rewrite Hc. reflexivity.
Qed.
Lemma nz_tmin : forall t, tmin V (nz t) = tmin V t.
Proof.
  induction t using (tree_ind' V); auto. rewrite nz_Node.
  destruct H as [|[s c] r Hc _]; auto.
Qed.
Lemma nz_first_id : forall t, first_id V (nz t) = first_id V t.
Proof.
  induction t using (tree_ind' V); auto. rewrite nz_Node.
  destruct H as [|[s c] r Hc _]; auto.
Qed.
Lemma nz_contents : forall t, contents V (nz t) = contents V t.
Proof.
  induction t using (tree_ind' V); auto. rewrite nz_Node. simpl.
  generalize (single_leaf kids). intros b.
  induction H as [|[s c] r Hc _ IH]; simpl; auto. simpl in Hc. rewrite Hc, IH. reflexivity.
Qed.

Lemma wf_go_nz hi : forall l,
  Forall (fun sc => forall r lo hi, wf_node V ml mi r lo hi (nz (snd sc)) = wf_node V ml mi r lo hi (snd sc)) l ->
  forall c0 first lo',
    wf_go V ml mi (nz c0) hi first lo' (map (fun sc => (fst sc, nz (snd sc))) l) =
    wf_go V ml mi c0 hi first lo' l.
Proof.
  induction 1 as [|[s c] r Hc Hr IH]; intros c0 first lo'; [reflexivity|].
  simpl in Hc. simpl. rewrite IH, Hc, !nz_is_leaf, !nz_depth, nz_tmin.
  destruct r as [|[s2 c2] r']; reflexivity.
Qed.
Lemma nz_wf : forall t r lo hi,
  wf_node V ml mi r lo hi (nz t) = wf_node V ml mi r lo hi t.
Proof.
  induction t using (tree_ind' V); intros r lo hi; auto.
  rewrite nz_Node. destruct (single_leaf kids) eqn:E.
  - destruct kids as [|[s [l items|j k2]] [|]]; try discriminate. reflexivity.
  - destruct kids as [|[s0 c0] k']; [reflexivity|].
    change (wf_node V ml mi r lo hi (Node i ((s0, nz c0) :: map (fun sc => (fst sc, nz (snd sc))) k')) =
            wf_node V ml mi r lo hi (Node i ((s0, c0) :: k'))).
    rewrite !wf_node_cons. simpl length. rewrite map_length.
    change ((s0, nz c0) :: map (fun sc => (fst sc, nz (snd sc))) k')
      with (map (fun sc => (fst sc, nz (snd sc))) ((s0, c0) :: k')).
    rewrite wf_go_nz; auto.
Qed.
Lemma nz_Inv t : Inv V ml mi t -> Inv V ml mi (nz t).
Proof.
  unfold Inv, wfb. destruct t as [i l|i kids]; auto.
  destruct kids as [|[s0 c0] k']; auto. intros W.
  change (wf_node V ml mi true None None (nz (Node i ((s0, c0) :: k'))) = true).
  rewrite nz_wf. exact W.
Qed.
(* ---------- consequences of well-formedness ---------- *)
Definition wfn (n : tree) : Prop := exists r lo hi, wf_node V ml mi r lo hi n = true.
Lemma wf_go_all c0 hi : forall l first lo',
  wf_go V ml mi c0 hi first lo' l = true -> Forall (fun sc => wfn (snd sc)) l.
Proof.
  induction l as [|[s c] rest IH]; intros first lo' G; constructor.
  - apply wf_go_inv in G. destruct G as (_ & _ & W & _). simpl. red. eauto.
  - apply wf_go_inv in G. destruct G as (_ & _ & _ & G). eauto.
Qed.
Lemma wfn_kids i kids : wfn (Node i kids) -> kids <> [] /\ Forall (fun sc => wfn (snd sc)) kids.
Proof.
  intros (r & lo & hi & W). destruct kids as [|[s0 c0] k']; [discriminate|].
  split; [discriminate|]. rewrite wf_node_cons, !andb_true_iff in W.
  destruct W as [_ G]. eapply wf_go_all; eauto.
Qed.
Lemma wfn_hd : forall n, wfn n ->
  exists i rest, leaf_ids V n = i :: rest /\ first_id V n = Some i.
Proof.
  induction n using (tree_ind' V); intros W.
  - exists i, []. split; reflexivity.
  - apply wfn_kids in W. destruct W as [NE W].
    destruct kids as [|[s0 c0] k']; [congruence|].
    inversion H; subst. inversion W; subst. simpl in *.
    destruct (H2 H4) as (j & rest & A & B).
    rewrite leaf_ids_Node. unfold kids_lids. simpl. rewrite A. simpl. eauto.
Qed.
Lemma ids_len_kid s c kids : In (s, c) kids -> (length (ids V c) <= length (kids_ids kids))%nat.
Proof.
  induction kids as [|[s0 c0] r IH]; intros []; unfold kids_ids in *; simpl; rewrite app_length.
  - inversion H; subst. lia.
  - specialize (IH H). lia.
Qed.
Lemma first_leaf_id : forall t, first_leaf V t = first_id V t.
Proof.
  induction t using (tree_ind' V); auto.
Qed.
(* ---------- the reader ---------- *)
Definition load_go (f : nat) (s : store V) (i : nat) (first : option nat) :=
  fix go (l : list (Z * nat)) (acc : list (Z * pnode)) : option pnode :=
    match l with
    | [] => Some (PNode i first (rev acc))
    | (sp, c) :: rest =>
      match load V f s c with Some pc => go rest ((sp, pc) :: acc) | None => None end
    end.
Lemma load_S f s i :
  load V (S f) s i =
  match sget V s i with
  | None => None
  | Some (RLeaf items nx) => Some (PLeaf i (map fst items) nx)
  | Some REmpty => Some (PNode i None [])
  | Some (REmbedded items nx) =>
    Some (PNode i (Some (inline_id i)) [(0, PLeaf (inline_id i) (map fst items) nx)])
  | Some (RNode kids first) => load_go f s i first kids []
  end.
Proof. reflexivity. Qed.
Lemma load_items_S f s i :
  load_items V (S f) s i =
  match sget V s i with
  | Some (RLeaf items _) | Some (REmbedded items _) => items
  | Some (RNode kids _) => flat_map (fun sc => load_items V f s (snd sc)) kids
  | _ => []
  end.
Proof. reflexivity. Qed.

Section Reader.
Variable t : tree.
Variable stored : list nat.
Variable s : store V.
Hypothesis HN : NoDup (ids V t).
Hypothesis HC : current V t stored s.
Hypothesis HA : forall i, In i (ids V t) -> mem i stored = true.

Lemma rec_of n : sub n t -> sget V s (tid V n) = Some (getstate V stored t n).
Proof.
  intros S. apply HC; [apply find_sub; auto|]. apply HA. eapply sub_ids; eauto. apply tid_in_ids.
Qed.
Lemma getstate_all n : sub n t ->
  getstate V stored t n =
  match n with
  | Leaf i items => RLeaf items (succ_of (leaf_ids V t) i)
  | Node _ [] => REmpty
  | Node _ kids =>
    RNode (map (fun sc => (if single_leaf kids then 0 else fst sc, tid V (snd sc))) kids) (first_id V n)
  end.
Proof.
  intros S. destruct n as [i items|i kids]; [reflexivity|].
  destruct kids as [|[s0 [l items|j k2]] [|]]; try reflexivity.
  simpl. rewrite HA; [reflexivity|]. eapply sub_ids; eauto. simpl. auto.
Qed.
Lemma HNL : NoDup (leaf_ids V t).
Proof. eapply sl_nodup; [apply sl_leaf_ids|exact HN]. Qed.

Definition loads (f : nat) (c : tree) : Prop :=
  forall pre post, leaf_ids V t = pre ++ leaf_ids V c ++ post ->
    load V f s (tid V c) = Some (to_p V (nz c) (hd_error post)) /\
    load_items V f s (tid V c) = contents V c.

Lemma load_kids (sg : Z * tree -> Z) f i first post : forall l acc pre,
  leaf_ids V t = pre ++ kids_lids l ++ post ->
  Forall (fun sc => wfn (snd sc)) l ->
  Forall (fun sc => loads f (snd sc)) l ->
  load_go f s i first (map (fun sc => (sg sc, tid V (snd sc))) l) acc =
    Some (PNode i first (rev acc ++ tp_go V (hd_error post) (map (fun sc => (sg sc, nz (snd sc))) l))) /\
  flat_map (fun sc => load_items V f s (snd sc)) (map (fun sc => (sg sc, tid V (snd sc))) l) =
    flat_map (fun sc => contents V (snd sc)) l.
Proof.
  induction l as [|[s1 c1] rest IH]; intros acc pre E W L.
  - simpl. rewrite app_nil_r. auto.
  - inversion W as [|? ? W1 W2]; subst. inversion L as [|? ? L1 L2]; subst. simpl in W1, L1.
    unfold kids_lids in E. simpl in E. rewrite <- app_assoc in E.
    destruct (L1 _ _ E) as [A B].
    assert (E' : leaf_ids V t = (pre ++ leaf_ids V c1) ++ kids_lids rest ++ post).
    { rewrite <- app_assoc. exact E. }
    destruct (IH ((sg (s1, c1), to_p V (nz c1) (hd_error (kids_lids rest ++ post))) :: acc) _ E' W2 L2)
      as [C D].
    split.
    + simpl. rewrite A. fold (kids_lids rest). rewrite C. f_equal. f_equal.
      simpl. rewrite <- app_assoc. f_equal. simpl. f_equal. f_equal. f_equal.
      destruct rest as [|[s2 c2] r']; [reflexivity|]. simpl.
      inversion W2; subst. simpl in *. destruct (wfn_hd _ H1) as (j & q & F & G).
      rewrite nz_first_id, G. unfold kids_lids. simpl. rewrite F. reflexivity.
    + simpl. rewrite B, D. reflexivity.
Qed.
Lemma loads_all : forall n, sub n t -> wfn n ->
  forall fuel, (length (ids V n) <= fuel)%nat -> loads fuel n.
Proof.
  induction n using (tree_ind' V); intros Sb W fuel Hf pre post E.
  - destruct fuel as [|f]; [simpl in Hf; lia|].
    rewrite load_S, load_items_S. change (tid V (Leaf i l)) with i.
    pose proof (rec_of _ Sb) as R. rewrite getstate_all in R by auto. simpl in R. rewrite R.
    split; auto. simpl. f_equal. f_equal.
    change (leaf_ids V (Leaf i l)) with [i] in E. rewrite E. simpl.
    apply succ_of_mid. pose proof HNL as N. rewrite E in N. apply NoDup_mid in N. exact N.
  - destruct fuel as [|f]; [simpl in Hf; lia|].
    rewrite ids_Node in Hf. change (S (length (kids_ids kids)) <= S f)%nat in Hf. apply le_S_n in Hf.
    destruct (wfn_kids _ _ W) as [NE WK].
    rewrite load_S, load_items_S. change (tid V (Node i kids)) with i.
    pose proof (rec_of _ Sb) as R. rewrite getstate_all in R by auto.
    destruct kids as [|sc0 k']; [congruence|].
    change (tid V (Node i (sc0 :: k'))) with i in R. rewrite R.
    rewrite leaf_ids_Node in E.
    assert (L : Forall (fun sc => loads f (snd sc)) (sc0 :: k')).
    { rewrite Forall_forall in *. intros [s1 c1] I. simpl. apply (H _ I).
      - eapply sub_trans; [|exact Sb]. eapply sub_kid; [exact I|apply sub_refl].
      - apply (WK _ I).
      - pose proof (ids_len_kid _ _ _ I). simpl. lia. }
    destruct (load_kids (fun sc => if single_leaf (sc0 :: k') then 0 else fst sc)
                        f i (first_id V (Node i (sc0 :: k'))) post (sc0 :: k') [] pre E WK L) as [A B].
    rewrite A, B. split; [|reflexivity].
    rewrite nz_Node, to_p_node. rewrite <- nz_Node, nz_first_id. reflexivity.
Qed.
Lemma chain_all : forall post pre fuel,
  leaves V t = pre ++ post -> (length post < fuel)%nat ->
  chain_items V fuel s (hd_error (map fst post)) = flat_map snd post.
Proof.
  induction post as [|[i items] post IH]; intros pre fuel E Hf.
  - destruct fuel; reflexivity.
  - destruct fuel as [|f]; [simpl in Hf; lia|]. simpl in Hf.
    assert (Sb : sub (Leaf i items) t).
    { apply leaf_sub. rewrite E. apply in_or_app. right. left. reflexivity. }
    pose proof (rec_of _ Sb) as R. rewrite getstate_all in R by auto. simpl in R.
    simpl. rewrite R. f_equal.
    assert (EL : leaf_ids V t = map fst pre ++ i :: map fst post).
    { unfold leaf_ids. rewrite E, map_app. reflexivity. }
    rewrite EL, succ_of_mid.
    + apply (IH (pre ++ [(i, items)])); [|lia]. rewrite <- app_assoc. exact E.
    + pose proof HNL as N. rewrite EL in N. apply NoDup_mid in N. exact N.
Qed.
End Reader.
Theorem reader_sees_sec : forall (t : tree) (stored : list nat) (s : store V),
  Inv V ml mi t -> NoDup (ids V t) ->
  no_embed_below V true stored t -> current V t stored s ->
  (forall i, In i (ids V t) -> mem i stored = true \/
             (exists r x items, t = Node r [(x, Leaf i items)])) ->
  let fuel := S (length (ids V t)) in
  load_items V fuel s (tid V t) = contents V t /\
  reader_iter V fuel s (tid V t) = contents V t /\
  exists p, load V fuel s (tid V t) = Some p /\ inv_stored p.
Proof.
  intros t stored s HI HN _ HC HE fuel.
  destruct t as [i l|r kids]; [discriminate|].
  assert (HR : mem r stored = true).
  { destruct (HE r (or_introl eq_refl)) as [A|(r' & x & items & E)]; auto.
    inversion E; subst. inversion HN; subst. simpl in *. tauto. }
  assert (R : sget V s r = Some (getstate V stored (Node r kids) (Node r kids))).
  { apply HC; auto. simpl. rewrite Nat.eqb_refl. reflexivity. }
  change (tid V (Node r kids)) with r.
  destruct kids as [|[x c] k'].
  { subst fuel. simpl in R. rewrite load_items_S, load_S. unfold reader_iter, root_first.
    rewrite R. repeat split; auto. eexists. split; [reflexivity|].
    apply (api_trees_accepted V ml mi (Node r []) HI). }
  assert (D : (exists l items, c = Leaf l items /\ k' = [] /\ mem l stored = false) \/
              (forall i, In i (ids V (Node r ((x, c) :: k'))) -> mem i stored = true)).
  { destruct c as [l items|j k2].
    - destruct k' as [|sc2 k''].
      + destruct (mem l stored) eqn:M; [right|left; eauto].
        intros i Hi. destruct (HE i Hi) as [|(r' & x' & it' & E)]; auto.
        inversion E; subst. exact M.
      + right. intros i Hi. destruct (HE i Hi) as [|(r' & x' & it' & E)]; auto. discriminate.
    - right. intros i Hi. destruct (HE i Hi) as [|(r' & x' & it' & E)]; auto.
      destruct k'; discriminate. }
  destruct D as [(l & items & -> & -> & M)|HA].
  - subst fuel. simpl in R. rewrite M, Nat.eqb_refl in R.
    rewrite load_items_S, load_S. unfold reader_iter, root_first. rewrite R.
    simpl. rewrite app_nil_r. repeat split; auto. eexists. split; [reflexivity|].
    apply (api_trees_accepted V ml mi (Node r [(0, Leaf (inline_id r) items)])). exact HI.
  - clear R. set (t := Node r ((x, c) :: k')) in *.
    assert (W : wfn t) by (exists true, None, None; exact HI).
    assert (E : leaf_ids V t = [] ++ leaf_ids V t ++ []) by (rewrite app_nil_r; reflexivity).
    destruct (loads_all t stored s HN HC HA t (sub_refl t) W fuel (Nat.le_succ_diag_r _) [] [] E)
      as [A B].
    change (tid V t) with r in A, B. split; [exact B|]. split.
    + unfold reader_iter, root_first.
      pose proof (rec_of t stored s HN HC HA t (sub_refl t)) as R.
      rewrite getstate_all in R by (auto; apply sub_refl).
      destruct (wfn_hd _ W) as (j & q & F & G).
      unfold t in R, G. simpl in R, G. rewrite G in R. rewrite R. cbv beta iota. rewrite app_nil_l.
      replace (Some j) with (hd_error (map fst (leaves V t))) by (fold (leaf_ids V t); rewrite F; reflexivity).
      rewrite (chain_all t stored s HN HC HA (leaves V t) []); auto.
      * symmetry. apply contents_leaves.
      * pose proof (sl_length _ _ (sl_leaf_ids t)) as Q. unfold leaf_ids in Q.
        rewrite map_length in Q. subst fuel. lia.
    + eexists. split; [exact A|]. apply (api_trees_accepted V ml mi (nz t)). apply nz_Inv. exact HI.
Qed.
(* ---------- the guard ---------- *)
Definition neb_all (st : list nat) :=
  fix all (l : list (Z * tree)) : Prop :=
    match l with [] => True | (_, c) :: r => no_embed_below V false st c /\ all r end.
Lemma neb_Node b st i kids :
  no_embed_below V b st (Node i kids) =
  ((match kids with [(_, Leaf l _)] => b = true \/ mem l st = true | _ => True end) /\ neb_all st kids).
Proof. reflexivity. Qed.
Lemma neb_all_Forall st l :
  neb_all st l <-> Forall (fun sc => no_embed_below V false st (snd sc)) l.
Proof.
  induction l as [|[s c] r IH]; simpl.
  - split; auto.
  - rewrite IH. split.
    + intros [A B]. constructor; auto.
    + intros A. inversion A; subst. auto.
Qed.
Lemma guard_mono st st' : (forall x, mem x st = true -> mem x st' = true) ->
  forall n b, no_embed_below V b st n -> no_embed_below V b st' n.
Proof.
  intros M. induction n using (tree_ind' V); intros b G; auto.
  rewrite neb_Node in *. destruct G as [A B]. split.
  - destruct kids as [|[x [l items|]] [|]]; auto. destruct A; auto.
  - rewrite neb_all_Forall in *. rewrite Forall_forall in *. intros sc I. apply (H _ I). auto.
Qed.
Lemma guard_sub st : forall n b, no_embed_below V b st n ->
  forall m j x l items, sub m n -> m = Node j [(x, Leaf l items)] ->
    (b = true /\ m = n) \/ mem l st = true.
Proof.
  induction n using (tree_ind' V); intros b G m j x l' items Sb E.
  - apply sub_inv in Sb. destruct Sb as [Sb|(? & ? & ? & ? & Sb & _)]; [|discriminate].
    subst. discriminate.
  - rewrite neb_Node in G. destruct G as [A B]. apply sub_inv in Sb.
    destruct Sb as [Sb|(i' & kids' & s & c & Q & I & Sb)].
    + rewrite Sb in E. inversion E; subst i kids. subst m. destruct A; auto.
    + inversion Q; subst i' kids'. rewrite neb_all_Forall in B. rewrite Forall_forall in *.
      destruct (H _ I false (B _ I) m j x l' items Sb E) as [[C _]|C]; [discriminate|auto].
Qed.

Section Commit.
Variable t : tree.

Lemma getstate_indep st st' :
  no_embed_below V true st t ->
  (forall x, mem x st = true -> mem x st' = true) ->
  (forall r x l items, t = Node r [(x, Leaf l items)] -> mem l st = false -> mem l st' = false) ->
  forall m, sub m t -> getstate V st' t m = getstate V st t m.
Proof.
  intros G M E m Sb. destruct m as [i items|j kids]; [reflexivity|].
  destruct kids as [|[x [l items|]] [|]]; try reflexivity. simpl.
  destruct (guard_sub _ _ _ G _ _ _ _ _ Sb eq_refl) as [[_ C]|C].
  - destruct (mem l st) eqn:Q; [rewrite (M _ Q); reflexivity|].
    rewrite (E _ _ _ _ (eq_sym C) Q). reflexivity.
  - rewrite C, (M _ C). reflexivity.
Qed.
Definition seq_ok (seq st : list nat) : Prop :=
  forall i, In i seq -> forall r x items, t = Node r [(x, Leaf i items)] -> mem i st = true.
Definition dump_st (st : list nat) (i : nat) (n : tree) : list nat :=
  fold_left (fun acc x => add x acc) (i :: refs V (getstate V st t n)) st.

Lemma step_leaf st i n :
  find_node V t i = Some n ->
  (forall r x items, t = Node r [(x, Leaf i items)] -> mem i st = true) ->
  forall r x l items, t = Node r [(x, Leaf l items)] -> mem l st = false ->
    mem l (dump_st st i n) = false.
Proof.
  intros F K r x l items E Q. apply mem_false. intros I.
  unfold dump_st in I. apply fold_add_In in I. destruct I as [I|I].
  - destruct I as [I|I].
    + subst i. rewrite (K _ _ _ E) in Q. discriminate.
    + subst t. rewrite find_node_Node in F. simpl in F.
      destruct (Nat.eqb r i).
      * inversion F; subst n. simpl in I. rewrite Q in I. simpl in I.
        rewrite Nat.eqb_refl in I. destruct I.
      * destruct (Nat.eqb l i); [|discriminate]. inversion F; subst n.
        simpl in I. rewrite Nat.eqb_refl in I. destruct I.
  - apply mem_In in I. congruence.
Qed.
Lemma step_mono st i n x : mem x st = true -> mem x (dump_st st i n) = true.
Proof. intros A. apply fold_add_mem. auto. Qed.

Lemma commit_seq_spec : forall seq st s st' s',
  no_embed_below V true st t -> seq_ok seq st -> commit_seq V t seq st s = (st', s') ->
  (forall x, mem x st = true -> mem x st' = true) /\
  (forall m, sub m t -> getstate V st' t m = getstate V st t m) /\
  (forall i, sget V s' i = sget V s i \/
             (In i seq /\ exists n, find_node V t i = Some n /\ sget V s' i = Some (getstate V st' t n))) /\
  (forall i n, In i seq -> find_node V t i = Some n ->
     sget V s' i = Some (getstate V st' t n) /\
     mem i st' = true /\ forall x, In x (refs V (getstate V st' t n)) -> mem x st' = true).
Proof.
  induction seq as [|i rest IH]; intros st s st' s' G K C.
  - simpl in C. inversion C; subst. split; [auto|]. split; [auto|]. split; [auto|]. intros i n [].
  - simpl in C. destruct (find_node V t i) as [n|] eqn:F.
    + fold (dump_st st i n) in C.
      assert (K1 : seq_ok rest (dump_st st i n)).
      { intros j Hj r x items E. apply step_mono. apply (K j (or_intror Hj) _ _ _ E). }
      assert (G1 : no_embed_below V true (dump_st st i n) t).
      { eapply guard_mono; [|exact G]. intros; apply step_mono; auto. }
      assert (D1 : forall m, sub m t -> getstate V (dump_st st i n) t m = getstate V st t m).
      { apply getstate_indep; auto.
        - intros; apply step_mono; auto.
        - apply step_leaf; auto. intros r x items E. apply (K i (or_introl eq_refl) _ _ _ E). }
      destruct (IH _ _ _ _ G1 K1 C) as (A & B & Cc & D).
      assert (Sn : sub n t) by (apply (find_some _ _ _ F)).
      split; [intros; apply A; apply step_mono; auto|].
      split; [intros m Sm; rewrite B, D1; auto|].
      split.
      * intros j. destruct (Cc j) as [E|(I & m & Fm & E)].
        -- simpl in E. destruct (Nat.eqb j i) eqn:Q.
           ++ apply Nat.eqb_eq in Q. subst j. right. split; [left; auto|].
              exists n. split; auto. rewrite E, B, D1; auto.
           ++ left. exact E.
        -- right. split; [right; auto|]. exists m. auto.
      * intros j m [I|I] Fm.
        -- subst j. rewrite F in Fm. inversion Fm; subst m. split; [|rewrite B, D1 by auto; split].
           ++ destruct (Cc i) as [E|(_ & m & Fm' & E)].
              ** simpl in E. rewrite Nat.eqb_refl in E. rewrite E, B, D1; auto.
              ** rewrite F in Fm'. inversion Fm'; subst m. exact E.
           ++ apply A. apply fold_add_mem. left. left. reflexivity.
           ++ intros x Hx. apply A. apply fold_add_mem. left. right. exact Hx.
        -- apply (D j m I Fm).
    + assert (K1 : seq_ok rest st) by (intros j Hj; apply K; right; auto).
      destruct (IH _ _ _ _ G K1 C) as (A & B & Cc & D).
      split; [auto|]. split; [auto|]. split.
      * intros j. destruct (Cc j) as [E|(I & m & Fm & E)]; auto.
        right. split; [right; auto|]. exists m. auto.
      * intros j m [I|I] Fm; [subst; congruence|]. apply (D j m I Fm).
Qed.
End Commit.
(* ---------- hypotheses added to the commit theorem ---------- *)
(* only objects with an oid have a record *)
Definition no_stray (t : tree) (st : list nat) (s : store V) : Prop :=
  forall i, In i (ids V t) -> mem i st = false -> sget V s i = None.
(* what the record of a stored, unchanged object refers to has an oid *)
Definition refs_closed (t : tree) (p : pstate) : Prop :=
  forall i n x, find_node V t i = Some n ->
    mem i (p_stored p) = true -> mem i (p_changed p) = false ->
    In x (refs V (getstate V (p_stored p) t n)) -> mem x (p_stored p) = true.
(* the leaf embedded in the root's record (it has no oid) is not dumped on its own *)
Definition dumps_ok (t : tree) (st : list nat) (seq : list nat) : Prop :=
  forall i, In i seq -> forall r x items, t = Node r [(x, Leaf i items)] -> mem i st = true.

Lemma refs_child st root i kids s c : In (s, c) kids ->
  In (tid V c) (refs V (getstate V st root (Node i kids))) \/
  (exists x l items, kids = [(x, Leaf l items)] /\ mem l st = false).
Proof.
  intros I.
  assert (Q : In (tid V c) (map snd (map (fun sc => (fst sc, tid V (snd sc))) kids))).
  { rewrite map_map. simpl. apply in_map_iff. exists (s, c). auto. }
  destruct kids as [|[x [l items|j k2]] [|sc2 k'']]; 
    try (left; cbv beta iota delta [getstate refs]; apply in_or_app; left; exact Q).
  - destruct I.
  - simpl. destruct (mem l st) eqn:M; [left|right; eauto].
    destruct I as [I|[]]. inversion I; subst. simpl. auto.
Qed.

(* after a complete commit: every stored object of the tree has its current
   record, and what that record refers to is stored *)
Lemma commit_records t p seq s st' s' :
  no_embed_below V true (p_stored p) t -> synced V t p s ->
  no_stray t (p_stored p) s -> refs_closed t p -> dumps_ok t (p_stored p) seq ->
  commit_seq V t seq (p_stored p) s = (st', s') ->
  (forall x, In x (p_changed p) -> mem x seq = true) ->
  (forall x, In x st' -> match sget V s' x with Some _ => true | None => false end = true) ->
  (forall x, mem x (p_stored p) = true -> mem x st' = true) /\
  no_stray t st' s' /\
  forall i n, find_node V t i = Some n -> mem i st' = true ->
    sget V s' i = Some (getstate V st' t n) /\
    forall x, In x (refs V (getstate V st' t n)) -> mem x st' = true.
Proof.
  intros G HS H1 H2 H3 C C1 C2.
  destruct (commit_seq_spec t seq _ s st' s' G H3 C) as (A & B & Cc & D).
  split; auto. split.
  { intros i Hi M. destruct (Cc i) as [E|(I & m & Fm & E)].
    - rewrite E. apply H1; auto. destruct (mem i (p_stored p)) eqn:Q; auto.
      rewrite (A _ Q) in M. discriminate.
    - destruct (D i m I Fm) as (_ & X & _). congruence. }
  intros i n F M.
  destruct (find_some _ _ _ F) as [Sn Tn].
  destruct (Cc i) as [E|(I & m & Fm & E)].
  - pose proof (C2 i (proj1 (mem_In _ _) M)) as R. rewrite E in R.
    destruct (mem i (p_stored p)) eqn:M0.
    + destruct (mem i (p_changed p)) eqn:Ch.
      * apply mem_In, C1, mem_In in Ch. destruct (D i n Ch F) as (X & _ & Y). auto.
      * rewrite (B n Sn). split.
        -- rewrite E. apply HS; auto.
        -- intros x Hx. apply A. eapply H2; eauto.
    + rewrite H1 in R; auto; [discriminate|].
      subst i. eapply sub_ids; eauto. apply tid_in_ids.
  - destruct (D i n I F) as (X & _ & Y). auto.
Qed.
Lemma all_reached t st :
  NoDup (ids V t) -> no_embed_below V true st t ->
  (forall i n, find_node V t i = Some n -> mem i st = true ->
     forall x, In x (refs V (getstate V st t n)) -> mem x st = true) ->
  forall m n, sub n m -> sub m t -> mem (tid V m) st = true ->
    mem (tid V n) st = true \/ exists r x items, t = Node r [(x, Leaf (tid V n) items)].
Proof.
  intros N G R m n Snm. induction Snm as [m|n i kids s c I Snc IH]; intros Smt M.
  - left; auto.
  - pose proof (R i (Node i kids) (find_sub t _ N Smt) M) as Rf.
    destruct (refs_child st t i kids s c I) as [Q|(x & l & items & E & Ml)].
    + apply IH; [|apply Rf; auto].
      eapply sub_trans; [|exact Smt]. eapply sub_kid; [exact I|apply sub_refl].
    + subst kids. destruct I as [I|[]]. inversion I; subst c.
      destruct (guard_sub _ _ _ G _ _ _ _ _ Smt eq_refl) as [[_ C]|C]; [|congruence].
      apply sub_inv in Snc. destruct Snc as [Snc|(? & ? & ? & ? & Q & _)]; [|discriminate].
      subst n. right. simpl. exists i, x, items. auto.
Qed.

Theorem commit_current_partial_sec :
  forall (t : tree) (p : pstate) (seq : list nat) (s : store V),
  Inv V ml mi t -> NoDup (ids V t) ->
  no_embed_below V true (p_stored p) t ->
  synced V t p s -> mem (tid V t) (p_stored p) = true ->
  complete V t p seq s = true ->
  no_stray t (p_stored p) s -> refs_closed t p -> dumps_ok t (p_stored p) seq ->
  let '(p', s') := commit V t p seq s in
  current V t (p_stored p') s' /\ no_embed_below V true (p_stored p') t /\
  (forall i, In i (ids V t) -> mem i (p_stored p') = true \/
             (exists r x items, t = Node r [(x, Leaf i items)])).
Proof.
  intros t p seq s _ N G HS HR HC H1 H2 H3.
  unfold complete in HC. unfold commit.
  destruct (commit_seq V t seq (p_stored p) s) as [st' s'] eqn:C. simpl p_stored.
  apply andb_true_iff in HC. destruct HC as [C1 C2]. rewrite forallb_forall in C1, C2.
  destruct (commit_records t p seq s st' s' G HS H1 H2 H3 C C1 C2) as (A & _ & R).
  assert (G' : no_embed_below V true st' t) by (eapply guard_mono; eauto).
  split; [|split; auto].
  - intros i n F M. apply (R i n F M).
  - intros i Hi. destruct (ids_sub _ _ Hi) as (n & Sn & Tn). subst i.
    apply (all_reached t st' N G' (fun i n F M => proj2 (R i n F M)) t n Sn (sub_refl t)).
    apply A. exact HR.
Qed.
(* the added hypotheses (and synced) hold again after the commit *)
Theorem commit_keeps_sec :
  forall (t : tree) (p : pstate) (seq : list nat) (s : store V),
  no_embed_below V true (p_stored p) t -> synced V t p s ->
  complete V t p seq s = true ->
  no_stray t (p_stored p) s -> refs_closed t p -> dumps_ok t (p_stored p) seq ->
  let '(p', s') := commit V t p seq s in
  synced V t p' s' /\ no_stray t (p_stored p') s' /\ refs_closed t p'.
Proof.
  intros t p seq s G HS HC H1 H2 H3.
  unfold complete in HC. unfold commit.
  destruct (commit_seq V t seq (p_stored p) s) as [st' s'] eqn:C.
  apply andb_true_iff in HC. destruct HC as [C1 C2]. rewrite forallb_forall in C1, C2.
  destruct (commit_records t p seq s st' s' G HS H1 H2 H3 C C1 C2) as (A & B & R).
  split; [|split; auto].
  - intros i n F M _. apply (R i n F M).
  - intros i n x F M _ Hx. apply (proj2 (R i n F M) x Hx).
Qed.

End Store.

(* ---------- exported statements ---------- *)
Theorem reader_sees :
  forall (V : Type) (ml mi : nat) (t : tree V) (stored : list nat) (s : store V),
  Inv V ml mi t -> NoDup (ids V t) ->
  no_embed_below V true stored t -> current V t stored s ->
  (forall i, In i (ids V t) -> mem i stored = true \/
             (exists r x items, t = Node r [(x, Leaf i items)])) ->
  let fuel := S (length (ids V t)) in
  load_items V fuel s (tid V t) = contents V t /\
  reader_iter V fuel s (tid V t) = contents V t /\
  exists p, load V fuel s (tid V t) = Some p /\ inv_stored p.
Proof. exact reader_sees_sec. Qed.

(* C04_commit_partial plus three hypotheses (each one is necessary, see below):
   no_stray, refs_closed, dumps_ok *)
Theorem commit_current_partial :
  forall (V : Type) (ml mi : nat) (t : tree V) (p : pstate) (seq : list nat) (s : store V),
  Inv V ml mi t -> NoDup (ids V t) ->
  no_embed_below V true (p_stored p) t ->
  synced V t p s -> mem (tid V t) (p_stored p) = true ->
  complete V t p seq s = true ->
  no_stray V t (p_stored p) s -> refs_closed V t p -> dumps_ok V t (p_stored p) seq ->
  let '(p', s') := commit V t p seq s in
  current V t (p_stored p') s' /\ no_embed_below V true (p_stored p') t /\
  (forall i, In i (ids V t) -> mem i (p_stored p') = true \/
             (exists r x items, t = Node r [(x, Leaf i items)])).
Proof. exact commit_current_partial_sec. Qed.

Theorem commit_keeps :
  forall (V : Type) (t : tree V) (p : pstate) (seq : list nat) (s : store V),
  no_embed_below V true (p_stored p) t -> synced V t p s ->
  complete V t p seq s = true ->
  no_stray V t (p_stored p) s -> refs_closed V t p -> dumps_ok V t (p_stored p) seq ->
  let '(p', s') := commit V t p seq s in
  synced V t p' s' /\ no_stray V t (p_stored p') s' /\ refs_closed V t p'.
Proof. exact commit_keeps_sec. Qed.

(* ---------- each added hypothesis is necessary (V = Z, sizes 1 / 2) ---------- *)
Definition commit_hyps (t : tree Z) (p : pstate) (seq : list nat) (s : store Z) : Prop :=
  Inv Z 1 2 t /\ NoDup (ids Z t) /\ no_embed_below Z true (p_stored p) t /\
  synced Z t p s /\ mem (tid Z t) (p_stored p) = true /\ complete Z t p seq s = true.
Definition commit_concl (t : tree Z) (p : pstate) (seq : list nat) (s : store Z) : Prop :=
  let '(p', s') := commit Z t p seq s in
  current Z t (p_stored p') s' /\ no_embed_below Z true (p_stored p') t /\
  (forall i, In i (ids Z t) -> mem i (p_stored p') = true \/
             (exists r x items, t = Node r [(x, Leaf i items)])).
Definition t1 : tree Z := Node 0%nat [(0, Leaf 1%nat [(1, 0)])].
Definition t2 : tree Z := Node 0%nat [(0, Leaf 1%nat [(1, 0)]); (5, Leaf 2%nat [(5, 0)])].

(* without dumps_ok: the root's embedded leaf is dumped after the root *)
Theorem commit_needs_dumps_ok :
  exists t p seq s, commit_hyps t p seq s /\ no_stray Z t (p_stored p) s /\ refs_closed Z t p /\
                    ~ commit_concl t p seq s.
Proof.
  exists t1, (mkP [0%nat] [0%nat] []), [0; 1]%nat, [].
  split; [|split; [|split]].
  - split; [reflexivity|]. split; [repeat constructor; simpl; intuition discriminate|].
    split; [simpl; auto|]. split; [|split; reflexivity].
    intros i n F M Ch. destruct i; [discriminate Ch|discriminate M].
  - intros i _ _. reflexivity.
  - intros i n x F M Ch. destruct i; [discriminate Ch|discriminate M].
  - unfold commit_concl. destruct (commit Z t1 _ _ _) as [p' s'] eqn:E.
    vm_compute in E. inversion E; subst p' s'. intros (C & _).
    specialize (C 0%nat t1 eq_refl eq_refl). vm_compute in C. discriminate.
Qed.

(* without no_stray: an object without oid already has a (stale) record *)
Theorem commit_needs_no_stray :
  exists t p seq s, commit_hyps t p seq s /\ refs_closed Z t p /\ dumps_ok Z t (p_stored p) seq /\
                    ~ commit_concl t p seq s.
Proof.
  exists t2, (mkP [0%nat] [0%nat] []), [0%nat], [(1%nat, REmpty); (2%nat, REmpty)].
  split; [|split; [|split]].
  - split; [reflexivity|]. split; [repeat constructor; simpl; intuition discriminate|].
    split; [simpl; auto|]. split; [|split; reflexivity].
    intros i n F M Ch. destruct i; [discriminate Ch|discriminate M].
  - intros i n x F M Ch. destruct i; [discriminate Ch|discriminate M].
  - intros i _ r x items E. discriminate E.
  - unfold commit_concl. destruct (commit Z t2 _ _ _) as [p' s'] eqn:E.
    vm_compute in E. inversion E; subst p' s'. intros (C & _).
    specialize (C 1%nat (Leaf 1%nat [(1, 0)]) eq_refl eq_refl). vm_compute in C. discriminate.
Qed.

(* without refs_closed: an up-to-date record refers to objects without oid *)
Theorem commit_needs_refs_closed :
  exists t p seq s, commit_hyps t p seq s /\ no_stray Z t (p_stored p) s /\ dumps_ok Z t (p_stored p) seq /\
                    ~ commit_concl t p seq s.
Proof.
  exists t2, (mkP [0%nat] [] []), [], [(0%nat, RNode [(0, 1%nat); (5, 2%nat)] (Some 1%nat))].
  split; [|split; [|split]].
  - split; [reflexivity|]. split; [repeat constructor; simpl; intuition discriminate|].
    split; [simpl; auto|]. split; [|split; reflexivity].
    intros i n F M Ch. destruct i; [|discriminate M].
    vm_compute in F. inversion F; subst n. reflexivity.
  - intros i Hi M. simpl in Hi. destruct Hi as [<-|[<-|[<-|[]]]]; [discriminate M|reflexivity|reflexivity].
  - intros i [].
  - unfold commit_concl. destruct (commit Z t2 _ _ _) as [p' s'] eqn:E.
    vm_compute in E. inversion E; subst p' s'. intros (_ & _ & C).
    destruct (C 1%nat (or_intror (or_introl eq_refl))) as [M|(r & x & items & Q)];
      [vm_compute in M; discriminate|discriminate Q].
Qed.

Print Assumptions commit_reload_refuted.
Print Assumptions reader_sees.
Print Assumptions commit_current_partial.
Print Assumptions commit_keeps.
Print Assumptions commit_needs_dumps_ok.
Print Assumptions commit_needs_no_stray.
Print Assumptions commit_needs_refs_closed.
