(* TreeBase -- shared base library for the B+tree proofs (C01 / C03).
   Built on Model/RTree.v, Model/TreeSpec.v, Model/TreeRun.v (Module Spec).
   No axioms; every lemma is "Closed under the global context".

   CONVENTIONS
   - Everything from section 5 on lives in [Section Base] over (V : Type)
     (ml mi : nat); after the section every definition takes V ml mi
     explicitly (WFbody V ml mi lo hi t, WFkids V ml mi lf d first lo hi l,
     size_ok V ml mi t, kcontents V l, next_hi V hi rest ...); lemmas take
     them as leading (inferable) arguments.  alookup / ainsert / aremove /
     hdkey / ksorted / all_lt / all_ge / all_gt / kwithin have V implicit.
   - Bounds are Prop-level: Above lo k, Below hi k, Within lo hi k (unfold and
     use lia); lo_le lo' lo / hi_le hi hi' are the "weaker bound" orders.
   - Association lists: ksorted m := StronglySorted Z.lt (map fst m);
     all_lt m s / all_ge s m / all_gt s m / kwithin lo hi m / all_above lo m
     are Forall over the PAIRS of m.

   THE INVARIANT (section 5)
     WFbody lo hi t   everything wf_node checks except the size of t itself;
                      all proper descendants are fully well-formed (sizes
                      included).  Leaf i [] and Node i [] satisfy WFbody.
       WFB_leaf : ksorted l -> kwithin lo hi l -> WFbody lo hi (Leaf i l)
       WFB_node : WFkids lf d true lo hi kids -> WFbody lo hi (Node i kids)
     WFkids lf d first lo hi l   mirrors the inner [go first lo l] of wf_node
                      for the fixed upper bound hi; lf / d = common kind and
                      depth of the children (replaces the reference child c0).
       WFK_nil  : WFkids lf d first lo hi []
       WFK_cons : (first = true \/ (Within lo hi s /\ tmin c = Some s)) ->
                  is_leaf c = lf -> depth c = d -> size_ok c ->
                  WFbody (if first then lo else Some s)
                         (match rest with [] => hi | (s2,_)::_ => Some s2 end) c ->
                  WFkids lf d false (if first then lo else Some s) hi rest ->
                  WFkids lf d first lo hi ((s, c) :: rest)
       (lo_of first lo s / next_hi hi rest name the two bound expressions;
        WFkids_inv' / WFkids_cons' are inversion / constructor in that form.)
     size_ok t        := 1 <= tsize t <= max_for t          (non-root size)
     top_size_ok root t  the size test wf_node makes at the top
     WFtop szok lo hi t := szok (tsize t) /\ WFbody lo hi t (RELAXED variant:
                      only the size of the top node is replaced by szok)
     WF root lo hi t  := top_size_ok root t /\ WFbody lo hi t
     WF_mutind        mutual (minimality) induction principle for WFbody/WFkids
                      (WFbody_mind, WFkids_mind are the two components)

   EXPORTED LEMMAS
   1. tree induction:  tree_ind' (Node case gets Forall (fun sc => P (snd sc)) kids)
   2. association lists:  alookup ainsert aremove amem hdkey (definitions);
      alookup_Spec ainsert_Spec aremove_Spec amem_Spec (= Spec.* at V := Z,
      also convertible: [change (Spec.lookup l k) with (alookup l k)] works)
   3. bounds:  above_iff below_iff within_iff (bool <-> Prop)  lo_le_refl
      hi_le_refl lo_le_trans hi_le_trans lo_le_None hi_le_None Above_lo_le
      Below_hi_le Above_widen Below_widen Within_widen Above_trans Below_trans
      kwithin_widen kwithin_app kwithin_all_lt kwithin_all_ge kwithin_forallb
      kwithin_relo kwithin_cut_hi kwithin_cut_lo all_above_app all_ge_above
   4. sortedness:  strictly_sorted_b_Sorted strictly_sorted_b_iff ksorted_nil
      ksorted_cons ksorted_tail all_lt_app all_ge_app all_gt_app all_ge_gt
      all_gt_ge all_lt_le all_gt_trans
      ksorted_app      (sorted a++b <-> sorted a, sorted b, keys a < keys b)
      ksorted_app_sep  (separator form)  ksorted_app_l ksorted_app_r
      ksorted_hd_ge    (all keys >= head key)
      ksorted_app_hd   (a below / b at-or-above the head key of b)
   5./6. invariant and reflection:
      wf_node_iff : wf_node V ml mi root lo hi t = true <-> WF root lo hi t
      wf_node_WF WF_wf_node (the two directions)  wf_go wf_node_Leaf
      wf_node_Node wf_go_iff (the inner loop as a standalone Fixpoint)
      WF_WFtop : WF false lo hi t <-> WFtop (fun n => 1 <= n <= max_for t) lo hi t
      WF_false_size_ok : WF false lo hi t <-> size_ok t /\ WFbody lo hi t
      WF_root_WFtop WFtop_sz WFtop_intro size_ok_WFtop size_ok_Leaf size_ok_Node
      top_size_ok_b opt_eqb_iff
      Inv_iff Inv_Node_nil Inv_Node_intro Inv_inv Inv_WFbody Inv_sorted Inv_tget
      WFbody_Leaf_inv WFbody_Node_inv WFbody_Leaf_nil WFbody_Node_nil
      WFbody_Leaf_single
   7. facts under WFbody / WFkids:
      contents_Leaf contents_Node kcontents_nil kcontents_cons kcontents_app
      WFkids_inv WFkids_inv_false WFkids_next_sep (inversions)
      WFkids_Forall (kind, depth, size_ok of every child)  depth_Leaf
      depth_Node WFkids_depth WFkids_params is_leaf_max_for max_for_eq
      WFbody_widen WFkids_widen WFtop_widen WF_widen (WF_widen_mut):
          monotone in the interval: lo_le lo' lo -> hi_le hi hi' -> ...; only
          key / separator RANGE checks are weakened, separators stay exact
      WFbody_relo : WFbody lo hi t -> all_above lo' (contents t) -> WFbody lo' hi t
      WFbody_relo_tmin : ... -> WFbody (Some (tmin0 t)) hi t   (WF_relo_mut)
      WFbody_kwithin WFkids_kwithin WFkids_kwithin_hd WF_kwithin (keys in [lo,hi))
      WFkids_all_ge WFkids_hd_all_lt WFkids_tl_all_ge  (child j < sep < child j+1)
      WFbody_sorted WFkids_sorted WFbody_StronglySorted WF_sorted (WF_sorted_mut)
      WFbody_nonempty WFkids_nonempty WF_nonempty
      WFbody_tmin : tmin t = hdkey (contents t)     WFbody_tmin_cons
      WFbody_tmin0 tmin0_Some WFbody_tmin_within WFbody_inhabited (WF_tmin_mut)
      WFkids_sep_lt WFkids_sep_below WFkids_lo_lt_sep (strict ascent of separators)
      hdkey_app hdkey_Some tmin_Node_app
   8. leaf level (generic veq / value_same_check):
      llookup_spec : ksorted l -> llookup V l k = alookup l k
      lset_spec    : complete equation for lset by alookup l k
      ldel_spec    : ldel V l k = match alookup l k with Some x => Some (aremove l k, x) ...
      lset_cases (StNone / St0 / St1 with list, value, length)  lset_St1_iff
      lset_sorted lset_kwithin lset_hdkey  ldel_cases
      alookup_all_gt alookup_all_lt aremove_none_gt aremove_none_lt
      aremove_absent ainsert_same ainsert_Forall aremove_Forall ainsert_kwithin
      aremove_kwithin ainsert_all_lt ainsert_all_ge aremove_all_lt
      aremove_all_ge ainsert_sorted aremove_sorted ainsert_length
      aremove_length ainsert_nonempty hdkey_ainsert hdkey_ainsert_ge
      hdkey_aremove_ne aremove_hd
      leaf_refines : the exact statement of C01_leaf (V := Z, veq := Z.eqb)
   9. concatenation algebra (no sortedness needed):
      ainsert_app_l aremove_app_l alookup_app_l  (all_gt k b: work in a)
      ainsert_app_r aremove_app_r alookup_app_r  (all_lt a k: work in b)
      descent over (s, c) :: rest, by [chosen V k rest]:
      chosen_true_gt chosen_false_inv chosen_false_lt chosen_true_within
      chosen_false_within
      ainsert_kcontents_here / _skip, aremove_kcontents_here / _skip,
      alookup_kcontents_here / _skip
   10. tget:  tget_go tget_Node tget_spec_mut
      tget_spec : WFbody lo hi t -> tget V t k = alookup (contents t) k
      tget_spec_WF  Inv_tget
   11. splitting:  div2_bounds div2_halves_overflow (n = bound+1: halves in
      [1, bound])  div2_halves_double (n = 2h: halves = h)  div2_halves_pos
      halves_app halves_length halves_nonempty halves_sorted
      WFkids_app  (cut a children list at a child: left list below its
                   separator s2, right list a first-list from s2, s2 exact)
      WFkids_glue (converse)
      split_node_Leaf split_node_Node split_node_contents split_node_shape
      (sizes div2 n / n - div2 n, kind, ids)  split_leaf_WF split_inner_WF
      split_node_WF : WFbody lo hi t -> 2 <= tsize t -> split_node fresh t = (a, b) ->
          WFbody lo (Some (tmin0 b)) a /\ WFbody (Some (tmin0 b)) hi b /\
          tmin b = Some (tmin0 b) /\ Within lo hi (tmin0 b) /\ tmin a = tmin t /\
          depth a = depth t /\ depth b = depth t
      split_node_sizes_overflow (tsize t = max_for t + 1 -> size_ok a /\ size_ok b)
      split_node_sizes_double   (tsize t = 2h -> tsize a = h /\ tsize b = h)
   12. rebuilding a children list around its head (shapes made by the inner
      loops of tset / tdel):  lo_of next_hi WFkids_inv' WFkids_cons' lo_of_le
      next_hi_le
      WFkids_cons_rest (same head, new tail whose next_hi did not shrink)
      WFkids_replace   (new head child in the same slot)
      WFkids_grow      (head child replaced by a, (sb, b): grow_at)
      WFkids_drop      (head child removed)
      WFkids_resep     (head separator refreshed to the child's exact minimum)
      WFkids_first WFkids_first_widen WFkids_relo WFkids_unfirst
      WFkids_pair (split_root)  WFkids_single
   Not provided: alookup-after-ainsert/aremove equations (not needed for
   refinement against Spec, which uses the same functions). *)
From Coq Require Import ZArith List Bool Arith Sorted Lia.
From BT Require Import Model.RTree Model.TreeSpec Model.TreeRun.
Import ListNotations.
Open Scope Z_scope.

(* ================================================================== *)
(* 1. Induction principle for the nested inductive [tree]             *)
(* ================================================================== *)
Section TreeInd.
Variable V : Type.
Variable P : tree V -> Prop.
Hypothesis Hleaf : forall i l, P (Leaf i l).
Hypothesis Hnode : forall i kids, Forall (fun sc => P (snd sc)) kids -> P (Node i kids).

Fixpoint tree_ind' (t : tree V) : P t :=
  match t with
  | Leaf i l => Hleaf i l
  | Node i kids =>
    Hnode i kids
      ((fix go (l : list (Z * tree V)) : Forall (fun sc => P (snd sc)) l :=
          match l with
          | [] => Forall_nil _
          | sc :: r => Forall_cons sc (tree_ind' (snd sc)) (go r)
          end) kids)
  end.
End TreeInd.

(* ================================================================== *)
(* 2. Association lists over Z keys, generic in the value type        *)
(* ================================================================== *)
Section Assoc.
Variable V : Type.

Fixpoint alookup (m : list (Z * V)) (k : Z) : option V :=
  match m with [] => None | (k', v) :: r => if k =? k' then Some v else alookup r k end.
Fixpoint ainsert (m : list (Z * V)) (k : Z) (v : V) : list (Z * V) :=
  match m with
  | [] => [(k, v)]
  | (k', v') :: r => match k ?= k' with
                     | Lt => (k, v) :: m
                     | Eq => (k, v) :: r
                     | Gt => (k', v') :: ainsert r k v
                     end
  end.
Fixpoint aremove (m : list (Z * V)) (k : Z) : list (Z * V) :=
  match m with [] => [] | (k', v') :: r => if k =? k' then r else (k', v') :: aremove r k end.
Definition amem (m : list (Z * V)) (k : Z) : bool :=
  match alookup m k with Some _ => true | None => false end.

(* key of the first entry *)
Definition hdkey (m : list (Z * V)) : option Z :=
  match m with [] => None | (k, _) :: _ => Some k end.

(* sortedness and key bounds of an association list *)
Definition ksorted (m : list (Z * V)) : Prop := StronglySorted Z.lt (map fst m).
Definition all_lt (m : list (Z * V)) (s : Z) : Prop := Forall (fun p => fst p < s) m.
Definition all_ge (s : Z) (m : list (Z * V)) : Prop := Forall (fun p => s <= fst p) m.
Definition all_gt (s : Z) (m : list (Z * V)) : Prop := Forall (fun p => s < fst p) m.
End Assoc.
Arguments alookup {V}. Arguments ainsert {V}. Arguments aremove {V}. Arguments amem {V}.
Arguments hdkey {V}. Arguments ksorted {V}. Arguments all_lt {V}. Arguments all_ge {V}.
Arguments all_gt {V}.

Lemma alookup_Spec : forall m k, alookup m k = Spec.lookup m k.
Proof. induction m as [|[k' v] r IH]; simpl; intros; [reflexivity|]. rewrite IH. reflexivity. Qed.
Lemma ainsert_Spec : forall m k v, ainsert m k v = Spec.insert m k v.
Proof. induction m as [|[k' v'] r IH]; simpl; intros; [reflexivity|]. rewrite IH. reflexivity. Qed.
Lemma aremove_Spec : forall m k, aremove m k = Spec.remove m k.
Proof. induction m as [|[k' v'] r IH]; simpl; intros; [reflexivity|]. rewrite IH. reflexivity. Qed.
Lemma amem_Spec : forall m k, amem m k = Spec.mem m k.
Proof. intros. unfold amem, Spec.mem. rewrite alookup_Spec. reflexivity. Qed.

(* ================================================================== *)
(* 3. Prop-level interval bounds and the option orders on bounds      *)
(* ================================================================== *)
Definition Above (lo : option Z) (k : Z) : Prop := match lo with None => True | Some a => a <= k end.
Definition Below (hi : option Z) (k : Z) : Prop := match hi with None => True | Some b => k < b end.
Definition Within (lo hi : option Z) (k : Z) : Prop := Above lo k /\ Below hi k.
(* lo' is a weaker (smaller or absent) lower bound than lo *)
Definition lo_le (lo' lo : option Z) : Prop :=
  match lo', lo with None, _ => True | Some a, Some b => a <= b | Some _, None => False end.
(* hi' is a weaker (larger or absent) upper bound than hi *)
Definition hi_le (hi hi' : option Z) : Prop :=
  match hi, hi' with _, None => True | Some a, Some b => a <= b | None, Some _ => False end.

Lemma above_iff : forall lo k, above lo k = true <-> Above lo k.
Proof. destruct lo; simpl; intros; [apply Z.leb_le | tauto]. Qed.
Lemma below_iff : forall hi k, below hi k = true <-> Below hi k.
Proof. destruct hi; simpl; intros; [apply Z.ltb_lt | tauto]. Qed.
Lemma within_iff : forall lo hi k, within lo hi k = true <-> Within lo hi k.
Proof. intros. unfold within, Within. rewrite andb_true_iff, above_iff, below_iff. tauto. Qed.

Lemma lo_le_refl : forall lo, lo_le lo lo.
Proof. destruct lo; simpl; auto; lia. Qed.
Lemma hi_le_refl : forall hi, hi_le hi hi.
Proof. destruct hi; simpl; auto; lia. Qed.
Lemma lo_le_trans : forall a b c, lo_le a b -> lo_le b c -> lo_le a c.
Proof. destruct a, b, c; simpl; intros; auto; try lia; tauto. Qed.
Lemma hi_le_trans : forall a b c, hi_le a b -> hi_le b c -> hi_le a c.
Proof. destruct a, b, c; simpl; intros; auto; try lia; tauto. Qed.
Lemma lo_le_None : forall lo, lo_le None lo.
Proof. reflexivity. Qed.
Lemma hi_le_None : forall hi, hi_le hi None.
Proof. destruct hi; reflexivity. Qed.
Lemma Above_lo_le : forall lo s, Above lo s <-> lo_le lo (Some s).
Proof. destruct lo; simpl; tauto. Qed.
Lemma Below_hi_le : forall hi s, Below hi s -> hi_le (Some s) hi.
Proof. destruct hi; simpl; intros; auto; lia. Qed.
Lemma Above_widen : forall lo lo' k, Above lo k -> lo_le lo' lo -> Above lo' k.
Proof. destruct lo, lo'; simpl; intros; auto; try lia; tauto. Qed.
Lemma Below_widen : forall hi hi' k, Below hi k -> hi_le hi hi' -> Below hi' k.
Proof. destruct hi, hi'; simpl; intros; auto; try lia; tauto. Qed.
Lemma Within_widen : forall lo hi lo' hi' k,
  Within lo hi k -> lo_le lo' lo -> hi_le hi hi' -> Within lo' hi' k.
Proof. unfold Within. intros. split; [eapply Above_widen | eapply Below_widen]; intuition eauto. Qed.
Lemma Above_trans : forall lo s k, Above lo s -> s <= k -> Above lo k.
Proof. destruct lo; simpl; intros; auto; lia. Qed.
Lemma Below_trans : forall hi s k, Below hi s -> k <= s -> Below hi k.
Proof. destruct hi; simpl; intros; auto; lia. Qed.

(* all keys of an association list inside [lo, hi) *)
Definition kwithin {V} (lo hi : option Z) (m : list (Z * V)) : Prop :=
  Forall (fun p => Within lo hi (fst p)) m.

Lemma kwithin_widen : forall V lo hi lo' hi' (m : list (Z * V)),
  kwithin lo hi m -> lo_le lo' lo -> hi_le hi hi' -> kwithin lo' hi' m.
Proof. unfold kwithin. intros. eapply Forall_impl; [|eassumption]. simpl. intros. eapply Within_widen; eauto. Qed.
Lemma kwithin_app : forall V lo hi (a b : list (Z * V)),
  kwithin lo hi (a ++ b) <-> kwithin lo hi a /\ kwithin lo hi b.
Proof. intros. unfold kwithin. apply Forall_app. Qed.
Lemma kwithin_all_lt : forall V lo s (m : list (Z * V)), kwithin lo (Some s) m -> all_lt m s.
Proof. unfold kwithin, all_lt. intros. eapply Forall_impl; [|eassumption]. simpl. intros a [_ H1]. exact H1. Qed.
Lemma kwithin_all_ge : forall V hi s (m : list (Z * V)), kwithin (Some s) hi m -> all_ge s m.
Proof. unfold kwithin, all_ge. intros. eapply Forall_impl; [|eassumption]. simpl. intros a [H1 _]. exact H1. Qed.
Lemma kwithin_forallb : forall V lo hi (m : list (Z * V)),
  forallb (within lo hi) (map fst m) = true <-> kwithin lo hi m.
Proof.
  intros. unfold kwithin. rewrite forallb_forall, Forall_forall. split; intros H x Hx.
  - apply within_iff, H, in_map, Hx.
  - apply in_map_iff in Hx. destruct Hx as [p [<- Hp]]. apply within_iff, H, Hp.
Qed.

(* ================================================================== *)
(* 4. Sortedness: reflection of strictly_sorted_b, concatenation      *)
(* ================================================================== *)
Lemma strictly_sorted_b_Sorted : forall l, strictly_sorted_b l = true <-> Sorted Z.lt l.
Proof.
  induction l as [|x r IH]; simpl.
  - split; auto.
  - destruct r as [|y r'].
    + split; auto.
    + rewrite andb_true_iff, Z.ltb_lt, IH. split.
      * intros [H1 H2]. constructor; auto.
      * intros H. inversion H; subst. inversion H3; subst. auto.
Qed.
Lemma strictly_sorted_b_iff : forall l, strictly_sorted_b l = true <-> StronglySorted Z.lt l.
Proof.
  intros. rewrite strictly_sorted_b_Sorted. split.
  - apply Sorted_StronglySorted. intros a b c; lia.
  - apply StronglySorted_Sorted.
Qed.

Section SortedApp.
Variable V : Type.
Implicit Types m a b : list (Z * V).

Lemma ksorted_nil : ksorted (@nil (Z * V)).
Proof. constructor. Qed.
Lemma ksorted_cons : forall k v m, ksorted ((k, v) :: m) <-> all_gt k m /\ ksorted m.
Proof.
  unfold ksorted, all_gt. simpl. intros. split.
  - intros H. inversion H; subst. split; auto. rewrite Forall_map in H3. exact H3.
  - intros [H1 H2]. constructor; auto. rewrite Forall_map. exact H1.
Qed.
Lemma ksorted_tail : forall p m, ksorted (p :: m) -> ksorted m.
Proof. intros [k v] m H. apply ksorted_cons in H. tauto. Qed.
Lemma all_lt_app : forall a b s, all_lt (a ++ b) s <-> all_lt a s /\ all_lt b s.
Proof. intros. apply Forall_app. Qed.
Lemma all_ge_app : forall a b s, all_ge s (a ++ b) <-> all_ge s a /\ all_ge s b.
Proof. intros. apply Forall_app. Qed.
Lemma all_gt_app : forall a b s, all_gt s (a ++ b) <-> all_gt s a /\ all_gt s b.
Proof. intros. apply Forall_app. Qed.
Lemma all_ge_gt : forall m s k, all_ge s m -> k < s -> all_gt k m.
Proof. unfold all_ge, all_gt. intros. eapply Forall_impl; [|eassumption]. simpl. intros. lia. Qed.
Lemma all_gt_ge : forall m s, all_gt s m -> all_ge s m.
Proof. unfold all_ge, all_gt. intros. eapply Forall_impl; [|eassumption]. simpl. intros. lia. Qed.
Lemma all_lt_le : forall m s k, all_lt m s -> s <= k -> all_lt m k.
Proof. unfold all_lt. intros. eapply Forall_impl; [|eassumption]. simpl. intros. lia. Qed.
Lemma all_gt_trans : forall m s k, all_gt s m -> k <= s -> all_gt k m.
Proof. unfold all_gt. intros. eapply Forall_impl; [|eassumption]. simpl. intros. lia. Qed.

(* the workhorse: a concatenation is sorted iff both parts are and the keys
   of the left part are below the keys of the right part *)
Lemma ksorted_app : forall a b,
  ksorted (a ++ b) <-> ksorted a /\ ksorted b /\ (forall p q, In p a -> In q b -> fst p < fst q).
Proof.
  induction a as [|[k v] a IH]; intros b.
  - simpl. split; [|tauto]. intros H. split; [apply ksorted_nil|]. split; [exact H|]. intros ? ? [].
  - rewrite <- app_comm_cons, !ksorted_cons, IH, all_gt_app. unfold all_gt. rewrite !Forall_forall.
    split.
    + intros [[H1 H2] [H3 [H4 H5]]]. repeat split; auto.
      intros p q [<-|Hp] Hq; simpl; auto.
    + intros [[H1 H2] [H3 H4]]. repeat split; auto.
      * intros q Hq. apply (H4 (k, v) q); simpl; auto.
      * intros p q Hp Hq. apply H4; simpl; auto.
Qed.
(* separator form *)
Lemma ksorted_app_sep : forall a b s,
  ksorted a -> ksorted b -> all_lt a s -> all_ge s b -> ksorted (a ++ b).
Proof.
  intros a b s Ha Hb H1 H2. apply ksorted_app. repeat split; auto.
  unfold all_lt, all_ge in *. rewrite Forall_forall in *. intros p q Hp Hq.
  specialize (H1 p Hp). specialize (H2 q Hq). simpl in *. lia.
Qed.
Lemma ksorted_app_l : forall a b, ksorted (a ++ b) -> ksorted a.
Proof. intros a b H. apply ksorted_app in H. tauto. Qed.
Lemma ksorted_app_r : forall a b, ksorted (a ++ b) -> ksorted b.
Proof. intros a b H. apply ksorted_app in H. tauto. Qed.
(* in a sorted list every key of the tail is above the head key *)
Lemma ksorted_hd_ge : forall m k, ksorted m -> hdkey m = Some k -> all_ge k m.
Proof.
  intros [|[k' v] m] k H Hh; simpl in Hh; [discriminate|]. inversion Hh; subst.
  apply ksorted_cons in H. destruct H as [H _]. constructor; simpl; [lia|]. apply all_gt_ge, H.
Qed.
End SortedApp.

(* ================================================================== *)
(* 5. The invariant as an inductive predicate                          *)
(* ================================================================== *)
Section Base.
Variable V : Type.
Variables ml mi : nat.
Notation tree := (tree V).
Notation contents := (RTree.contents V).
Notation tsize := (RTree.tsize V).
Notation tmin := (RTree.tmin V).
Notation tmin0 := (RTree.tmin0 V).
Notation is_leaf := (RTree.is_leaf V).
Notation max_for := (RTree.max_for V ml mi).
Notation depth := (TreeSpec.depth V).
Notation split_node := (RTree.split_node V).

(* in-order contents of a children list *)
Definition kcontents (l : list (Z * tree)) : list (Z * V) :=
  flat_map (fun sc => contents (snd sc)) l.

(* size condition of a non-root node *)
Definition size_ok (t : tree) : Prop := (1 <= tsize t <= max_for t)%nat.
(* size condition checked by wf_node at the top, by root flag *)
Definition top_size_ok (root : bool) (t : tree) : Prop :=
  (1 <= tsize t)%nat /\
  match t with
  | Leaf _ _ => (tsize t <= ml)%nat
  | Node _ _ => if root then (tsize t < 2 * mi)%nat else (tsize t <= mi)%nat
  end.

(* WFbody lo hi t: everything wf_node checks EXCEPT the size of t itself
   (all proper descendants satisfy the full non-root invariant, sizes
   included).  An empty leaf and an empty node satisfy WFbody.
   WFkids lf d first lo hi l: mirrors the inner [go first lo l] of wf_node
   for the fixed upper bound hi; lf / d are the common kind and depth of the
   children (instead of a reference child c0). *)
Inductive WFbody : option Z -> option Z -> tree -> Prop :=
| WFB_leaf : forall lo hi i l,
    ksorted l -> kwithin lo hi l -> WFbody lo hi (Leaf i l)
| WFB_node : forall lo hi i kids lf d,
    WFkids lf d true lo hi kids -> WFbody lo hi (Node i kids)
with WFkids : bool -> nat -> bool -> option Z -> option Z -> list (Z * tree) -> Prop :=
| WFK_nil : forall lf d first lo hi, WFkids lf d first lo hi []
| WFK_cons : forall lf d first lo hi s c rest,
    (first = true \/ (Within lo hi s /\ tmin c = Some s)) ->
    is_leaf c = lf -> depth c = d -> size_ok c ->
    WFbody (if first then lo else Some s)
           (match rest with [] => hi | (s2, _) :: _ => Some s2 end) c ->
    WFkids lf d false (if first then lo else Some s) hi rest ->
    WFkids lf d first lo hi ((s, c) :: rest).

Scheme WFbody_mind := Minimality for WFbody Sort Prop
  with WFkids_mind := Minimality for WFkids Sort Prop.
Combined Scheme WF_mutind from WFbody_mind, WFkids_mind.

(* WFtop szok lo hi t: WF except that the size condition of the TOP node is
   szok (tsize t) *)
Definition WFtop (szok : nat -> Prop) (lo hi : option Z) (t : tree) : Prop :=
  szok (tsize t) /\ WFbody lo hi t.
(* the Prop counterpart of wf_node *)
Definition WF (root : bool) (lo hi : option Z) (t : tree) : Prop :=
  top_size_ok root t /\ WFbody lo hi t.

Lemma WF_WFtop : forall lo hi t,
  WF false lo hi t <-> WFtop (fun n => (1 <= n <= max_for t)%nat) lo hi t.
Proof.
  intros. unfold WF, WFtop, top_size_ok, RTree.max_for. destruct t; simpl; intuition lia.
Qed.
Lemma WF_false_size_ok : forall lo hi t, WF false lo hi t <-> size_ok t /\ WFbody lo hi t.
Proof. intros. rewrite WF_WFtop. unfold WFtop, size_ok. tauto. Qed.
Lemma WF_root_WFtop : forall lo hi i kids,
  WF true lo hi (Node i kids) <-> WFtop (fun n => (1 <= n < 2 * mi)%nat) lo hi (Node i kids).
Proof. intros. unfold WF, WFtop, top_size_ok. simpl. intuition lia. Qed.
Lemma WFtop_sz : forall (P Q : nat -> Prop) lo hi t,
  WFtop P lo hi t -> (P (tsize t) -> Q (tsize t)) -> WFtop Q lo hi t.
Proof. unfold WFtop. intuition. Qed.
Lemma WFtop_intro : forall (P : nat -> Prop) lo hi t, P (tsize t) -> WFbody lo hi t -> WFtop P lo hi t.
Proof. unfold WFtop. auto. Qed.

(* ================================================================== *)
(* 6. Reflection: wf_node = true <-> WF                                *)
(* ================================================================== *)
(* the inner loop of wf_node as a standalone function *)
Fixpoint wf_go (hi : option Z) (c0 : tree) (first : bool) (lo' : option Z)
         (l : list (Z * tree)) {struct l} : bool :=
  match l with
  | [] => true
  | (s, c) :: rest =>
    let lo1 := if first then lo' else Some s in
    let hi1 := match rest with [] => hi | (s2, _) :: _ => Some s2 end in
    (first || (within lo' hi s && opt_eqb (tmin c) s)) &&
    Bool.eqb (is_leaf c) (is_leaf c0) && (depth c =? depth c0)%nat &&
    wf_node V ml mi false lo1 hi1 c && wf_go hi c0 false lo1 rest
  end.

Lemma wf_node_Leaf : forall root lo hi i l,
  wf_node V ml mi root lo hi (Leaf i l) =
  negb (length l =? 0)%nat && (length l <=? ml)%nat &&
  strictly_sorted_b (map fst l) && forallb (within lo hi) (map fst l).
Proof. reflexivity. Qed.
Lemma wf_node_Node : forall root lo hi i kids,
  wf_node V ml mi root lo hi (Node i kids) =
  negb (length kids =? 0)%nat &&
  (if root then (length kids <? 2 * mi)%nat else (length kids <=? mi)%nat) &&
  match kids with [] => true | (_, c0) :: _ => wf_go hi c0 true lo kids end.
Proof.
  intros. destruct kids as [|[s0 c0] rest]; [reflexivity|].
  set (l0 := (s0, c0) :: rest).
  change (wf_node V ml mi root lo hi (Node i l0)) with
    (negb (length l0 =? 0)%nat &&
     (if root then (length l0 <? 2 * mi)%nat else (length l0 <=? mi)%nat) &&
     (fix go (first : bool) (lo' : option Z) (l : list (Z * tree)) {struct l} : bool :=
         match l with
         | [] => true
         | (s, c) :: rest =>
           let lo1 := if first then lo' else Some s in
           let hi1 := match rest with [] => hi | (s2, _) :: _ => Some s2 end in
           (first || (within lo' hi s && opt_eqb (tmin c) s)) &&
           Bool.eqb (is_leaf c) (is_leaf c0) && (depth c =? depth c0)%nat &&
           wf_node V ml mi false lo1 hi1 c && go false lo1 rest
         end) true lo l0).
  f_equal. clearbody l0.
  match goal with |- ?f true lo l0 = _ =>
    cut (forall l first lo', f first lo' l = wf_go hi c0 first lo' l); [intro E; apply E|] end.
  induction l as [|[s c] r IH]; intros; [reflexivity|]. simpl. rewrite <- IH. reflexivity.
Qed.

Lemma opt_eqb_iff : forall a b, opt_eqb a b = true <-> a = Some b.
Proof.
  destruct a; simpl; intros.
  - rewrite Z.eqb_eq. split; congruence.
  - split; discriminate.
Qed.
Lemma top_size_ok_b : forall root t,
  top_size_ok root t <->
  (negb (tsize t =? 0)%nat &&
   match t with Leaf _ _ => (tsize t <=? ml)%nat
              | Node _ _ => if root then (tsize t <? 2 * mi)%nat else (tsize t <=? mi)%nat end) = true.
Proof.
  intros. unfold top_size_ok. rewrite andb_true_iff, negb_true_iff, Nat.eqb_neq.
  destruct t; [|destruct root]; rewrite ?Nat.leb_le, ?Nat.ltb_lt; lia.
Qed.

Lemma wf_go_iff : forall hi c0 l,
  Forall (fun sc => forall root lo hi,
            wf_node V ml mi root lo hi (snd sc) = true <-> WF root lo hi (snd sc)) l ->
  forall first lo,
    wf_go hi c0 first lo l = true <-> WFkids (is_leaf c0) (depth c0) first lo hi l.
Proof.
  intros hi c0. induction l as [|[s c] r IH]; intros HF first lo.
  - simpl. split; [intros; constructor | reflexivity].
  - inversion HF as [|? ? Hc Hr]; subst. simpl in Hc.
    simpl wf_go. rewrite !andb_true_iff, orb_true_iff, andb_true_iff, within_iff, opt_eqb_iff,
      eqb_true_iff, Nat.eqb_eq, Hc, (IH Hr), WF_false_size_ok.
    split.
    + intros [[[[H1 H2] H3] [H4 H5]] H6]. constructor; auto.
    + intros H. inversion H; subst. tauto.
Qed.

Theorem wf_node_iff : forall t root lo hi,
  wf_node V ml mi root lo hi t = true <-> WF root lo hi t.
Proof.
  induction t as [i l | i kids IH] using tree_ind'; intros.
  - rewrite wf_node_Leaf. unfold WF. rewrite top_size_ok_b. simpl tsize.
    rewrite !andb_true_iff, strictly_sorted_b_iff, kwithin_forallb. split.
    + intros [[[H1 H2] H3] H4]. split; [tauto|]. constructor; assumption.
    + intros [[H1 H2] H3]. inversion H3; subst. tauto.
  - rewrite wf_node_Node. unfold WF. rewrite top_size_ok_b. simpl tsize.
    rewrite !andb_true_iff. destruct kids as [|[s0 c0] rest].
    + simpl. split; intros; intuition discriminate.
    + rewrite (wf_go_iff hi c0 _ IH). split.
      * intros [H1 H2]. split; [exact H1|]. econstructor. exact H2.
      * intros [H1 H2]. split; [exact H1|]. inversion H2; subst.
        match goal with H : WFkids _ _ _ _ _ _ |- _ => inversion H; subst; assumption end.
Qed.

Corollary wf_node_WF : forall t root lo hi, wf_node V ml mi root lo hi t = true -> WF root lo hi t.
Proof. intros. apply wf_node_iff. assumption. Qed.
Corollary WF_wf_node : forall t root lo hi, WF root lo hi t -> wf_node V ml mi root lo hi t = true.
Proof. intros. apply wf_node_iff. assumption. Qed.

(* the whole-container invariant *)
Lemma Inv_iff : forall t,
  Inv V ml mi t <-> exists i kids, t = Node i kids /\ (kids = [] \/ WF true None None t).
Proof.
  intros. unfold Inv, wfb. destruct t as [i l | i [|sc r]].
  - split; [discriminate | intros [? [? [? _]]]; discriminate].
  - split; [intros _; exists i, []; auto | reflexivity].
  - rewrite wf_node_iff. split.
    + intros H. exists i, (sc :: r). auto.
    + intros [? [? [E [H|H]]]]; [inversion E; subst; discriminate | exact H].
Qed.

(* ================================================================== *)
(* 7. Facts under WFbody / WFkids                                      *)
(* ================================================================== *)
Lemma contents_Leaf : forall i l, contents (Leaf i l) = l.
Proof. reflexivity. Qed.
Lemma contents_Node : forall i kids, contents (Node i kids) = kcontents kids.
Proof. reflexivity. Qed.
Lemma kcontents_nil : kcontents [] = [].
Proof. reflexivity. Qed.
Lemma kcontents_cons : forall s c rest, kcontents ((s, c) :: rest) = contents c ++ kcontents rest.
Proof. reflexivity. Qed.
Lemma kcontents_app : forall a b, kcontents (a ++ b) = kcontents a ++ kcontents b.
Proof. intros. unfold kcontents. apply flat_map_app. Qed.

(* inversion of a non-empty children list, in destructured form *)
Lemma WFkids_inv : forall lf d first lo hi s c rest,
  WFkids lf d first lo hi ((s, c) :: rest) ->
  (first = true \/ (Within lo hi s /\ tmin c = Some s)) /\
  is_leaf c = lf /\ depth c = d /\ size_ok c /\
  WFbody (if first then lo else Some s)
         (match rest with [] => hi | (s2, _) :: _ => Some s2 end) c /\
  WFkids lf d false (if first then lo else Some s) hi rest.
Proof. intros. inversion H; subst. tauto. Qed.
Lemma WFkids_inv_false : forall lf d lo hi s c rest,
  WFkids lf d false lo hi ((s, c) :: rest) ->
  Within lo hi s /\ tmin c = Some s /\ is_leaf c = lf /\ depth c = d /\ size_ok c /\
  WFbody (Some s) (match rest with [] => hi | (s2, _) :: _ => Some s2 end) c /\
  WFkids lf d false (Some s) hi rest.
Proof.
  intros. apply WFkids_inv in H. destruct H as [[H|H] H']; [discriminate|]. tauto.
Qed.
(* the next separator lies above the current lower bound and below hi *)
Lemma WFkids_next_sep : forall lf d first lo hi s c s2 c2 rest,
  WFkids lf d first lo hi ((s, c) :: (s2, c2) :: rest) ->
  Within (if first then lo else Some s) hi s2 /\ tmin c2 = Some s2.
Proof.
  intros. apply WFkids_inv in H. destruct H as (_ & _ & _ & _ & _ & H).
  apply WFkids_inv_false in H. tauto.
Qed.

(* kind, depth and size of all children *)
Lemma WFkids_Forall : forall lf d first lo hi l,
  WFkids lf d first lo hi l ->
  Forall (fun sc => is_leaf (snd sc) = lf /\ depth (snd sc) = d /\ size_ok (snd sc)) l.
Proof.
  intros lf d first lo hi l. revert first lo.
  induction l as [|[s c] r IH]; intros; constructor.
  - apply WFkids_inv in H. simpl. tauto.
  - apply WFkids_inv in H. eapply IH. apply H.
Qed.
Lemma depth_Leaf : forall i l, depth (Leaf i l) = 0%nat.
Proof. reflexivity. Qed.
Lemma depth_Node : forall i s c rest, depth (Node i ((s, c) :: rest)) = S (depth c).
Proof. reflexivity. Qed.
Lemma WFkids_depth : forall lf d first lo hi i s c rest,
  WFkids lf d first lo hi ((s, c) :: rest) -> depth (Node i ((s, c) :: rest)) = S d.
Proof. intros. apply WFkids_inv in H. simpl. f_equal. tauto. Qed.
(* the kind/depth parameters are determined by a non-empty list *)
Lemma WFkids_params : forall lf d first lo hi s c rest,
  WFkids lf d first lo hi ((s, c) :: rest) -> lf = is_leaf c /\ d = depth c.
Proof. intros. apply WFkids_inv in H. intuition congruence. Qed.
Lemma is_leaf_max_for : forall t,
  max_for t = if is_leaf t then ml else mi.
Proof. reflexivity. Qed.
Lemma max_for_eq : forall a b, is_leaf a = is_leaf b -> max_for a = max_for b.
Proof. intros. unfold RTree.max_for. rewrite H. reflexivity. Qed.

(* Widening: WFbody / WFkids are monotone in the interval.  Only the KEY and
   separator range checks are weakened; separators stay exact. *)
Lemma WF_widen_mut :
  (forall lo hi t, WFbody lo hi t ->
     forall lo' hi', lo_le lo' lo -> hi_le hi hi' -> WFbody lo' hi' t) /\
  (forall lf d first lo hi l, WFkids lf d first lo hi l ->
     forall lo' hi', lo_le lo' lo -> hi_le hi hi' -> WFkids lf d first lo' hi' l).
Proof.
  apply WF_mutind.
  - intros. constructor; auto. eapply kwithin_widen; eauto.
  - intros. econstructor. eauto.
  - intros. constructor.
  - intros lf d first lo hi s c rest H1 H2 H3 H4 _ IHc _ IHr lo' hi' Hlo Hhi.
    constructor; auto.
    + destruct H1 as [H1|[H1 H1']]; [left; exact H1|right]. split; auto.
      eapply Within_widen; eauto.
    + apply IHc.
      * destruct first; [exact Hlo | apply lo_le_refl].
      * destruct rest as [|[s2 c2] r]; [exact Hhi | apply hi_le_refl].
    + apply IHr; [|exact Hhi]. destruct first; [exact Hlo | apply lo_le_refl].
Qed.
Lemma WFbody_widen : forall lo hi lo' hi' t,
  WFbody lo hi t -> lo_le lo' lo -> hi_le hi hi' -> WFbody lo' hi' t.
Proof. intros. eapply (proj1 WF_widen_mut); eauto. Qed.
Lemma WFkids_widen : forall lf d first lo hi lo' hi' l,
  WFkids lf d first lo hi l -> lo_le lo' lo -> hi_le hi hi' -> WFkids lf d first lo' hi' l.
Proof. intros. eapply (proj2 WF_widen_mut); eauto. Qed.
Lemma WFtop_widen : forall P lo hi lo' hi' t,
  WFtop P lo hi t -> lo_le lo' lo -> hi_le hi hi' -> WFtop P lo' hi' t.
Proof. unfold WFtop. intros. split; [tauto|]. eapply WFbody_widen; intuition eauto. Qed.
Lemma WF_widen : forall root lo hi lo' hi' t,
  WF root lo hi t -> lo_le lo' lo -> hi_le hi hi' -> WF root lo' hi' t.
Proof. unfold WF. intros. split; [tauto|]. eapply WFbody_widen; intuition eauto. Qed.

(* a non-first list becomes a first list whose lower bound is its head separator *)
Lemma WFkids_first : forall lf d lo hi s c rest,
  WFkids lf d false lo hi ((s, c) :: rest) -> WFkids lf d true (Some s) hi ((s, c) :: rest).
Proof.
  intros. apply WFkids_inv_false in H. destruct H as (H1 & H2 & H3 & H4 & H5 & H6 & H7).
  constructor; auto.
Qed.
(* ... and then any weaker lower bound (used when the first child is removed) *)
Lemma WFkids_first_widen : forall lf d lo lo' hi s c rest,
  WFkids lf d false lo hi ((s, c) :: rest) -> Above lo' s ->
  WFkids lf d true lo' hi ((s, c) :: rest).
Proof.
  intros. eapply WFkids_widen; [eapply WFkids_first; eassumption | | apply hi_le_refl].
  apply Above_lo_le. assumption.
Qed.
(* the lower bound of a non-first list only constrains its head separator *)
Lemma WFkids_relo : forall lf d lo lo' hi rest,
  WFkids lf d false lo hi rest ->
  match rest with [] => True | (s2, _) :: _ => Above lo' s2 end ->
  WFkids lf d false lo' hi rest.
Proof.
  intros. destruct rest as [|[s2 c2] r]; [constructor|].
  apply WFkids_inv_false in H. destruct H as (H1 & H2 & H3 & H4 & H5 & H6 & H7).
  constructor; auto. right. split; auto. split; [assumption | apply H1].
Qed.
(* conversely a first list whose head child has exact minimum s, s inside the
   interval, can be put behind other children *)
Lemma WFkids_unfirst : forall lf d lo hi s c rest,
  WFkids lf d true (Some s) hi ((s, c) :: rest) -> tmin c = Some s -> Within lo hi s ->
  WFkids lf d false lo hi ((s, c) :: rest).
Proof.
  intros. apply WFkids_inv in H. destruct H as (_ & H3 & H4 & H5 & H6 & H7).
  constructor; auto.
Qed.

(* all keys inside the interval *)
Lemma WF_kwithin_mut :
  (forall lo hi t, WFbody lo hi t -> kwithin lo hi (contents t)) /\
  (forall lf d first lo hi l, WFkids lf d first lo hi l -> kwithin lo hi (kcontents l)).
Proof.
  apply WF_mutind.
  - intros. assumption.
  - intros. assumption.
  - intros. constructor.
  - intros lf d first lo hi s c rest H1 H2 H3 H4 _ IHc Hr IHr.
    rewrite kcontents_cons. apply kwithin_app.
    assert (Hlo : lo_le lo (if first then lo else Some s)).
    { destruct first; [apply lo_le_refl|]. destruct H1 as [H1|[[H1 _] _]]; [discriminate|].
      apply Above_lo_le. exact H1. }
    split.
    + eapply kwithin_widen; [exact IHc | exact Hlo |].
      destruct rest as [|[s2 c2] r]; [apply hi_le_refl|].
      apply WFkids_inv_false in Hr. destruct Hr as [[_ Hb] _]. apply Below_hi_le. exact Hb.
    + eapply kwithin_widen; [exact IHr | exact Hlo | apply hi_le_refl].
Qed.
Lemma WFbody_kwithin : forall lo hi t, WFbody lo hi t -> kwithin lo hi (contents t).
Proof. apply WF_kwithin_mut. Qed.
Lemma WFkids_kwithin : forall lf d first lo hi l,
  WFkids lf d first lo hi l -> kwithin lo hi (kcontents l).
Proof. apply WF_kwithin_mut. Qed.
(* sharper: a non-first list lies above its head separator *)
Lemma WFkids_kwithin_hd : forall lf d first lo hi s c rest,
  WFkids lf d first lo hi ((s, c) :: rest) ->
  kwithin (if first then lo else Some s) hi (kcontents ((s, c) :: rest)).
Proof.
  intros. destruct first; [eapply WFkids_kwithin; eassumption|].
  apply WFkids_first in H. eapply WFkids_kwithin. eassumption.
Qed.
Lemma WFkids_all_ge : forall lf d lo hi s c rest,
  WFkids lf d false lo hi ((s, c) :: rest) -> all_ge s (kcontents ((s, c) :: rest)).
Proof. intros. eapply kwithin_all_ge. apply (WFkids_kwithin_hd _ _ false _ _ _ _ _ H). Qed.
(* the head child lies below the next separator *)
Lemma WFkids_hd_all_lt : forall lf d first lo hi s c s2 c2 rest,
  WFkids lf d first lo hi ((s, c) :: (s2, c2) :: rest) -> all_lt (contents c) s2.
Proof.
  intros. apply WFkids_inv in H. destruct H as (_ & _ & _ & _ & H & _).
  eapply kwithin_all_lt. eapply WFbody_kwithin. eassumption.
Qed.
Lemma WFkids_tl_all_ge : forall lf d first lo hi s c s2 c2 rest,
  WFkids lf d first lo hi ((s, c) :: (s2, c2) :: rest) ->
  all_ge s2 (kcontents ((s2, c2) :: rest)).
Proof.
  intros. apply WFkids_inv in H. destruct H as (_ & _ & _ & _ & _ & H).
  eapply WFkids_all_ge. eassumption.
Qed.

(* non-emptiness and the smallest key *)
Lemma hdkey_app : forall (a b : list (Z * V)), a <> [] -> hdkey (a ++ b) = hdkey a.
Proof. destruct a as [|[k v] a]; intros; [congruence | reflexivity]. Qed.
Lemma hdkey_Some : forall (m : list (Z * V)) k, hdkey m = Some k -> exists v r, m = (k, v) :: r.
Proof. destruct m as [|[k' v] r]; simpl; intros; [discriminate|]. inversion H; subst. eauto. Qed.

Lemma WF_tmin_mut :
  (forall lo hi t, WFbody lo hi t ->
     tmin t = hdkey (contents t) /\ ((1 <= tsize t)%nat -> contents t <> [])) /\
  (forall lf d first lo hi l, WFkids lf d first lo hi l ->
     match l with
     | [] => True
     | (s, c) :: rest => tmin c = hdkey (kcontents l) /\ kcontents l <> []
     end).
Proof.
  apply WF_mutind.
  - intros. simpl. split; [reflexivity|]. destruct l; simpl; [lia | congruence].
  - intros lo hi i kids lf d _ IH. destruct kids as [|[s c] rest]; simpl.
    + split; [reflexivity | lia].
    + simpl in IH. destruct IH as [IH1 IH2]. split; [exact IH1 | intros _; exact IH2].
  - intros. exact I.
  - intros lf d first lo hi s c rest H1 H2 H3 H4 _ [IHc1 IHc2] _ _.
    rewrite kcontents_cons. assert (Hne : contents c <> []) by (apply IHc2, H4).
    split.
    + rewrite hdkey_app; assumption.
    + intros E. apply app_eq_nil in E. tauto.
Qed.
Lemma WFbody_tmin : forall lo hi t, WFbody lo hi t -> tmin t = hdkey (contents t).
Proof. intros. eapply (proj1 WF_tmin_mut); eauto. Qed.
Lemma WFbody_nonempty : forall lo hi t,
  WFbody lo hi t -> (1 <= tsize t)%nat -> contents t <> [].
Proof. intros. eapply (proj1 WF_tmin_mut); eauto. Qed.
Lemma WFkids_nonempty : forall lf d first lo hi s c rest,
  WFkids lf d first lo hi ((s, c) :: rest) -> kcontents ((s, c) :: rest) <> [].
Proof. intros. apply (proj2 WF_tmin_mut) in H. tauto. Qed.
(* destructured form: the contents start with the smallest key *)
Lemma WFbody_tmin_cons : forall lo hi t,
  WFbody lo hi t -> (1 <= tsize t)%nat ->
  exists k v r, contents t = (k, v) :: r /\ tmin t = Some k /\ tmin0 t = k.
Proof.
  intros lo hi t H Hs. pose proof (WFbody_tmin _ _ _ H) as Ht.
  pose proof (WFbody_nonempty _ _ _ H Hs) as Hn.
  destruct (contents t) as [|[k v] r] eqn:E; [congruence|]. simpl in Ht.
  exists k, v, r. unfold RTree.tmin0. rewrite Ht. auto.
Qed.
Lemma tmin0_Some : forall t k, tmin t = Some k -> tmin0 t = k.
Proof. intros. unfold RTree.tmin0. rewrite H. reflexivity. Qed.
Lemma WFbody_tmin0 : forall lo hi t,
  WFbody lo hi t -> (1 <= tsize t)%nat -> tmin t = Some (tmin0 t).
Proof.
  intros. destruct (WFbody_tmin_cons _ _ _ H H0) as (k & v & r & _ & H1 & H2). congruence.
Qed.
(* the smallest key lies in the interval *)
Lemma WFbody_tmin_within : forall lo hi t k,
  WFbody lo hi t -> tmin t = Some k -> Within lo hi k.
Proof.
  intros. pose proof (WFbody_kwithin _ _ _ H) as Hk. rewrite (WFbody_tmin _ _ _ H) in H0.
  apply hdkey_Some in H0. destruct H0 as (v & r & E). rewrite E in Hk.
  inversion Hk; subst. assumption.
Qed.

(* the contents are strictly sorted *)
Lemma WF_sorted_mut :
  (forall lo hi t, WFbody lo hi t -> ksorted (contents t)) /\
  (forall lf d first lo hi l, WFkids lf d first lo hi l -> ksorted (kcontents l)).
Proof.
  apply WF_mutind.
  - intros. assumption.
  - intros. assumption.
  - intros. apply ksorted_nil.
  - intros lf d first lo hi s c rest H1 H2 H3 H4 Hc IHc Hr IHr.
    rewrite kcontents_cons. destruct rest as [|[s2 c2] r].
    + simpl. rewrite app_nil_r. exact IHc.
    + apply ksorted_app_sep with (s := s2); auto.
      * eapply kwithin_all_lt. eapply WFbody_kwithin. exact Hc.
      * eapply WFkids_all_ge. exact Hr.
Qed.
Lemma WFbody_sorted : forall lo hi t, WFbody lo hi t -> ksorted (contents t).
Proof. apply WF_sorted_mut. Qed.
Lemma WFkids_sorted : forall lf d first lo hi l,
  WFkids lf d first lo hi l -> ksorted (kcontents l).
Proof. apply WF_sorted_mut. Qed.
Lemma WFbody_StronglySorted : forall lo hi t,
  WFbody lo hi t -> StronglySorted Z.lt (map fst (contents t)).
Proof. exact WFbody_sorted. Qed.
Lemma WF_sorted : forall root lo hi t, WF root lo hi t -> ksorted (contents t).
Proof. intros root lo hi t [_ H]. eapply WFbody_sorted; eauto. Qed.
Lemma WF_kwithin : forall root lo hi t, WF root lo hi t -> kwithin lo hi (contents t).
Proof. intros root lo hi t [_ H]. eapply WFbody_kwithin; eauto. Qed.
Lemma WF_nonempty : forall root lo hi t, WF root lo hi t -> contents t <> [].
Proof. intros root lo hi t [[Hs _] H]. eapply WFbody_nonempty; eauto. Qed.

(* a non-empty WF subtree witnesses that its interval is inhabited; used to
   get strict ascent of separators *)
Lemma WFbody_inhabited : forall lo hi t,
  WFbody lo hi t -> (1 <= tsize t)%nat -> Within lo hi (tmin0 t).
Proof.
  intros. eapply WFbody_tmin_within; eauto. eapply WFbody_tmin0; eauto.
Qed.
(* separators ascend strictly *)
Lemma WFkids_sep_lt : forall lf d lo hi s c s2 c2 rest,
  WFkids lf d false lo hi ((s, c) :: (s2, c2) :: rest) -> s < s2.
Proof.
  intros. apply WFkids_inv_false in H. destruct H as (_ & Ht & _ & _ & Hs & Hc & _).
  pose proof (WFbody_tmin_within _ _ _ _ Hc Ht) as [_ Hb]. exact Hb.
Qed.
(* the lower bound lies strictly below the next separator *)
Lemma WFkids_lo_lt_sep : forall lf d first lo hi s c s2 c2 rest,
  WFkids lf d first lo hi ((s, c) :: (s2, c2) :: rest) ->
  Within (if first then lo else Some s) (Some s2) (tmin0 c).
Proof.
  intros. apply WFkids_inv in H. destruct H as (_ & _ & _ & Hs & Hc & _).
  apply WFbody_inhabited; [exact Hc | apply Hs].
Qed.

(* Re-bounding from below: if all keys lie above lo', the lower bound can be
   replaced by lo' (used when a separator is refreshed after a deletion). *)
Definition all_above (lo : option Z) (m : list (Z * V)) : Prop :=
  Forall (fun p => Above lo (fst p)) m.
Lemma all_above_app : forall lo a b, all_above lo (a ++ b) <-> all_above lo a /\ all_above lo b.
Proof. intros. apply Forall_app. Qed.
Lemma kwithin_relo : forall lo lo' hi m, kwithin lo hi m -> all_above lo' m -> kwithin lo' hi m.
Proof.
  unfold kwithin, all_above. intros lo lo' hi m H1 H2. rewrite Forall_forall in *.
  intros p Hp. split; [apply H2, Hp | apply (H1 p Hp)].
Qed.
Lemma all_ge_above : forall s m, all_ge s m <-> all_above (Some s) m.
Proof. reflexivity. Qed.

Lemma WF_relo_mut :
  (forall lo hi t, WFbody lo hi t ->
     forall lo', all_above lo' (contents t) -> WFbody lo' hi t) /\
  (forall lf d first lo hi l, WFkids lf d first lo hi l ->
     forall lo', all_above lo' (kcontents l) -> WFkids lf d first lo' hi l).
Proof.
  apply WF_mutind.
  - intros. constructor; auto. eapply kwithin_relo; eauto.
  - intros. econstructor. eauto.
  - intros. constructor.
  - intros lf d first lo hi s c rest H1 H2 H3 H4 Hc IHc Hr IHr lo' Ha.
    rewrite kcontents_cons in Ha. apply all_above_app in Ha. destruct Ha as [Ha1 Ha2].
    destruct first.
    + constructor; auto.
    + destruct H1 as [H1|[H1 H1']]; [discriminate|].
      constructor; auto. right. split; auto.
      split; [|apply H1].
      rewrite (WFbody_tmin _ _ _ Hc) in H1'. apply hdkey_Some in H1'.
      destruct H1' as (v & r & E). rewrite E in Ha1. inversion Ha1; subst. assumption.
Qed.
Lemma WFbody_relo : forall lo lo' hi t,
  WFbody lo hi t -> all_above lo' (contents t) -> WFbody lo' hi t.
Proof. intros. eapply (proj1 WF_relo_mut); eauto. Qed.
(* in particular the lower bound can be the exact minimum *)
Lemma WFbody_relo_tmin : forall lo hi t,
  WFbody lo hi t -> (1 <= tsize t)%nat -> WFbody (Some (tmin0 t)) hi t.
Proof.
  intros. eapply WFbody_relo; [eassumption|]. apply all_ge_above.
  apply ksorted_hd_ge; [eapply WFbody_sorted; eassumption|].
  rewrite <- (WFbody_tmin _ _ _ H). eapply WFbody_tmin0; eassumption.
Qed.

(* ================================================================== *)
(* 8. Leaf level: lset / ldel / llookup versus ainsert / aremove /     *)
(*    alookup                                                          *)
(* ================================================================== *)
Implicit Types m : list (Z * V).

Lemma alookup_all_gt : forall m k, all_gt k m -> alookup m k = None.
Proof.
  induction m as [|[k' v] r IH]; simpl; intros; [reflexivity|].
  inversion H; subst. simpl in *. destruct (Z.eqb_spec k k'); [lia | auto].
Qed.
Lemma alookup_all_lt : forall m k, all_lt m k -> alookup m k = None.
Proof.
  induction m as [|[k' v] r IH]; simpl; intros; [reflexivity|].
  inversion H; subst. simpl in *. destruct (Z.eqb_spec k k'); [lia | auto].
Qed.
Lemma aremove_none_gt : forall m k, all_gt k m -> aremove m k = m.
Proof.
  induction m as [|[k' v] r IH]; simpl; intros; [reflexivity|].
  inversion H; subst. simpl in *. destruct (Z.eqb_spec k k'); [lia | f_equal; auto].
Qed.
Lemma aremove_none_lt : forall m k, all_lt m k -> aremove m k = m.
Proof.
  induction m as [|[k' v] r IH]; simpl; intros; [reflexivity|].
  inversion H; subst. simpl in *. destruct (Z.eqb_spec k k'); [lia | f_equal; auto].
Qed.
Lemma aremove_absent : forall m k, alookup m k = None -> aremove m k = m.
Proof.
  induction m as [|[k' v] r IH]; simpl; intros; [reflexivity|].
  destruct (Z.eqb_spec k k'); [discriminate | f_equal; auto].
Qed.

Lemma llookup_spec : forall l k, ksorted l -> llookup V l k = alookup l k.
Proof.
  induction l as [|[k' v] r IH]; simpl; intros k Hs; [reflexivity|].
  apply ksorted_cons in Hs. destruct Hs as [Hg Hs].
  destruct (Z.compare_spec k k'); destruct (Z.eqb_spec k k'); try lia; auto.
  symmetry. apply alookup_all_gt. eapply all_gt_trans; [eassumption | lia].
Qed.

(* complete description of lset, for an arbitrary value comparison *)
Lemma lset_spec : forall (veq : V -> V -> bool) (vs : bool) l k v iu,
  ksorted l ->
  lset V veq vs l k v iu =
  match alookup l k with
  | None => (ainsert l k v, St1, v)
  | Some v' => if iu || (vs && veq v v') then (l, StNone, v') else (ainsert l k v, St0, v)
  end.
Proof.
  induction l as [|[k' v'] r IH]; simpl; intros k v iu Hs; [reflexivity|].
  apply ksorted_cons in Hs. destruct Hs as [Hg Hs].
  destruct (Z.compare_spec k k'); destruct (Z.eqb_spec k k'); try lia.
  - subst. destruct (iu || vs && veq v v'); reflexivity.
  - rewrite alookup_all_gt; [reflexivity|]. eapply all_gt_trans; [eassumption | lia].
  - rewrite (IH k v iu Hs). destruct (alookup r k); [|reflexivity].
    destruct (iu || vs && veq v v0); reflexivity.
Qed.

Lemma ldel_spec : forall l k, ksorted l ->
  ldel V l k = match alookup l k with Some x => Some (aremove l k, x) | None => None end.
Proof.
  induction l as [|[k' v'] r IH]; simpl; intros k Hs; [reflexivity|].
  apply ksorted_cons in Hs. destruct Hs as [Hg Hs].
  destruct (Z.compare_spec k k'); destruct (Z.eqb_spec k k'); try lia.
  - reflexivity.
  - rewrite alookup_all_gt; [reflexivity|]. eapply all_gt_trans; [eassumption | lia].
  - rewrite (IH k Hs). destruct (alookup r k); reflexivity.
Qed.

(* --- ainsert / aremove: bounds, sortedness, length, first key --- *)
Lemma ainsert_Forall : forall (P : Z * V -> Prop) m k v,
  Forall P m -> P (k, v) -> Forall P (ainsert m k v).
Proof.
  induction m as [|[k' v'] r IH]; simpl; intros k v H Hp; [constructor; auto|].
  inversion H; subst. destruct (k ?= k'); repeat constructor; auto.
Qed.
Lemma aremove_Forall : forall (P : Z * V -> Prop) m k, Forall P m -> Forall P (aremove m k).
Proof.
  induction m as [|[k' v'] r IH]; simpl; intros k H; [constructor|].
  inversion H; subst. destruct (k =? k'); [assumption | constructor; auto].
Qed.
Lemma ainsert_kwithin : forall lo hi m k v,
  kwithin lo hi m -> Within lo hi k -> kwithin lo hi (ainsert m k v).
Proof. intros. apply ainsert_Forall; assumption. Qed.
Lemma aremove_kwithin : forall lo hi m k, kwithin lo hi m -> kwithin lo hi (aremove m k).
Proof. intros. apply aremove_Forall; assumption. Qed.
Lemma ainsert_all_lt : forall m s k v, all_lt m s -> k < s -> all_lt (ainsert m k v) s.
Proof. intros. apply ainsert_Forall; assumption. Qed.
Lemma ainsert_all_ge : forall m s k v, all_ge s m -> s <= k -> all_ge s (ainsert m k v).
Proof. intros. apply ainsert_Forall; assumption. Qed.
Lemma aremove_all_lt : forall m s k, all_lt m s -> all_lt (aremove m k) s.
Proof. intros. apply aremove_Forall; assumption. Qed.
Lemma aremove_all_ge : forall m s k, all_ge s m -> all_ge s (aremove m k).
Proof. intros. apply aremove_Forall; assumption. Qed.

Lemma ainsert_sorted : forall m k v, ksorted m -> ksorted (ainsert m k v).
Proof.
  induction m as [|[k' v'] r IH]; simpl; intros k v Hs.
  - apply ksorted_cons. split; [constructor | apply ksorted_nil].
  - pose proof Hs as Hs0. apply ksorted_cons in Hs. destruct Hs as [Hg Hs].
    destruct (Z.compare_spec k k').
    + subst. apply ksorted_cons. auto.
    + apply ksorted_cons. split; [|exact Hs0].
      constructor; [simpl; lia|]. eapply all_gt_trans; [eassumption | lia].
    + apply ksorted_cons. split; [|auto]. apply ainsert_Forall; simpl; auto.
Qed.
Lemma aremove_sorted : forall m k, ksorted m -> ksorted (aremove m k).
Proof.
  induction m as [|[k' v'] r IH]; simpl; intros k Hs; [exact Hs|].
  apply ksorted_cons in Hs. destruct Hs as [Hg Hs]. destruct (k =? k'); [exact Hs|].
  apply ksorted_cons. split; [apply aremove_Forall; exact Hg | auto].
Qed.

Lemma ainsert_length : forall m k v, ksorted m ->
  length (ainsert m k v) = match alookup m k with Some _ => length m | None => S (length m) end.
Proof.
  induction m as [|[k' v'] r IH]; simpl; intros k v Hs; [reflexivity|].
  apply ksorted_cons in Hs. destruct Hs as [Hg Hs].
  destruct (Z.compare_spec k k'); destruct (Z.eqb_spec k k'); try lia; simpl.
  - reflexivity.
  - rewrite alookup_all_gt; [reflexivity|]. eapply all_gt_trans; [eassumption | lia].
  - rewrite (IH k v Hs). destruct (alookup r k); reflexivity.
Qed.
Lemma aremove_length : forall m k x,
  alookup m k = Some x -> S (length (aremove m k)) = length m.
Proof.
  induction m as [|[k' v'] r IH]; simpl; intros k x H; [discriminate|].
  destruct (k =? k'); [reflexivity|]. simpl. f_equal. eauto.
Qed.
Lemma ainsert_nonempty : forall m k v, ainsert m k v <> [].
Proof. destruct m as [|[k' v'] r]; simpl; intros; [|destruct (k ?= k')]; discriminate. Qed.

Lemma hdkey_ainsert : forall m k v,
  hdkey (ainsert m k v) = Some (match hdkey m with Some k0 => Z.min k0 k | None => k end).
Proof.
  destruct m as [|[k' v'] r]; simpl; intros; [reflexivity|].
  destruct (Z.compare_spec k k'); simpl; f_equal; lia.
Qed.
Lemma hdkey_ainsert_ge : forall m k v k0,
  hdkey m = Some k0 -> k0 <= k -> hdkey (ainsert m k v) = Some k0.
Proof. intros. rewrite hdkey_ainsert, H. f_equal. lia. Qed.
Lemma hdkey_aremove_ne : forall m k k0,
  hdkey m = Some k0 -> k <> k0 -> hdkey (aremove m k) = Some k0.
Proof.
  destruct m as [|[k' v'] r]; simpl; intros; [discriminate|]. inversion H; subst.
  destruct (Z.eqb_spec k k0); [contradiction | reflexivity].
Qed.
Lemma aremove_hd : forall k (v : V) r, aremove ((k, v) :: r) k = r.
Proof. intros. simpl. rewrite Z.eqb_refl. reflexivity. Qed.

Lemma ainsert_same : forall m k v, ksorted m -> alookup m k = Some v -> ainsert m k v = m.
Proof.
  induction m as [|[k' v'] r IH]; simpl; intros k v Hs H; [discriminate|].
  apply ksorted_cons in Hs. destruct Hs as [Hg Hs].
  destruct (Z.compare_spec k k'); destruct (Z.eqb_spec k k'); try lia.
  - inversion H; subst. reflexivity.
  - rewrite alookup_all_gt in H; [discriminate|]. eapply all_gt_trans; [eassumption | lia].
  - f_equal. auto.
Qed.

(* lset by status: what the tree level needs *)
Lemma lset_cases : forall (veq : V -> V -> bool) (vs : bool) l k v iu l' st rv,
  ksorted l -> lset V veq vs l k v iu = (l', st, rv) ->
  (st = StNone /\ l' = l /\ alookup l k = Some rv) \/
  (st = St0 /\ l' = ainsert l k v /\ rv = v /\ alookup l k <> None /\ length l' = length l) \/
  (st = St1 /\ l' = ainsert l k v /\ rv = v /\ alookup l k = None /\ length l' = S (length l)).
Proof.
  intros veq vs l k v iu l' st rv Hs H. rewrite lset_spec in H by assumption.
  pose proof (ainsert_length l k v Hs) as Hl.
  destruct (alookup l k) as [v'|] eqn:E.
  - destruct (iu || vs && veq v v'); inversion H; subst.
    + left. auto.
    + right. left. repeat split; auto. congruence.
  - inversion H; subst. right. right. auto.
Qed.
Lemma lset_St1_iff : forall (veq : V -> V -> bool) (vs : bool) l k v iu l' st rv,
  ksorted l -> lset V veq vs l k v iu = (l', st, rv) -> (st = St1 <-> alookup l k = None).
Proof.
  intros. destruct (lset_cases _ _ _ _ _ _ _ _ _ H H0) as [H1|[H1|H1]];
    destruct H1 as (-> & H1); split; intros; try discriminate; try tauto.
  destruct H1 as (_ & E). congruence.
Qed.
(* sortedness, bounds and non-emptiness of the new item list *)
Lemma lset_sorted : forall (veq : V -> V -> bool) (vs : bool) l k v iu l' st rv,
  ksorted l -> lset V veq vs l k v iu = (l', st, rv) -> ksorted l'.
Proof.
  intros. destruct (lset_cases _ _ _ _ _ _ _ _ _ H H0) as [H1|[H1|H1]];
    destruct H1 as (_ & -> & _); auto using ainsert_sorted.
Qed.
Lemma lset_kwithin : forall (veq : V -> V -> bool) (vs : bool) lo hi l k v iu l' st rv,
  ksorted l -> kwithin lo hi l -> Within lo hi k ->
  lset V veq vs l k v iu = (l', st, rv) -> kwithin lo hi l'.
Proof.
  intros until 1. intros Hw Hk H0. destruct (lset_cases _ _ _ _ _ _ _ _ _ H H0) as [H1|[H1|H1]];
    destruct H1 as (_ & -> & _); auto using ainsert_kwithin.
Qed.
Lemma lset_hdkey : forall (veq : V -> V -> bool) (vs : bool) l k v iu l' st rv k0,
  ksorted l -> lset V veq vs l k v iu = (l', st, rv) ->
  hdkey l = Some k0 -> k0 <= k -> hdkey l' = Some k0.
Proof.
  intros until 1. intros H0 Hh Hle. destruct (lset_cases _ _ _ _ _ _ _ _ _ H H0) as [H1|[H1|H1]];
    destruct H1 as (_ & -> & _); auto using hdkey_ainsert_ge.
Qed.
(* ldel by outcome *)
Lemma ldel_cases : forall l k,
  ksorted l ->
  match ldel V l k with
  | Some (l', x) => alookup l k = Some x /\ l' = aremove l k /\ S (length l') = length l /\
                    ksorted l'
  | None => alookup l k = None
  end.
Proof.
  intros. rewrite ldel_spec by assumption. destruct (alookup l k) eqn:E; [|reflexivity].
  repeat split; auto using aremove_sorted. eapply aremove_length; eauto.
Qed.

(* ================================================================== *)
(* 9. Association-list algebra over concatenations                     *)
(* ================================================================== *)
Lemma ainsert_app_l : forall (a b : list (Z * V)) k v, all_gt k b -> ainsert (a ++ b) k v = ainsert a k v ++ b.
Proof.
  induction a as [|[k' v'] a IH]; simpl; intros b k v H.
  - destruct b as [|[k2 v2] b]; [reflexivity|]. inversion H; subst. simpl in *.
    destruct (Z.compare_spec k k2); try lia. reflexivity.
  - destruct (k ?= k'); try reflexivity. simpl. f_equal. auto.
Qed.
Lemma ainsert_app_r : forall (a b : list (Z * V)) k v, all_lt a k -> ainsert (a ++ b) k v = a ++ ainsert b k v.
Proof.
  induction a as [|[k' v'] a IH]; simpl; intros b k v H; [reflexivity|].
  inversion H; subst. simpl in *. destruct (Z.compare_spec k k'); try lia. f_equal. auto.
Qed.
Lemma aremove_app_l : forall (a b : list (Z * V)) k, all_gt k b -> aremove (a ++ b) k = aremove a k ++ b.
Proof.
  induction a as [|[k' v'] a IH]; simpl; intros b k H.
  - apply aremove_none_gt. assumption.
  - destruct (k =? k'); [reflexivity|]. simpl. f_equal. auto.
Qed.
Lemma aremove_app_r : forall (a b : list (Z * V)) k, all_lt a k -> aremove (a ++ b) k = a ++ aremove b k.
Proof.
  induction a as [|[k' v'] a IH]; simpl; intros b k H; [reflexivity|].
  inversion H; subst. simpl in *. destruct (Z.eqb_spec k k'); [lia|]. f_equal. auto.
Qed.
Lemma alookup_app_l : forall (a b : list (Z * V)) k, all_gt k b -> alookup (a ++ b) k = alookup a k.
Proof.
  induction a as [|[k' v'] a IH]; simpl; intros b k H.
  - apply alookup_all_gt. assumption.
  - destruct (k =? k'); auto.
Qed.
Lemma alookup_app_r : forall (a b : list (Z * V)) k, all_lt a k -> alookup (a ++ b) k = alookup b k.
Proof.
  induction a as [|[k' v'] a IH]; simpl; intros b k H; [reflexivity|].
  inversion H; subst. simpl in *. destruct (Z.eqb_spec k k'); [lia | auto].
Qed.

(* --- the descent over a WF children list, in the shape of the inner
       [fix go] of tget / tset / tdel: at (s, c) :: rest either
       [chosen k rest = true] (work in c) or not (skip c) --- *)
Lemma chosen_true_gt : forall lf d first lo hi s c rest k,
  WFkids lf d first lo hi ((s, c) :: rest) -> chosen V k rest = true ->
  all_gt k (kcontents rest).
Proof.
  intros. destruct rest as [|[s2 c2] r]; [constructor|]. simpl in H0. apply Z.ltb_lt in H0.
  eapply all_ge_gt; [eapply WFkids_tl_all_ge; eassumption | assumption].
Qed.
Lemma chosen_false_inv : forall k rest,
  chosen V k rest = false -> exists s2 c2 r, rest = (s2, c2) :: r /\ s2 <= k.
Proof.
  intros. destruct rest as [|[s2 c2] r]; simpl in H; [discriminate|].
  apply Z.ltb_ge in H. eauto.
Qed.
Lemma chosen_false_lt : forall lf d first lo hi s c rest k,
  WFkids lf d first lo hi ((s, c) :: rest) -> chosen V k rest = false ->
  all_lt (contents c) k.
Proof.
  intros. destruct (chosen_false_inv _ _ H0) as (s2 & c2 & r & -> & Hle).
  eapply all_lt_le; [eapply WFkids_hd_all_lt; eassumption | assumption].
Qed.
(* the key stays inside the interval of the child descended into / of the
   remaining list *)
Lemma chosen_true_within : forall lf d first lo hi s c rest k,
  WFkids lf d first lo hi ((s, c) :: rest) -> chosen V k rest = true ->
  Within (if first then lo else Some s) hi k ->
  Within (if first then lo else Some s)
         (match rest with [] => hi | (s2, _) :: _ => Some s2 end) k.
Proof.
  intros. destruct rest as [|[s2 c2] r]; [assumption|]. simpl in H0. apply Z.ltb_lt in H0.
  destruct H1. split; [assumption | exact H0].
Qed.
Lemma chosen_false_within : forall lo hi k s2 c2 (r : list (Z * tree)),
  chosen V k ((s2, c2) :: r) = false -> Within lo hi k -> Within (Some s2) hi k.
Proof. intros. simpl in H. apply Z.ltb_ge in H. destruct H0. split; [exact H | assumption]. Qed.

(* contents-level effect of working in / skipping the head child *)
Lemma ainsert_kcontents_here : forall lf d first lo hi s c rest k v,
  WFkids lf d first lo hi ((s, c) :: rest) -> chosen V k rest = true ->
  ainsert (kcontents ((s, c) :: rest)) k v = ainsert (contents c) k v ++ kcontents rest.
Proof. intros. rewrite kcontents_cons. apply ainsert_app_l. eapply chosen_true_gt; eauto. Qed.
Lemma ainsert_kcontents_skip : forall lf d first lo hi s c rest k v,
  WFkids lf d first lo hi ((s, c) :: rest) -> chosen V k rest = false ->
  ainsert (kcontents ((s, c) :: rest)) k v = contents c ++ ainsert (kcontents rest) k v.
Proof. intros. rewrite kcontents_cons. apply ainsert_app_r. eapply chosen_false_lt; eauto. Qed.
Lemma aremove_kcontents_here : forall lf d first lo hi s c rest k,
  WFkids lf d first lo hi ((s, c) :: rest) -> chosen V k rest = true ->
  aremove (kcontents ((s, c) :: rest)) k = aremove (contents c) k ++ kcontents rest.
Proof. intros. rewrite kcontents_cons. apply aremove_app_l. eapply chosen_true_gt; eauto. Qed.
Lemma aremove_kcontents_skip : forall lf d first lo hi s c rest k,
  WFkids lf d first lo hi ((s, c) :: rest) -> chosen V k rest = false ->
  aremove (kcontents ((s, c) :: rest)) k = contents c ++ aremove (kcontents rest) k.
Proof. intros. rewrite kcontents_cons. apply aremove_app_r. eapply chosen_false_lt; eauto. Qed.
Lemma alookup_kcontents_here : forall lf d first lo hi s c rest k,
  WFkids lf d first lo hi ((s, c) :: rest) -> chosen V k rest = true ->
  alookup (kcontents ((s, c) :: rest)) k = alookup (contents c) k.
Proof. intros. rewrite kcontents_cons. apply alookup_app_l. eapply chosen_true_gt; eauto. Qed.
Lemma alookup_kcontents_skip : forall lf d first lo hi s c rest k,
  WFkids lf d first lo hi ((s, c) :: rest) -> chosen V k rest = false ->
  alookup (kcontents ((s, c) :: rest)) k = alookup (kcontents rest) k.
Proof. intros. rewrite kcontents_cons. apply alookup_app_r. eapply chosen_false_lt; eauto. Qed.

(* ================================================================== *)
(* 10. tget agrees with alookup on the contents                        *)
(* ================================================================== *)
(* the inner loop of tget as a standalone function *)
Fixpoint tget_go (k : Z) (l : list (Z * tree)) : option V :=
  match l with
  | [] => None
  | (_, c) :: rest => if chosen V k rest then tget V c k else tget_go k rest
  end.
Lemma tget_Node : forall i kids k, tget V (Node i kids) k = tget_go k kids.
Proof.
  intros. simpl. induction kids as [|[s c] r IH]; [reflexivity|]. simpl. rewrite IH. reflexivity.
Qed.

Lemma tget_spec_mut :
  (forall lo hi t, WFbody lo hi t -> forall k, tget V t k = alookup (contents t) k) /\
  (forall lf d first lo hi l, WFkids lf d first lo hi l ->
     forall k, tget_go k l = alookup (kcontents l) k).
Proof.
  apply WF_mutind.
  - intros. simpl. apply llookup_spec. assumption.
  - intros. rewrite tget_Node. auto.
  - intros. reflexivity.
  - intros lf d first lo hi s c rest H1 H2 H3 H4 Hc IHc Hr IHr k.
    assert (Hk : WFkids lf d first lo hi ((s, c) :: rest)) by (constructor; auto).
    simpl tget_go. destruct (chosen V k rest) eqn:E.
    + rewrite (alookup_kcontents_here _ _ _ _ _ _ _ _ _ Hk E). apply IHc.
    + rewrite (alookup_kcontents_skip _ _ _ _ _ _ _ _ _ Hk E). apply IHr.
Qed.
Theorem tget_spec : forall lo hi t k, WFbody lo hi t -> tget V t k = alookup (contents t) k.
Proof. intros. eapply (proj1 tget_spec_mut); eauto. Qed.
Corollary tget_spec_WF : forall root lo hi t k,
  WF root lo hi t -> tget V t k = alookup (contents t) k.
Proof. intros root lo hi t k [_ H]. eapply tget_spec; eauto. Qed.

(* ================================================================== *)
(* 11. Splitting                                                       *)
(* ================================================================== *)
(* --- arithmetic of Nat.div2 --- *)
Lemma div2_bounds : forall n : nat, (2 * Nat.div2 n <= n <= 2 * Nat.div2 n + 1)%nat.
Proof.
  intros. pose proof (Nat.div2_odd n) as H. destruct (Nat.odd n); simpl Nat.b2n in H; lia.
Qed.
Lemma div2_halves_overflow : forall n bound : nat,
  n = (bound + 1)%nat -> (1 <= bound)%nat ->
  (1 <= Nat.div2 n <= bound)%nat /\ (1 <= n - Nat.div2 n <= bound)%nat.
Proof. intros. pose proof (div2_bounds n). lia. Qed.
Lemma div2_halves_double : forall n h : nat,
  n = (2 * h)%nat -> Nat.div2 n = h /\ (n - Nat.div2 n)%nat = h.
Proof. intros. pose proof (div2_bounds n). lia. Qed.
Lemma div2_halves_pos : forall n : nat, (2 <= n)%nat ->
  (1 <= Nat.div2 n)%nat /\ (1 <= n - Nat.div2 n)%nat /\ (Nat.div2 n < n)%nat.
Proof. intros. pose proof (div2_bounds n). lia. Qed.

(* --- halves of a list --- *)
Lemma halves_app : forall (A : Type) (l : list A),
  firstn (Nat.div2 (length l)) l ++ skipn (Nat.div2 (length l)) l = l.
Proof. intros. apply firstn_skipn. Qed.
Lemma halves_length : forall (A : Type) (l : list A),
  length (firstn (Nat.div2 (length l)) l) = Nat.div2 (length l) /\
  length (skipn (Nat.div2 (length l)) l) = (length l - Nat.div2 (length l))%nat.
Proof.
  intros. rewrite skipn_length, firstn_length. pose proof (div2_bounds (length l)). lia.
Qed.
Lemma halves_nonempty : forall (A : Type) (l : list A), (2 <= length l)%nat ->
  firstn (Nat.div2 (length l)) l <> [] /\ skipn (Nat.div2 (length l)) l <> [].
Proof.
  intros A l H. destruct (halves_length A l) as [H1 H2].
  destruct (div2_halves_pos _ H) as (H3 & H4 & _).
  split; intros E; rewrite E in *; simpl in *; lia.
Qed.
Lemma halves_sorted : forall (l : list (Z * V)), ksorted l ->
  ksorted (firstn (Nat.div2 (length l)) l) /\ ksorted (skipn (Nat.div2 (length l)) l).
Proof.
  intros l H. pose proof (halves_app _ l) as E. rewrite <- E in H.
  split; [eapply ksorted_app_l | eapply ksorted_app_r]; exact H.
Qed.
(* a sorted concatenation: the left part is below, the right part at or above
   the first key of the right part *)
Lemma ksorted_app_hd : forall (a b : list (Z * V)) kb,
  ksorted (a ++ b) -> hdkey b = Some kb -> all_lt a kb /\ all_ge kb b.
Proof.
  intros a b kb H Hh. pose proof H as H0. apply ksorted_app in H. destruct H as (Ha & Hb & Hab).
  split; [|apply ksorted_hd_ge; assumption].
  apply hdkey_Some in Hh. destruct Hh as (v & r & ->).
  unfold all_lt. rewrite Forall_forall. intros p Hp. apply (Hab p (kb, v)); simpl; auto.
Qed.
Lemma kwithin_cut_hi : forall lo hi s (m : list (Z * V)),
  kwithin lo hi m -> all_lt m s -> kwithin lo (Some s) m.
Proof.
  unfold kwithin, all_lt. intros lo hi s m H1 H2. rewrite Forall_forall in *.
  intros p Hp. split; [apply (H1 p Hp) | apply (H2 p Hp)].
Qed.
Lemma kwithin_cut_lo : forall lo hi s (m : list (Z * V)),
  kwithin lo hi m -> all_ge s m -> kwithin (Some s) hi m.
Proof. intros. eapply kwithin_relo; eauto. Qed.

(* a non-first child's separator lies strictly below the child's upper bound *)
Lemma WFkids_sep_below : forall lf d lo hi s c rest,
  WFkids lf d false lo hi ((s, c) :: rest) ->
  Below (match rest with [] => hi | (s2, _) :: _ => Some s2 end) s.
Proof.
  intros. apply WFkids_inv_false in H. destruct H as (_ & Ht & _ & _ & _ & Hc & _).
  apply (WFbody_tmin_within _ _ _ _ Hc Ht).
Qed.

(* cutting a children list in two: the left part is a WF list below the
   separator s2 of the first right child, the right part a WF first-list from
   s2 on; s2 is exact and inside the interval *)
Lemma WFkids_app : forall l1 lf d first lo hi s2 c2 r2,
  l1 <> [] ->
  WFkids lf d first lo hi (l1 ++ (s2, c2) :: r2) ->
  WFkids lf d first lo (Some s2) l1 /\
  WFkids lf d true (Some s2) hi ((s2, c2) :: r2) /\
  tmin c2 = Some s2 /\ Within lo hi s2.
Proof.
  induction l1 as [|[s c] l1 IH]; intros lf d first lo hi s2 c2 r2 Hne H; [congruence|].
  clear Hne. rewrite <- app_comm_cons in H. pose proof H as H0.
  apply WFkids_inv in H. destruct H as (H1 & H2 & H3 & H4 & Hc & Hr).
  assert (Hlo : lo_le lo (if first then lo else Some s)).
  { destruct first; [apply lo_le_refl|]. destruct H1 as [H1|[[H1 _] _]]; [discriminate|].
    apply Above_lo_le. exact H1. }
  destruct l1 as [|[s' c'] l1'].
  - simpl in *. pose proof (WFkids_first _ _ _ _ _ _ _ Hr) as Hf.
    apply WFkids_inv_false in Hr. destruct Hr as (Hw & Ht & _).
    repeat split; auto.
    + constructor; auto; [|constructor].
      destruct first; [left; reflexivity|right].
      destruct H1 as [H1|[H1 H1']]; [discriminate|]. split; [|exact H1'].
      split; [apply H1|]. apply (WFkids_sep_below _ _ _ _ _ _ _ H0).
    + eapply Above_widen; [apply Hw | exact Hlo].
    + apply Hw.
  - destruct (IH lf d false _ hi s2 c2 r2 ltac:(discriminate) Hr) as (Ia & Ib & Ic & Id).
    repeat split; auto.
    + constructor; auto.
      destruct first; [left; reflexivity|right].
      destruct H1 as [H1|[H1 H1']]; [discriminate|]. split; [|exact H1'].
      split; [apply H1|].
      pose proof (WFkids_sep_below _ _ _ _ _ _ _ H0) as Hb. simpl in Hb.
      apply WFkids_inv_false in Ia. destruct Ia as ([_ Hs'] & _). simpl in Hs'. simpl. lia.
    + eapply Above_widen; [apply Id | exact Hlo].
    + apply Id.
Qed.

(* and the converse: gluing two lists at an exact separator *)
Lemma WFkids_glue : forall l1 lf d first lo hi s2 c2 r2,
  WFkids lf d first lo (Some s2) l1 ->
  WFkids lf d true (Some s2) hi ((s2, c2) :: r2) ->
  tmin c2 = Some s2 -> Below hi s2 -> (l1 = [] -> first = false /\ Above lo s2) ->
  WFkids lf d first lo hi (l1 ++ (s2, c2) :: r2).
Proof.
  induction l1 as [|[s c] l1 IH]; intros lf d first lo hi s2 c2 r2 H1 H2 Ht Hb Hnil.
  - destruct (Hnil eq_refl) as [-> Ha]. simpl. apply WFkids_unfirst; auto. split; assumption.
  - rewrite <- app_comm_cons. apply WFkids_inv in H1.
    destruct H1 as (Ha & Hk & Hd & Hs & Hc & Hr).
    assert (Hlt : first = false -> s < s2).
    { intros ->. destruct Ha as [Ha|[[_ Ha] _]]; [discriminate | exact Ha]. }
    constructor; auto.
    + destruct Ha as [Ha|[[Ha Ha'] Ha'']]; [left; exact Ha|right].
      split; [|exact Ha'']. split; [exact Ha|]. eapply Below_trans; [exact Hb | simpl in Ha'; lia].
    + destruct l1 as [|[s' c'] l1']; exact Hc.
    + apply IH; auto. intros ->. split; [reflexivity|].
      destruct first; simpl.
      * pose proof (WFbody_inhabited _ _ _ Hc (proj1 Hs)) as [Hx Hy]. simpl in Hy.
        eapply Above_trans; [exact Hx | lia].
      * specialize (Hlt eq_refl). lia.
Qed.

(* --- inversion of WFbody by constructor of the tree --- *)
Lemma WFbody_Leaf_inv : forall lo hi i l,
  WFbody lo hi (Leaf i l) -> ksorted l /\ kwithin lo hi l.
Proof. intros. inversion H; subst. auto. Qed.
Lemma WFbody_Node_inv : forall lo hi i kids,
  WFbody lo hi (Node i kids) -> exists lf d, WFkids lf d true lo hi kids.
Proof. intros. inversion H; subst. eauto. Qed.

(* --- split_node --- *)
Lemma split_node_Leaf : forall fresh i l,
  split_node fresh (Leaf i l) =
  (Leaf i (firstn (Nat.div2 (length l)) l), Leaf fresh (skipn (Nat.div2 (length l)) l)).
Proof. reflexivity. Qed.
Lemma split_node_Node : forall fresh i k,
  split_node fresh (Node i k) =
  (Node i (firstn (Nat.div2 (length k)) k), Node fresh (skipn (Nat.div2 (length k)) k)).
Proof. reflexivity. Qed.

Lemma split_node_contents : forall fresh t a b,
  split_node fresh t = (a, b) -> contents a ++ contents b = contents t.
Proof.
  intros fresh [i l | i k] a b H; inversion H; subst; simpl.
  - apply firstn_skipn.
  - change (kcontents (firstn (Nat.div2 (length k)) k) ++ kcontents (skipn (Nat.div2 (length k)) k)
            = kcontents k).
    rewrite <- kcontents_app, firstn_skipn. reflexivity.
Qed.
Lemma split_node_shape : forall fresh t a b,
  split_node fresh t = (a, b) ->
  tsize a = Nat.div2 (tsize t) /\ tsize b = (tsize t - Nat.div2 (tsize t))%nat /\
  is_leaf a = is_leaf t /\ is_leaf b = is_leaf t /\ tid V a = tid V t /\ tid V b = fresh.
Proof.
  intros fresh [i l | i k] a b H; inversion H; subst; simpl;
    [destruct (halves_length _ l) | destruct (halves_length _ k)]; auto 10.
Qed.

Lemma split_leaf_WF : forall fresh lo hi i l a b,
  WFbody lo hi (Leaf i l) -> (2 <= length l)%nat ->
  split_node fresh (Leaf i l) = (a, b) ->
  WFbody lo (Some (tmin0 b)) a /\ WFbody (Some (tmin0 b)) hi b /\
  tmin b = Some (tmin0 b) /\ Within lo hi (tmin0 b) /\ tmin a = tmin (Leaf i l).
Proof.
  intros fresh lo hi i l a b H Hn Hs. rewrite split_node_Leaf in Hs. inversion Hs; subst. clear Hs.
  apply WFbody_Leaf_inv in H. destruct H as [Hsl Hwl].
  set (l1 := firstn (Nat.div2 (length l)) l) in *.
  set (l2 := skipn (Nat.div2 (length l)) l) in *.
  assert (E : l1 ++ l2 = l) by apply firstn_skipn.
  destruct (halves_nonempty _ l Hn) as [N1 N2]. fold l1 in N1. fold l2 in N2.
  destruct (halves_sorted l Hsl) as [S1 S2]. fold l1 in S1. fold l2 in S2.
  assert (W : kwithin lo hi (l1 ++ l2)) by (rewrite E; assumption).
  apply kwithin_app in W. destruct W as [W1 W2].
  assert (Hsort : ksorted (l1 ++ l2)) by (rewrite E; assumption).
  clearbody l1 l2. destruct l2 as [|[kb vb] r2]; [congruence|].
  destruct (ksorted_app_hd _ _ kb Hsort eq_refl) as [A1 A2].
  change (tmin0 (Leaf fresh ((kb, vb) :: r2))) with kb.
  assert (Wk : Within lo hi kb) by (inversion W2; subst; assumption).
  repeat split.
  - constructor; [assumption | eapply kwithin_cut_hi; eassumption].
  - constructor; [assumption | eapply kwithin_cut_lo; eassumption].
  - apply Wk.
  - apply Wk.
  - change (hdkey l1 = hdkey l). rewrite <- E. symmetry. apply hdkey_app. assumption.
Qed.

Lemma tmin_Node_app : forall i (l1 l2 : list (Z * tree)),
  l1 <> [] -> tmin (Node i (l1 ++ l2)) = tmin (Node i l1).
Proof. intros i [|[s c] l1] l2 H; [congruence | reflexivity]. Qed.

Lemma split_inner_WF : forall fresh lo hi i k a b,
  WFbody lo hi (Node i k) -> (2 <= length k)%nat ->
  split_node fresh (Node i k) = (a, b) ->
  WFbody lo (Some (tmin0 b)) a /\ WFbody (Some (tmin0 b)) hi b /\
  tmin b = Some (tmin0 b) /\ Within lo hi (tmin0 b) /\ tmin a = tmin (Node i k) /\
  depth a = depth (Node i k) /\ depth b = depth (Node i k).
Proof.
  intros fresh lo hi i k a b H Hn Hs. rewrite split_node_Node in Hs. inversion Hs; subst. clear Hs.
  apply WFbody_Node_inv in H. destruct H as (lf & d & H).
  set (l1 := firstn (Nat.div2 (length k)) k) in *.
  set (l2 := skipn (Nat.div2 (length k)) k) in *.
  assert (E : l1 ++ l2 = k) by apply firstn_skipn.
  destruct (halves_nonempty _ k Hn) as [N1 N2]. fold l1 in N1. fold l2 in N2.
  clearbody l1 l2. subst k. destruct l2 as [|[s2 c2] r2]; [congruence|].
  destruct (WFkids_app _ _ _ _ _ _ _ _ _ N1 H) as (Ha & Hb & Ht & Hw).
  assert (E0 : tmin0 (Node fresh ((s2, c2) :: r2)) = s2) by (apply tmin0_Some; exact Ht).
  rewrite E0.
  destruct l1 as [|[s1 c1] r1]; [congruence|].
  repeat split.
  - econstructor. exact Ha.
  - econstructor. exact Hb.
  - exact Ht.
  - apply Hw.
  - apply Hw.
  - rewrite (WFkids_depth _ _ _ _ _ fresh _ _ _ Hb). rewrite <- app_comm_cons in H.
    rewrite <- app_comm_cons. rewrite (WFkids_depth _ _ _ _ _ i _ _ _ H). reflexivity.
Qed.

(* the general statement: both halves are WF (bodies) in adjacent intervals
   meeting at the exact minimum of the right half; sizes are given by
   split_node_shape, contents by split_node_contents *)
Theorem split_node_WF : forall fresh lo hi t a b,
  WFbody lo hi t -> (2 <= tsize t)%nat -> split_node fresh t = (a, b) ->
  WFbody lo (Some (tmin0 b)) a /\ WFbody (Some (tmin0 b)) hi b /\
  tmin b = Some (tmin0 b) /\ Within lo hi (tmin0 b) /\ tmin a = tmin t /\
  depth a = depth t /\ depth b = depth t.
Proof.
  intros fresh lo hi [i l | i k] a b H Hn Hs.
  - destruct (split_leaf_WF _ _ _ _ _ _ _ H Hn Hs) as (H1 & H2 & H3 & H4 & H5).
    rewrite split_node_Leaf in Hs. inversion Hs; subst. auto 10.
  - eapply split_inner_WF; eassumption.
Qed.

(* sizes of the halves for the two situations in which the code splits *)
Lemma split_node_sizes_overflow : forall fresh t a b,
  split_node fresh t = (a, b) -> tsize t = (max_for t + 1)%nat -> (1 <= max_for t)%nat ->
  size_ok a /\ size_ok b.
Proof.
  intros fresh t a b Hs Hn Hm. destruct (split_node_shape _ _ _ _ Hs) as (Ha & Hb & La & Lb & _).
  unfold size_ok. rewrite (max_for_eq _ _ La), (max_for_eq _ _ Lb), Ha, Hb.
  destruct (div2_halves_overflow _ _ Hn Hm). auto.
Qed.
Lemma split_node_sizes_double : forall fresh t a b h,
  split_node fresh t = (a, b) -> tsize t = (2 * h)%nat -> tsize a = h /\ tsize b = h.
Proof.
  intros fresh t a b h Hs Hn. destruct (split_node_shape _ _ _ _ Hs) as (Ha & Hb & _).
  rewrite Ha, Hb. apply div2_halves_double. assumption.
Qed.

(* ================================================================== *)
(* 12. Rebuilding a children list around the head child                *)
(*     (the shapes produced by the inner loops of tset / tdel)         *)
(* ================================================================== *)
(* the bounds handed to the head child of a list *)
Definition lo_of (first : bool) (lo : option Z) (s : Z) : option Z := if first then lo else Some s.
Definition next_hi (hi : option Z) (rest : list (Z * tree)) : option Z :=
  match rest with [] => hi | (s2, _) :: _ => Some s2 end.

Lemma WFkids_inv' : forall lf d first lo hi s c rest,
  WFkids lf d first lo hi ((s, c) :: rest) ->
  (first = true \/ (Within lo hi s /\ tmin c = Some s)) /\
  is_leaf c = lf /\ depth c = d /\ size_ok c /\
  WFbody (lo_of first lo s) (next_hi hi rest) c /\
  WFkids lf d false (lo_of first lo s) hi rest.
Proof. exact WFkids_inv. Qed.
Lemma WFkids_cons' : forall lf d first lo hi s c rest,
  (first = true \/ (Within lo hi s /\ tmin c = Some s)) ->
  is_leaf c = lf -> depth c = d -> size_ok c ->
  WFbody (lo_of first lo s) (next_hi hi rest) c ->
  WFkids lf d false (lo_of first lo s) hi rest ->
  WFkids lf d first lo hi ((s, c) :: rest).
Proof. exact WFK_cons. Qed.
Lemma lo_of_le : forall lf d first lo hi s c rest,
  WFkids lf d first lo hi ((s, c) :: rest) -> lo_le lo (lo_of first lo s).
Proof.
  intros. apply WFkids_inv in H. destruct H as (H1 & _). destruct first; [apply lo_le_refl|].
  destruct H1 as [H1|[[H1 _] _]]; [discriminate|]. apply Above_lo_le. exact H1.
Qed.
Lemma next_hi_le : forall lf d lo hi rest,
  WFkids lf d false lo hi rest -> hi_le (next_hi hi rest) hi.
Proof.
  intros. destruct rest as [|[s2 c2] r]; [apply hi_le_refl|].
  apply WFkids_inv_false in H. destruct H as [[_ Hb] _]. apply Below_hi_le. exact Hb.
Qed.

(* same head child, new tail (skip case of the loops); the upper bound of the
   head child may only grow *)
Lemma WFkids_cons_rest : forall lf d first lo hi s c rest rest',
  WFkids lf d first lo hi ((s, c) :: rest) ->
  WFkids lf d false (lo_of first lo s) hi rest' ->
  hi_le (next_hi hi rest) (next_hi hi rest') ->
  WFkids lf d first lo hi ((s, c) :: rest').
Proof.
  intros. apply WFkids_inv' in H. destruct H as (H2 & H3 & H4 & H5 & H6 & H7).
  apply WFkids_cons'; auto. eapply WFbody_widen; [exact H6 | apply lo_le_refl | assumption].
Qed.
(* new head child in the same slot *)
Lemma WFkids_replace : forall lf d first lo hi s c c' rest,
  WFkids lf d first lo hi ((s, c) :: rest) ->
  is_leaf c' = lf -> depth c' = d -> size_ok c' ->
  WFbody (lo_of first lo s) (next_hi hi rest) c' ->
  (first = false -> tmin c' = Some s) ->
  WFkids lf d first lo hi ((s, c') :: rest).
Proof.
  intros. apply WFkids_inv' in H. destruct H as (H6 & _ & _ & _ & _ & H7).
  apply WFkids_cons'; auto. destruct first; [left; reflexivity|right].
  destruct H6 as [H6|[H6 _]]; [discriminate|]. auto.
Qed.

(* the head child replaced by two children a, b (grow_at after a split) *)
Lemma WFkids_grow : forall lf d first lo hi s c a b sb rest,
  WFkids lf d first lo hi ((s, c) :: rest) ->
  is_leaf a = lf -> is_leaf b = lf -> depth a = d -> depth b = d -> size_ok a -> size_ok b ->
  WFbody (lo_of first lo s) (Some sb) a -> WFbody (Some sb) (next_hi hi rest) b ->
  tmin b = Some sb -> Within (lo_of first lo s) (next_hi hi rest) sb ->
  (first = false -> tmin a = Some s) ->
  WFkids lf d first lo hi ((s, a) :: (sb, b) :: rest).
Proof.
  intros lf d first lo hi s c a b sb rest H La Lb Da Db Sa Sb Wa Wb Tb Ws Ta.
  apply WFkids_inv' in H. destruct H as (H1 & _ & _ & _ & _ & Hr).
  apply WFkids_cons'; auto.
  - destruct first; [left; reflexivity|right].
    destruct H1 as [H1|[H1 _]]; [discriminate|]. auto.
  - apply WFkids_cons'; auto.
    + right. split; [|exact Tb]. eapply Within_widen; [exact Ws | apply lo_le_refl |].
      eapply next_hi_le. exact Hr.
    + eapply WFkids_relo; [exact Hr|]. destruct rest as [|[s2 c2] r]; [exact I|].
      destruct Ws as [_ Ws]. unfold lo_of, next_hi, Above, Below in *. lia.
Qed.
(* the head child removed (it became empty) *)
Lemma WFkids_drop : forall lf d first lo hi s c rest,
  WFkids lf d first lo hi ((s, c) :: rest) -> WFkids lf d first lo hi rest.
Proof.
  intros lf d first lo hi s c rest H. pose proof (lo_of_le _ _ _ _ _ _ _ _ H) as Hlo.
  apply WFkids_inv' in H. destruct H as (_ & _ & _ & _ & _ & Hr).
  destruct rest as [|[s2 c2] r]; [constructor|]. destruct first.
  - simpl in Hr. eapply WFkids_first_widen; [exact Hr|].
    apply WFkids_inv_false in Hr. apply Hr.
  - eapply WFkids_relo; [exact Hr|]. simpl.
    apply WFkids_inv_false in Hr. destruct Hr as [[Ha _] _].
    eapply Above_widen; [exact Ha | exact Hlo].
Qed.
(* the head separator refreshed to the exact minimum of the new head child *)
Lemma WFkids_resep : forall lf d lo hi s s' c' rest,
  is_leaf c' = lf -> depth c' = d -> size_ok c' ->
  WFbody (Some s) (next_hi hi rest) c' -> tmin c' = Some s' -> Above lo s ->
  WFkids lf d false (Some s) hi rest ->
  WFkids lf d false lo hi ((s', c') :: rest).
Proof.
  intros lf d lo hi s s' c' rest Lc Dc Sc Wc Tc Ha Hr.
  pose proof (WFbody_tmin_within _ _ _ _ Wc Tc) as [Hs1 Hs2]. simpl in Hs1.
  apply WFkids_cons'; auto.
  - right. split; [|exact Tc]. split; [eapply Above_trans; eauto|].
    eapply Below_widen; [exact Hs2 | eapply next_hi_le; exact Hr].
  - simpl. rewrite <- (tmin0_Some _ _ Tc). eapply WFbody_relo_tmin; [exact Wc | apply Sc].
  - simpl. eapply WFkids_relo; [exact Hr|]. destruct rest as [|[s2 c2] r]; [exact I|].
    unfold lo_of, next_hi, Above, Below in *. lia.
Qed.
(* a two-children list (split_root) *)
Lemma WFkids_pair : forall lf d lo hi s0 a b sb,
  is_leaf a = lf -> is_leaf b = lf -> depth a = d -> depth b = d -> size_ok a -> size_ok b ->
  WFbody lo (Some sb) a -> WFbody (Some sb) hi b -> tmin b = Some sb -> Within lo hi sb ->
  WFkids lf d true lo hi [(s0, a); (sb, b)].
Proof.
  intros. apply WFkids_cons'; auto. apply WFkids_cons'; auto. constructor.
Qed.
(* a one-child list *)
Lemma WFkids_single : forall lf d lo hi s0 c,
  is_leaf c = lf -> depth c = d -> size_ok c -> WFbody lo hi c ->
  WFkids lf d true lo hi [(s0, c)].
Proof. intros. apply WFkids_cons'; auto. constructor. Qed.

Lemma size_ok_Leaf : forall i l, size_ok (Leaf i l) <-> (1 <= length l <= ml)%nat.
Proof. reflexivity. Qed.
Lemma size_ok_Node : forall i k, size_ok (Node i k) <-> (1 <= length k <= mi)%nat.
Proof. reflexivity. Qed.
Lemma size_ok_WFtop : forall lo hi t,
  size_ok t -> WFbody lo hi t -> WFtop (fun n => (1 <= n <= max_for t)%nat) lo hi t.
Proof. unfold WFtop, size_ok. auto. Qed.
(* the empty trees satisfy WFbody *)
Lemma WFbody_Leaf_nil : forall lo hi i, WFbody lo hi (Leaf i []).
Proof. intros. constructor; [apply ksorted_nil | constructor]. Qed.
Lemma WFbody_Node_nil : forall lo hi i, WFbody lo hi (Node i []).
Proof. intros. apply WFB_node with (lf := true) (d := 0%nat). constructor. Qed.
(* a singleton leaf *)
Lemma WFbody_Leaf_single : forall lo hi i k (v : V),
  Within lo hi k -> WFbody lo hi (Leaf i [(k, v)]).
Proof.
  intros. constructor.
  - apply ksorted_cons. split; [constructor | apply ksorted_nil].
  - constructor; [assumption | constructor].
Qed.
(* --- the whole-container invariant --- *)
Lemma Inv_Node_nil : forall i, Inv V ml mi (Node i []).
Proof. reflexivity. Qed.
Lemma Inv_Node_intro : forall i kids,
  (1 <= length kids < 2 * mi)%nat -> WFbody None None (Node i kids) -> Inv V ml mi (Node i kids).
Proof.
  intros. apply Inv_iff. exists i, kids. split; [reflexivity|right].
  split; [|assumption]. unfold top_size_ok. simpl. lia.
Qed.
Lemma Inv_inv : forall t, Inv V ml mi t ->
  exists i kids, t = Node i kids /\
    (kids = [] \/ ((1 <= length kids < 2 * mi)%nat /\ WFbody None None (Node i kids))).
Proof.
  intros t H. apply Inv_iff in H. destruct H as (i & kids & -> & [H|H]); exists i, kids.
  - auto.
  - split; [reflexivity|right]. destruct H as [[H1 H2] H3]. simpl in *. split; [lia | assumption].
Qed.
Lemma Inv_WFbody : forall t, Inv V ml mi t -> WFbody None None t.
Proof.
  intros t H. apply Inv_inv in H. destruct H as (i & kids & -> & [->|[_ H]]);
    [apply WFbody_Node_nil | exact H].
Qed.
Lemma Inv_sorted : forall t, Inv V ml mi t -> ksorted (contents t).
Proof. intros. eapply WFbody_sorted. apply Inv_WFbody. assumption. Qed.
Lemma Inv_tget : forall t k, Inv V ml mi t -> tget V t k = alookup (contents t) k.
Proof. intros. eapply tget_spec. apply Inv_WFbody. assumption. Qed.

End Base.


(* ================================================================== *)
(* 13. The leaf theorem of C01, at V := Z                              *)
(* ================================================================== *)
Theorem leaf_refines : forall (vsame : bool) (l : list (Z * Z)) (k v : Z) (ifunset : bool),
  StronglySorted Z.lt (map fst l) ->
  (let '(l', st, rv) := lset Z Z.eqb vsame l k v ifunset in
   l' = (if ifunset && Spec.mem l k then l else Spec.insert l k v) /\
   (st = St1 <-> Spec.mem l k = false) /\
   rv = (if ifunset then match Spec.lookup l k with Some x => x | None => v end else v)) /\
  (match ldel Z l k with
   | Some (l', x) => Spec.lookup l k = Some x /\ l' = Spec.remove l k
   | None => Spec.lookup l k = None
   end).
Proof.
  intros vsame l k v iu Hs. change (ksorted l) in Hs.
  unfold Spec.mem.
  change (Spec.lookup l k) with (alookup l k).
  change (Spec.insert l k v) with (ainsert l k v).
  change (Spec.remove l k) with (aremove l k).
  split.
  - rewrite (lset_spec Z Z.eqb vsame l k v iu Hs).
    destruct (alookup l k) as [v'|] eqn:E.
    + destruct iu; simpl.
      * repeat split; intros; discriminate.
      * destruct vsame; simpl.
        -- destruct (Z.eqb_spec v v').
           ++ subst v'. rewrite (ainsert_same Z l k v Hs E).
              repeat split; intros; discriminate.
           ++ repeat split; intros; discriminate.
        -- repeat split; intros; discriminate.
    + rewrite andb_false_r. destruct iu; repeat split; auto.
  - pose proof (ldel_cases Z l k Hs) as H.
    destruct (ldel Z l k) as [[l' x]|]; [tauto | assumption].
Qed.
