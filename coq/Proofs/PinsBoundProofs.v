(* Lookups hand the pin over: while a lookup runs at most two nodes of the container are pinned (the bottom
   interior node and the bucket), a range-end search at most three (the root as well) -- so every other node of
   the tree stays evictable for the whole call, however deep the tree. *)
From Coq Require Import ZArith List Bool Arith Lia.
From BT Require Import Model.RTree Model.Search Model.Pins Proofs.PinsProofs.
Import ListNotations.
Open Scope Z_scope.

Definition bpiece (tr : list pev) (P0 P1 : list nat) (n : nat) : Prop :=
  pins_after tr P0 = P1 /\ Forall (fun o => (length (opins o) <= n)%nat) (observe tr P0).

Lemma bpiece_app a b P0 P1 P2 n : bpiece a P0 P1 n -> bpiece b P1 P2 n -> bpiece (a ++ b) P0 P2 n.
Proof.
  intros [Ha1 Ha2] [Hb1 Hb2]. unfold bpiece. rewrite pins_after_app, observe_app, Ha1, Hb1.
  split; [reflexivity|]. apply Forall_app; split; assumption.
Qed.
Lemma bpiece_nil P n : bpiece [] P P n.  Proof. split; constructor. Qed.
Lemma bpiece_use i P n : bpiece [PUse i] P (i :: P) n.  Proof. split; constructor. Qed.
Lemma bpiece_unuse i P n : bpiece [PUnuse i] (i :: P) P n.
Proof. unfold bpiece. cbn [pins_after fold_left pstep observe]. rewrite remove1_head. split; constructor. Qed.

Lemma cmps_bpiece id ps : forall c P n, (length P <= n)%nat -> bpiece (ptr (cmps id ps c)) P P n.
Proof.
  induction ps as [|x r IH]; intros c P n Hn; [apply bpiece_nil|].
  assert (Hone : bpiece [PCmp id x] P P n) by (split; [reflexivity | constructor; [exact Hn | constructor]]).
  cbn [cmps]. destruct c as [[|m]|].
  - exact Hone.
  - specialize (IH (Some m) P n Hn). destruct (cmps id r (Some m)) as [[e c'] f].
    change (bpiece ([PCmp id x] ++ e) P P n). eapply bpiece_app; [exact Hone | exact IH].
  - specialize (IH None P n Hn). destruct (cmps id r None) as [[e c'] f].
    change (bpiece ([PCmp id x] ++ e) P P n). eapply bpiece_app; [exact Hone | exact IH].
Qed.

Lemma get_loop_bound rest : forall id ps c P, bpiece (ptr (get_loop id ps rest c)) (id :: P) P (length P + 2).
Proof.
  induction rest as [|[id2 ps2] rest2 IH]; intros id ps c P.
  - cbn [get_loop].
    pose proof (cmps_bpiece id ps c (id :: P) (length P + 2)%nat ltac:(cbn; lia)) as H1.
    destruct (cmps id ps c) as [[e1 c1] f1]. cbn [ptr fst] in H1.
    destruct f1; cbn [ptr fst]; (eapply bpiece_app; [exact H1 | apply bpiece_unuse]).
  - pose proof (cmps_bpiece id ps c (id :: P) (length P + 2)%nat ltac:(cbn; lia)) as H1.
    destruct rest2 as [|y rest3].
    + cbn [get_loop]. destruct (cmps id ps c) as [[e1 c1] f1]. cbn [ptr fst] in H1.
      destruct f1; cbn [ptr fst]; [eapply bpiece_app; [exact H1 | apply bpiece_unuse]|].
      pose proof (cmps_bpiece id2 ps2 c1 (id2 :: id :: P) (length P + 2)%nat ltac:(cbn; lia)) as H2.
      destruct (cmps id2 ps2 c1) as [[e2 c2] f2]. cbn [ptr fst] in *.
      eapply bpiece_app; [exact H1|].
      change (bpiece ([PUse id2] ++ e2 ++ [PUnuse id2] ++ [PUnuse id]) (id :: P) P (length P + 2)).
      eapply bpiece_app; [apply bpiece_use|]. eapply bpiece_app; [exact H2|].
      eapply bpiece_app; apply bpiece_unuse.
    + specialize (IH id2 ps2). rewrite get_loop_step.
      destruct (cmps id ps c) as [[e1 c1] f1]. cbn [ptr fst] in H1.
      destruct f1; cbn [ptr fst]; [eapply bpiece_app; [exact H1 | apply bpiece_unuse]|].
      specialize (IH c1 P).
      destruct (get_loop id2 ps2 (y :: rest3) c1) as [[e2 c2] f2]. cbn [ptr fst] in *.
      eapply bpiece_app; [exact H1|].
      change (bpiece ([PUnuse id] ++ [PUse id2] ++ e2) (id :: P) P (length P + 2)).
      eapply bpiece_app; [apply bpiece_unuse|]. eapply bpiece_app; [apply bpiece_use | exact IH].
Qed.

(* a lookup never holds more than two pins of its own *)
Theorem get_pins_bounded p c P :
  Forall (fun o => (length (opins o) <= length P + 2)%nat) (observe (ptr (get_tr p c)) P).
Proof.
  destruct p as [|[id ps] rest]; [constructor|]. destruct rest as [|y rest].
  - cbn [get_tr].
    pose proof (cmps_bpiece id ps c (id :: P) (length P + 2)%nat ltac:(cbn; lia)) as [H1 H2].
    destruct (cmps id ps c) as [[e c'] f]. cbn [ptr fst] in *.
    cbn [observe pstep]. rewrite observe_app. apply Forall_app. split; [exact H2|].
    cbn [observe]. constructor.
  - cbn [get_tr]. pose proof (get_loop_bound (y :: rest) id ps c P) as [_ H].
    destruct (get_loop id ps (y :: rest) c) as [[e c'] f]. cbn [ptr fst] in *.
    cbn [observe pstep]. exact H.
Qed.

Lemma range_loop_bound rest : forall id reb ps c R,
  bpiece (ptr (range_loop id reb ps rest c)) (if reb then id :: R else R) R (length R + 2).
Proof.
  induction rest as [|[id2 ps2] rest2 IH]; intros id reb ps c R.
  - cbn [range_loop].
    assert (H1 : bpiece (ptr (cmps id ps c)) (if reb then id :: R else R) (if reb then id :: R else R) (length R + 2)).
    { apply cmps_bpiece. destruct reb; cbn; lia. }
    destruct (cmps id ps c) as [[e1 c1] f1]. cbn [ptr fst] in H1.
    destruct f1; cbn [ptr fst]; (eapply bpiece_app; [exact H1|]); destruct reb;
      try apply bpiece_unuse; apply bpiece_nil.
  - assert (H1 : bpiece (ptr (cmps id ps c)) (if reb then id :: R else R) (if reb then id :: R else R) (length R + 2)).
    { apply cmps_bpiece. destruct reb; cbn; lia. }
    assert (Hdone : bpiece (if reb then [PUnuse id] else []) (if reb then id :: R else R) R (length R + 2)).
    { destruct reb; [apply bpiece_unuse | apply bpiece_nil]. }
    destruct rest2 as [|y rest3].
    + cbn [range_loop]. destruct (cmps id ps c) as [[e1 c1] f1]. cbn [ptr fst] in H1.
      destruct f1; cbn [ptr fst]; [eapply bpiece_app; [exact H1 | exact Hdone]|].
      assert (H2 : bpiece (ptr (cmps id2 ps2 c1)) (id2 :: (if reb then id :: R else R))
                          (id2 :: (if reb then id :: R else R)) (length R + 2)).
      { apply cmps_bpiece. destruct reb; cbn; lia. }
      destruct (cmps id2 ps2 c1) as [[e2 c2] f2]. cbn [ptr fst] in *.
      eapply bpiece_app; [exact H1|].
      change (bpiece ([PUse id2] ++ e2 ++ [PUnuse id2] ++ (if reb then [PUnuse id] else []))
                     (if reb then id :: R else R) R (length R + 2)).
      eapply bpiece_app; [apply bpiece_use|]. eapply bpiece_app; [exact H2|].
      eapply bpiece_app; [apply bpiece_unuse | exact Hdone].
    + specialize (IH id2 true ps2). rewrite range_loop_step.
      destruct (cmps id ps c) as [[e1 c1] f1]. cbn [ptr fst] in H1.
      destruct f1; cbn [ptr fst]; [eapply bpiece_app; [exact H1 | exact Hdone]|].
      specialize (IH c1 R).
      destruct (range_loop id2 true ps2 (y :: rest3) c1) as [[e2 c2] f2]. cbn [ptr fst] in *.
      eapply bpiece_app; [exact H1|].
      change (bpiece ((if reb then [PUnuse id] else []) ++ [PUse id2] ++ e2) (if reb then id :: R else R) R (length R + 2)).
      eapply bpiece_app; [exact Hdone|]. eapply bpiece_app; [apply bpiece_use | exact IH].
Qed.

(* a range-end search never holds more than three: the root, the current node, the bucket *)
Theorem range_pins_bounded p c P :
  Forall (fun o => (length (opins o) <= length P + 3)%nat) (observe (ptr (range_tr p c)) P).
Proof.
  destruct p as [|[id ps] rest]; [constructor|]. destruct rest as [|y rest].
  - cbn [range_tr].
    pose proof (cmps_bpiece id ps c (id :: P) (length P + 3)%nat ltac:(cbn; lia)) as [H1 H2].
    destruct (cmps id ps c) as [[e c'] f]. cbn [ptr fst] in *.
    cbn [observe pstep]. rewrite observe_app. apply Forall_app. split; [exact H2|].
    cbn [observe]. constructor.
  - cbn [range_tr]. pose proof (range_loop_bound (y :: rest) id false ps c (id :: P)) as [_ H].
    destruct (range_loop id false ps (y :: rest) c) as [[e c'] f]. cbn [ptr fst] in *.
    cbn [observe pstep]. rewrite observe_app. apply Forall_app. split.
    + eapply Forall_impl; [|exact H]. intros o Ho. cbn [length] in Ho. lia.
    + cbn [observe]. constructor.
Qed.
