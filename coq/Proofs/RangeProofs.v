From Coq Require Import ZArith List Bool Arith Lia Sorted.
From BT Require Import Model.RTree Model.TreeSpec Model.Range.
Import ListNotations.
Open Scope Z_scope.

Section RP.
Variable V : Type.
Notation tree := (tree V).
Notation leafseq := (list (list (Z * V))).

Section TreeInd.
Variable P : tree -> Prop.
Hypothesis HL : forall i l, P (Leaf i l).
Hypothesis HN : forall i kids, Forall (fun sc => P (snd sc)) kids -> P (Node i kids).
Fixpoint tree_ind2 (t : tree) : P t :=
  match t with
  | Leaf i l => HL i l
  | Node i kids => HN i kids
      ((fix go (l : list (Z * tree)) : Forall (fun sc => P (snd sc)) l :=
          match l with
          | [] => Forall_nil _
          | (s, c) :: r => Forall_cons (s, c) (tree_ind2 c) (go r)
          end) kids)
  end.
End TreeInd.

Fixpoint wfs_kids (b0 : bool) (hi : option Z) (first : bool) (lo' : option Z) (l : list (Z * tree)) : bool :=
  match l with
  | [] => true
  | (s, c) :: rest =>
    let lo1 := if first then lo' else Some s in
    let hi1 := match rest with [] => hi | (s2, _) :: _ => Some s2 end in
    (first || within lo' hi s) && Bool.eqb (is_leaf V c) b0 &&
    wf_search_node V lo1 hi1 c && wfs_kids b0 hi false lo1 rest
  end.

Lemma wfs_node_eq : forall i kids lo hi,
  wf_search_node V lo hi (Node i kids) =
  negb (length kids =? 0)%nat &&
  match kids with [] => true | (_, c0) :: _ => wfs_kids (is_leaf V c0) hi true lo kids end.
Proof.
  intros i kids lo hi. destruct kids as [|[s0 c0] r]; [reflexivity|].
  cbn [wf_search_node wfs_kids]. f_equal. f_equal.
  match goal with |- ?f false lo r = _ =>
    assert (H: forall l first lo', f first lo' l = wfs_kids (is_leaf V c0) hi first lo' l) end.
  { induction l as [|[s c] rest IH]; intros; [reflexivity|].
    cbn [wfs_kids]. rewrite <- IH. reflexivity. }
  apply H.
Qed.
(* ---------- inv_wf_search ---------- *)
Fixpoint wfn_kids (ml mi : nat) (b0 : bool) (d0 : nat) (hi : option Z) (first : bool)
         (lo' : option Z) (l : list (Z * tree)) : bool :=
  match l with
  | [] => true
  | (s, c) :: rest =>
    let lo1 := if first then lo' else Some s in
    let hi1 := match rest with [] => hi | (s2, _) :: _ => Some s2 end in
    (first || (within lo' hi s && opt_eqb (tmin V c) s)) &&
    Bool.eqb (is_leaf V c) b0 && (depth V c =? d0)%nat &&
    wf_node V ml mi false lo1 hi1 c && wfn_kids ml mi b0 d0 hi false lo1 rest
  end.

Lemma wfn_node_eq : forall ml mi root i kids lo hi,
  wf_node V ml mi root lo hi (Node i kids) =
  negb (length kids =? 0)%nat &&
  (if root then (length kids <? 2 * mi)%nat else (length kids <=? mi)%nat) &&
  match kids with [] => true
  | (_, c0) :: _ => wfn_kids ml mi (is_leaf V c0) (depth V c0) hi true lo kids end.
Proof.
  intros ml mi root i kids lo hi. destruct kids as [|[s0 c0] r]; [reflexivity|].
  cbn [wf_node wfn_kids]. f_equal. f_equal.
  match goal with |- ?f false lo r = _ =>
    assert (H: forall l first lo', f first lo' l =
              wfn_kids ml mi (is_leaf V c0) (depth V c0) hi first lo' l) end.
  { induction l as [|[s c] rest IH]; intros; [reflexivity|].
    cbn [wfn_kids]. rewrite <- IH. reflexivity. }
  apply H.
Qed.

Lemma wfn_kids_search : forall ml mi b0 d0 hi l,
  Forall (fun sc : Z * tree => forall root lo hi,
            wf_node V ml mi root lo hi (snd sc) = true ->
            wf_search_node V lo hi (snd sc) = true) l ->
  forall lo' first, wfn_kids ml mi b0 d0 hi first lo' l = true ->
  wfs_kids b0 hi first lo' l = true.
Proof.
  intros ml mi b0 d0 hi.
  induction l as [|[s c] rest IHl]; intros IH lo' first H; [reflexivity|].
  inversion IH; subst. cbn [wfn_kids] in H. cbn [wfs_kids].
  repeat (apply andb_true_iff in H; destruct H as [H ?]).
  repeat (apply andb_true_iff; split); eauto.
  destruct first; [reflexivity|]. cbn in *. apply andb_true_iff in H. tauto.
Qed.

Lemma wf_node_search : forall ml mi t root lo hi,
  wf_node V ml mi root lo hi t = true -> wf_search_node V lo hi t = true.
Proof.
  intros ml mi t. induction t as [i l|i kids IH] using tree_ind2; intros root lo hi H.
  - cbn in *. repeat (apply andb_true_iff in H; destruct H as [H ?]).
    repeat (apply andb_true_iff; split); auto.
  - rewrite wfn_node_eq in H. rewrite wfs_node_eq.
    apply andb_true_iff in H. destruct H as [H H2].
    apply andb_true_iff in H. destruct H as [H H1].
    apply andb_true_iff; split; [exact H|].
    destruct kids as [|[s0 c0] r]; [reflexivity|].
    eapply wfn_kids_search; eauto.
Qed.

Lemma inv_wf_search : forall ml mi t, Inv V ml mi t -> wf_search V t = true.
Proof.
  intros ml mi t H. unfold Inv, wfb in H. unfold wf_search.
  destruct t as [|i [|k r]]; auto. eapply wf_node_search; eauto.
Qed.

(* ---------- sorted association lists ---------- *)
Definition klt (a b : Z * V) : Prop := fst a < fst b.
Definition ssorted (m : list (Z * V)) : Prop := StronglySorted klt m.

Lemma ss_nil : ssorted [].
Proof. constructor. Qed.

Lemma ss_cons_inv : forall x m, ssorted (x :: m) ->
  ssorted m /\ forall y, In y m -> fst x < fst y.
Proof.
  intros x m H. inversion H; subst. split; auto.
  intros y Hy. rewrite Forall_forall in H3. apply H3; auto.
Qed.

Lemma ss_cons : forall x m, ssorted m -> (forall y, In y m -> fst x < fst y) -> ssorted (x :: m).
Proof. intros x m H1 H2. constructor; auto. apply Forall_forall. exact H2. Qed.

Lemma ss_app : forall a b, ssorted (a ++ b) <->
  ssorted a /\ ssorted b /\ (forall x y, In x a -> In y b -> fst x < fst y).
Proof.
  induction a as [|x a IH]; intros b; simpl.
  - split; [intros H; repeat split; auto using ss_nil; intros ? ? []|tauto].
  - split.
    + intros H. apply ss_cons_inv in H. destruct H as [H1 H2].
      apply IH in H1. destruct H1 as [Ha [Hb Hab]].
      split; [|split]; auto.
      * apply ss_cons; auto. intros y Hy. apply H2. apply in_or_app; auto.
      * intros u v [->|Hu] Hv; [apply H2; apply in_or_app; auto|auto].
    + intros [Ha [Hb Hab]]. apply ss_cons_inv in Ha. destruct Ha as [Ha Hx].
      apply ss_cons.
      * apply IH. repeat split; auto.
      * intros y Hy. apply in_app_or in Hy. destruct Hy; auto.
Qed.

Lemma ss_of_bool : forall l, strictly_sorted_b (map fst l) = true -> ssorted l.
Proof.
  induction l as [|x l IH]; intros H; [apply ss_nil|].
  destruct l as [|y l'].
  - apply ss_cons; [apply ss_nil|intros ? []].
  - cbn in H. apply andb_true_iff in H. destruct H as [Hxy H].
    apply Z.ltb_lt in Hxy. specialize (IH H).
    apply ss_cons; auto. intros z [<-|Hz]; auto.
    apply ss_cons_inv in IH. destruct IH as [_ IH]. specialize (IH z Hz). lia.
Qed.

Lemma ss_firstn : forall n m, ssorted m -> ssorted (firstn n m).
Proof. intros n m H. rewrite <- (firstn_skipn n m) in H. apply ss_app in H. tauto. Qed.
Lemma ss_skipn : forall n m, ssorted m -> ssorted (skipn n m).
Proof. intros n m H. rewrite <- (firstn_skipn n m) in H. apply ss_app in H. tauto. Qed.

Lemma ss_filter : forall f m, ssorted m -> ssorted (filter f m).
Proof.
  induction m as [|x m IH]; intros H; simpl; auto.
  apply ss_cons_inv in H. destruct H as [H1 H2].
  destruct (f x); auto. apply ss_cons; auto.
  intros y Hy. apply filter_In in Hy. apply H2. tauto.
Qed.

Lemma ss_nth_lt : forall m i j x y, ssorted m ->
  nth_error m i = Some x -> nth_error m j = Some y -> (i < j)%nat -> fst x < fst y.
Proof.
  induction m as [|a m IH]; intros i j x y H Hi Hj Hlt.
  - destruct i; discriminate.
  - apply ss_cons_inv in H. destruct H as [H1 H2].
    destruct j as [|j]; [lia|]. simpl in Hj.
    destruct i as [|i]; simpl in Hi.
    + inversion Hi; subst. apply H2. eapply nth_error_In; eauto.
    + eapply IH; eauto. lia.
Qed.

Lemma ss_nth_le : forall m i j x y, ssorted m ->
  nth_error m i = Some x -> nth_error m j = Some y -> (i <= j)%nat -> fst x <= fst y.
Proof.
  intros m i j x y H Hi Hj Hle.
  destruct (Nat.eq_dec i j) as [->|Hn].
  - rewrite Hi in Hj. inversion Hj. lia.
  - assert (fst x < fst y) by (eapply ss_nth_lt; eauto; lia). lia.
Qed.

Lemma ss_nth_lt_inv : forall m i j x y, ssorted m ->
  nth_error m i = Some x -> nth_error m j = Some y -> fst x < fst y -> (i < j)%nat.
Proof.
  intros m i j x y H Hi Hj Hlt.
  destruct (le_lt_dec j i) as [Hle|]; auto.
  assert (fst y <= fst x) by (eapply ss_nth_le; eauto). lia.
Qed.

Lemma ss_nth_le_inv : forall m i j x y, ssorted m ->
  nth_error m i = Some x -> nth_error m j = Some y -> fst x <= fst y -> (i <= j)%nat.
Proof.
  intros m i j x y H Hi Hj Hlt.
  destruct (le_lt_dec i j) as [Hle|Hgt]; auto.
  assert (fst y < fst x) by (eapply ss_nth_lt; eauto). lia.
Qed.

Lemma ss_eq : forall a b, ssorted a -> ssorted b -> (forall x, In x a <-> In x b) -> a = b.
Proof.
  induction a as [|x a IH]; intros b Ha Hb Hab.
  - destruct b as [|y b]; auto. exfalso. apply (Hab y). left; auto.
  - destruct b as [|y b]. { exfalso. apply (Hab x). left; auto. }
    apply ss_cons_inv in Ha. destruct Ha as [Ha Hx].
    apply ss_cons_inv in Hb. destruct Hb as [Hb Hy].
    assert (x = y).
    { destruct (proj1 (Hab x) (or_introl eq_refl)) as [->|Hxb]; auto.
      destruct (proj2 (Hab y) (or_introl eq_refl)) as [->|Hya]; auto.
      specialize (Hx _ Hya). specialize (Hy _ Hxb). lia. }
    subst y. f_equal. apply IH; auto.
    intros z. split; intros Hz.
    + destruct (proj1 (Hab z) (or_intror Hz)) as [->|]; auto.
      specialize (Hx _ Hz). lia.
    + destruct (proj2 (Hab z) (or_intror Hz)) as [->|]; auto.
      specialize (Hy _ Hz). lia.
Qed.

(* ---------- the reference on sorted lists ---------- *)
Lemma in_tl_ss : forall m x, ssorted m ->
  (In x (tl m) <-> In x m /\ exists y, In y m /\ fst y < fst x).
Proof.
  intros [|h r] x H; simpl; [tauto|].
  apply ss_cons_inv in H. destruct H as [_ H]. split.
  - intros Hx. split; auto. exists h. split; auto.
  - intros [[->|Hx] [y [[->|Hy] Hlt]]]; auto; try lia.
    specialize (H _ Hy). lia.
Qed.

Lemma in_removelast_ss : forall m x, ssorted m ->
  (In x (removelast m) <-> In x m /\ exists y, In y m /\ fst x < fst y).
Proof.
  intros m x H. destruct m as [|h r] using rev_ind; simpl; [tauto|]. clear IHr.
  rewrite removelast_last. apply ss_app in H. destruct H as [_ [_ H]].
  split.
  - intros Hx. split; [apply in_or_app; auto|]. exists h. split.
    + apply in_or_app; right; left; auto.
    + apply H; simpl; auto.
  - intros [Hx [y [Hy Hlt]]]. apply in_app_or in Hx. destruct Hx as [Hx|[->|[]]]; auto.
    apply in_app_or in Hy. destruct Hy as [Hy|[->|[]]]; [|lia].
    specialize (H y x Hy (or_introl eq_refl)). lia.
Qed.

Lemma ss_tl : forall m, ssorted m -> ssorted (tl m).
Proof. intros m H. replace (tl m) with (skipn 1 m) by (destruct m; reflexivity). apply ss_skipn; auto. Qed.

Lemma ss_removelast : forall m, ssorted m -> ssorted (removelast m).
Proof.
  intros m H. destruct m as [|h r] using rev_ind; auto.
  rewrite removelast_last. apply ss_app in H. tauto.
Qed.

Definition Lpred (m : list (Z * V)) (lo : option Z) (exlo : bool) (kx : Z) : Prop :=
  match lo with
  | Some a => if exlo then a < kx else a <= kx
  | None => if exlo then exists y, In y m /\ fst y < kx else True
  end.
Definition Hpred (m : list (Z * V)) (hi : option Z) (exhi : bool) (kx : Z) : Prop :=
  match hi with
  | Some b => if exhi then kx < b else kx <= b
  | None => if exhi then exists y, In y m /\ kx < fst y else True
  end.

Lemma Lpred_up : forall m lo exlo a b, Lpred m lo exlo a -> a <= b -> Lpred m lo exlo b.
Proof.
  intros m [a0|] [|] a b; simpl; auto; try lia.
  intros [y [Hy Hlt]] Hab. exists y. split; auto. lia.
Qed.
Lemma Hpred_down : forall m hi exhi a b, Hpred m hi exhi b -> a <= b -> Hpred m hi exhi a.
Proof.
  intros m [a0|] [|] a b; simpl; auto; try lia.
  intros [y [Hy Hlt]] Hab. exists y. split; auto. lia.
Qed.

Lemma range_sorted : forall m lo hi exlo exhi, ssorted m ->
  ssorted (RSpec.range m lo hi exlo exhi).
Proof.
  intros m lo hi exlo exhi H. unfold RSpec.range, RSpec.drop_last.
  apply ss_filter.
  destruct lo, hi, exlo, exhi; auto using ss_tl, ss_removelast.
Qed.

Lemma range_in : forall m lo hi exlo exhi x, ssorted m ->
  (In x (RSpec.range m lo hi exlo exhi) <->
   In x m /\ Lpred m lo exlo (fst x) /\ Hpred m hi exhi (fst x)).
Proof.
  intros m lo hi exlo exhi x H. unfold RSpec.range, RSpec.drop_last.
  rewrite filter_In.
  assert (Htl := in_tl_ss m x H).
  assert (Hrl := in_removelast_ss m x H).
  assert (Hrt := in_removelast_ss (tl m) x (ss_tl _ H)).
  destruct lo as [a|], hi as [b|], exlo, exhi; simpl;
    rewrite ?andb_true_iff, ?Z.ltb_lt, ?Z.leb_le; try tauto.
  - (* None None true true *)
    rewrite Hrt, Htl. split.
    + intros [[[Hx Hl] [y [Hy Hlt]]] _]. repeat split; auto.
      exists y. split; auto. apply in_tl_ss in Hy; tauto.
    + intros [Hx [Hl [y [Hy Hlt]]]]. repeat split; auto.
      exists y. split; auto. apply in_tl_ss; auto. split; auto.
      exists x. auto.
Qed.

(* ---------- min_key / max_key semantically ---------- *)
Definition hdkey (m : list (Z * V)) : option Z := match m with [] => None | (k, _) :: _ => Some k end.
Definition lastkey (m : list (Z * V)) : option Z := hdkey (rev m).

Lemma lastkey_last : forall a z, lastkey (a ++ [z]) = Some (fst z).
Proof. intros a [k v]. unfold lastkey. rewrite rev_app_distr. reflexivity. Qed.

Lemma hdkey_min : forall f e, ssorted f -> In e f -> (forall y, In y f -> fst e <= fst y) ->
  hdkey f = Some (fst e).
Proof.
  intros [|[k v] r] e H He Hmin; [destruct He|]. simpl.
  apply ss_cons_inv in H. destruct H as [_ H].
  destruct He as [<-|He]; auto.
  specialize (H _ He). specialize (Hmin (k, v) (or_introl eq_refl)). simpl in *. lia.
Qed.

Lemma lastkey_max : forall f e, ssorted f -> In e f -> (forall y, In y f -> fst y <= fst e) ->
  lastkey f = Some (fst e).
Proof.
  intros f e H He Hmax. destruct f as [|z r] using rev_ind; [destruct He|]. clear IHr.
  rewrite lastkey_last. apply ss_app in H. destruct H as [_ [_ H]].
  apply in_app_or in He. destruct He as [He|[->|[]]]; auto.
  specialize (H e z He (or_introl eq_refl)).
  assert (In z (r ++ [z])) by (apply in_or_app; right; left; auto).
  specialize (Hmax z H0). lia.
Qed.

Lemma filter_nil : forall (f : Z * V -> bool) m, (forall y, In y m -> f y = false) -> filter f m = [].
Proof.
  induction m as [|x m IH]; intros H; simpl; auto.
  rewrite (H x (or_introl eq_refl)). apply IH. intros; apply H; right; auto.
Qed.

Lemma min_key_some : forall m x e, ssorted m -> In e m -> x <= fst e ->
  (forall y, In y m -> x <= fst y -> fst e <= fst y) ->
  RSpec.min_key m (Some x) = Some (fst e).
Proof.
  intros m x e H He Hx Hmin.
  change (hdkey (filter (fun kv : Z * V => x <=? fst kv) m) = Some (fst e)).
  apply hdkey_min.
  - apply ss_filter; auto.
  - apply filter_In. split; auto. apply Z.leb_le; auto.
  - intros y Hy. apply filter_In in Hy. destruct Hy as [Hy Hle]. apply Z.leb_le in Hle. auto.
Qed.

Lemma min_key_none : forall m x, (forall y, In y m -> fst y < x) -> @RSpec.min_key V m (Some x) = None.
Proof.
  intros m x H. unfold RSpec.min_key. rewrite filter_nil; auto.
  intros y Hy. apply Z.leb_gt. auto.
Qed.

Lemma max_key_some : forall m x e, ssorted m -> In e m -> fst e <= x ->
  (forall y, In y m -> fst y <= x -> fst y <= fst e) ->
  RSpec.max_key m (Some x) = Some (fst e).
Proof.
  intros m x e H He Hx Hmax.
  change (lastkey (filter (fun kv : Z * V => fst kv <=? x) m) = Some (fst e)).
  apply lastkey_max.
  - apply ss_filter; auto.
  - apply filter_In. split; auto. apply Z.leb_le; auto.
  - intros y Hy. apply filter_In in Hy. destruct Hy as [Hy Hle]. apply Z.leb_le in Hle. auto.
Qed.

Lemma max_key_none : forall m x, (forall y, In y m -> x < fst y) -> @RSpec.max_key V m (Some x) = None.
Proof.
  intros m x H. unfold RSpec.max_key. rewrite filter_nil; auto.
  intros y Hy. apply Z.leb_gt. auto.
Qed.

(* ---------- structure of well-formed trees ---------- *)
Notation wfs := (wf_search_node V).

Inductive kidsP (hi : option Z) : option Z -> list (Z * tree) -> Prop :=
| kp_one lo s c : wfs lo hi c = true -> kidsP hi lo [(s, c)]
| kp_cons lo s c s2 c2 rest :
    wfs lo (Some s2) c = true -> within lo hi s2 = true ->
    kidsP hi (Some s2) ((s2, c2) :: rest) ->
    kidsP hi lo ((s, c) :: (s2, c2) :: rest).

Lemma wfs_kids_cons : forall b0 hi first lo' s c rest,
  wfs_kids b0 hi first lo' ((s, c) :: rest) =
  (first || within lo' hi s) && Bool.eqb (is_leaf V c) b0 &&
  wfs (if first then lo' else Some s) (match rest with [] => hi | (s2, _) :: _ => Some s2 end) c &&
  wfs_kids b0 hi false (if first then lo' else Some s) rest.
Proof. reflexivity. Qed.

Lemma wfs_kids_P : forall b0 hi rest s c first lo',
  wfs_kids b0 hi first lo' ((s, c) :: rest) = true ->
  kidsP hi (if first then lo' else Some s) ((s, c) :: rest).
Proof.
  induction rest as [|[s2 c2] rest IH]; intros s c first lo' H; rewrite wfs_kids_cons in H;
    repeat (apply andb_true_iff in H; destruct H as [H ?]).
  - apply kp_one; auto.
  - apply kp_cons; auto.
    + rewrite wfs_kids_cons in H0. do 3 (apply andb_true_iff in H0; destruct H0 as [H0 ?]).
      exact H0.
    + apply (IH s2 c2 false _ H0).
Qed.

Lemma wfs_node_P : forall i kids lo hi, wfs lo hi (Node i kids) = true ->
  kids <> [] /\ kidsP hi lo kids.
Proof.
  intros i kids lo hi H. rewrite wfs_node_eq in H.
  destruct kids as [|[s0 c0] r]; [discriminate|]. simpl in H.
  split; [discriminate|]. apply (wfs_kids_P _ _ _ _ _ true lo H).
Qed.

Lemma within_iff : forall lo hi k, within lo hi k = true <->
  (match lo with Some a => a <= k | None => True end) /\
  (match hi with Some b => k < b | None => True end).
Proof.
  intros [a|] [b|] k; unfold within, above, below;
    rewrite ?andb_true_iff, ?Z.leb_le, ?Z.ltb_lt; tauto.
Qed.

Lemma within_l : forall lo hi s2 k, within lo hi s2 = true ->
  within lo (Some s2) k = true -> within lo hi k = true.
Proof. intros lo hi s2 k. rewrite !within_iff. destruct lo, hi; intros; split; try tauto; lia. Qed.
Lemma within_r : forall lo hi s2 k, within lo hi s2 = true ->
  within (Some s2) hi k = true -> within lo hi k = true.
Proof. intros lo hi s2 k. rewrite !within_iff. destruct lo, hi; intros; split; try tauto; lia. Qed.
Lemma within_lt : forall lo s2 k, within lo (Some s2) k = true -> k < s2.
Proof. intros lo s2 k. rewrite within_iff. tauto. Qed.
Lemma within_ge : forall hi s2 k, within (Some s2) hi k = true -> s2 <= k.
Proof. intros hi s2 k. rewrite within_iff. tauto. Qed.

Lemma lseq_node : forall i kids, lseq V (Node i kids) = flat_map (fun sc => lseq V (snd sc)) kids.
Proof.
  intros i kids. unfold lseq. cbn [leaves].
  induction kids as [|[s c] r IH]; simpl; auto. rewrite map_app, IH. reflexivity.
Qed.

Lemma concat_lseq : forall t, concat (lseq V t) = contents V t.
Proof.
  induction t as [i l|i kids IH] using tree_ind2.
  - unfold lseq. simpl. apply app_nil_r.
  - rewrite lseq_node. cbn [contents].
    induction IH as [|[s c] r Hc _ IHr]; simpl; auto.
    rewrite concat_app, IHr. simpl in Hc. rewrite Hc. reflexivity.
Qed.

Lemma length_lseq : forall t, length (lseq V t) = nleaves V t.
Proof.
  induction t as [i l|i kids IH] using tree_ind2; [reflexivity|].
  rewrite lseq_node. cbn [nleaves].
  induction IH as [|[s c] r Hc _ IHr]; simpl; auto.
  rewrite app_length, IHr. simpl in Hc. rewrite Hc. reflexivity.
Qed.

Definition NE (ls : leafseq) : Prop := Forall (fun l => l <> []) ls.

Definition WF (lo hi : option Z) (t : tree) : Prop :=
  (forall x, In x (contents V t) -> within lo hi (fst x) = true) /\
  ssorted (contents V t) /\ NE (lseq V t) /\ contents V t <> [] /\
  tmin V t = hdkey (contents V t).

Definition WFk (lo hi : option Z) (l : list (Z * tree)) : Prop :=
  (forall x, In x (flat_map (fun sc => contents V (snd sc)) l) -> within lo hi (fst x) = true) /\
  ssorted (flat_map (fun sc => contents V (snd sc)) l) /\
  NE (flat_map (fun sc => lseq V (snd sc)) l) /\
  flat_map (fun sc => contents V (snd sc)) l <> [] /\
  match l with [] => True
  | (_, c) :: _ => tmin V c = hdkey (flat_map (fun sc => contents V (snd sc)) l) end.

Lemma hdkey_app : forall a b, a <> [] -> hdkey (a ++ b) = hdkey a.
Proof. intros [|x a] b H; [congruence|reflexivity]. Qed.

Lemma kids_facts : forall hi lo l, kidsP hi lo l ->
  Forall (fun sc : Z * tree => forall lo hi, wfs lo hi (snd sc) = true -> WF lo hi (snd sc)) l ->
  WFk lo hi l.
Proof.
  intros hi lo l HP. induction HP as [lo s c Hc|lo s c s2 c2 rest Hc Hs2 HP IH]; intros HF.
  - inversion HF as [|? ? Hh _]; subst. destruct (Hh _ _ Hc) as [H1 [H2 [H3 [H4 H5]]]].
    unfold WFk. simpl. rewrite !app_nil_r. repeat split; auto.
  - inversion HF as [|? ? Hh Ht]; subst. destruct (Hh _ _ Hc) as [H1 [H2 [H3 [H4 H5]]]].
    destruct (IH Ht) as [K1 [K2 [K3 [K4 K5]]]]. clear IH Hh Ht HF.
    unfold WFk.
    change (flat_map (fun sc : Z * tree => contents V (snd sc)) ((s, c) :: (s2, c2) :: rest))
      with (contents V c ++ flat_map (fun sc : Z * tree => contents V (snd sc)) ((s2, c2) :: rest)).
    change (flat_map (fun sc : Z * tree => lseq V (snd sc)) ((s, c) :: (s2, c2) :: rest))
      with (lseq V c ++ flat_map (fun sc : Z * tree => lseq V (snd sc)) ((s2, c2) :: rest)).
    split; [|split; [|split; [|split]]].
    + intros x Hx. apply in_app_or in Hx. destruct Hx as [Hx|Hx].
      * eapply within_l; eauto.
      * eapply within_r; eauto.
    + apply ss_app. repeat split; auto. intros x y Hx Hy.
      apply H1 in Hx. apply K1 in Hy. apply within_lt in Hx. apply within_ge in Hy. lia.
    + apply Forall_app. split; auto.
    + intros E. apply app_eq_nil in E. tauto.
    + rewrite hdkey_app; auto.
Qed.

Lemma wf_facts : forall t lo hi, wfs lo hi t = true -> WF lo hi t.
Proof.
  induction t as [i l|i kids IH] using tree_ind2; intros lo hi H.
  - cbn in H. repeat (apply andb_true_iff in H; destruct H as [H ?]).
    unfold WF. cbn [contents tmin]. repeat split.
    + intros x Hx. rewrite forallb_forall in H0. apply H0. apply in_map; auto.
    + apply ss_of_bool; auto.
    + constructor; [|constructor]. simpl. intros E. subst l. discriminate.
    + intros E. subst l. discriminate.
  - apply wfs_node_P in H. destruct H as [Hne HP].
    destruct (kids_facts _ _ _ HP IH) as [K1 [K2 [K3 [K4 K5]]]].
    unfold WF. rewrite lseq_node. cbn [contents tmin]. repeat split; auto.
    destruct kids as [|[s c] r]; [congruence|]. exact K5.
Qed.

(* ---------- the descent ---------- *)
Fixpoint fl_kids (k : Z) (l : list (Z * tree)) : nat :=
  match l with
  | [] => O
  | (_, c) :: rest => if chosen V k rest then find_leaf V c k else (nleaves V c + fl_kids k rest)%nat
  end.

Lemma find_leaf_node : forall i kids k, find_leaf V (Node i kids) k = fl_kids k kids.
Proof.
  intros i kids k. cbn [find_leaf].
  induction kids as [|[s c] r IH]; [reflexivity|]. cbn [fl_kids]. rewrite <- IH. reflexivity.
Qed.

Definition FL (ls : leafseq) (k : Z) (j : nat) : Prop :=
  exists A l R, ls = A ++ l :: R /\ length A = j /\
    (forall x, In x (concat A) -> fst x < k) /\ (forall x, In x (concat R) -> k < fst x).

Lemma concat_flat_lseq : forall l : list (Z * tree),
  concat (flat_map (fun sc => lseq V (snd sc)) l) = flat_map (fun sc => contents V (snd sc)) l.
Proof.
  induction l as [|[s c] r IH]; simpl; auto. rewrite concat_app, IH, concat_lseq. reflexivity.
Qed.

Lemma kids_facts' : forall hi lo l, kidsP hi lo l -> WFk lo hi l.
Proof.
  intros hi lo l H. apply kids_facts; auto. apply Forall_forall. intros sc _ lo' hi'. apply wf_facts.
Qed.

Lemma fl_kids_FL : forall hi lo l, kidsP hi lo l ->
  Forall (fun sc : Z * tree => forall lo hi, wfs lo hi (snd sc) = true ->
            forall k, FL (lseq V (snd sc)) k (find_leaf V (snd sc) k)) l ->
  forall k, FL (flat_map (fun sc => lseq V (snd sc)) l) k (fl_kids k l).
Proof.
  intros hi lo l HP. induction HP as [lo s c Hc|lo s c s2 c2 rest Hc Hs2 HP IH]; intros HF k.
  - inversion HF as [|? ? Hh _]; subst. simpl in *. rewrite app_nil_r. apply (Hh _ _ Hc).
  - inversion HF as [|? ? Hh Ht]; subst. simpl in Hh.
    change (flat_map (fun sc : Z * tree => lseq V (snd sc)) ((s, c) :: (s2, c2) :: rest))
      with (lseq V c ++ flat_map (fun sc : Z * tree => lseq V (snd sc)) ((s2, c2) :: rest)).
    cbn [fl_kids chosen].
    destruct (kids_facts' _ _ _ HP) as [K1 _].
    destruct (wf_facts _ _ _ Hc) as [C1 _].
    destruct (k <? s2) eqn:E.
    + apply Z.ltb_lt in E. destruct (Hh _ _ Hc k) as [A [l [R [E1 [E2 [E3 E4]]]]]].
      exists A, l, (R ++ flat_map (fun sc : Z * tree => lseq V (snd sc)) ((s2, c2) :: rest)).
      repeat split; auto.
      * rewrite E1. rewrite <- app_assoc. reflexivity.
      * intros x Hx. rewrite concat_app in Hx. apply in_app_or in Hx. destruct Hx as [Hx|Hx]; auto.
        rewrite concat_flat_lseq in Hx. apply K1 in Hx. apply within_ge in Hx. lia.
    + apply Z.ltb_ge in E. destruct (IH Ht k) as [A [l [R [E1 [E2 [E3 E4]]]]]].
      exists (lseq V c ++ A), l, R. repeat split; auto.
      * rewrite E1. rewrite <- app_assoc. reflexivity.
      * rewrite app_length, E2, length_lseq. reflexivity.
      * intros x Hx. rewrite concat_app in Hx. apply in_app_or in Hx. destruct Hx as [Hx|Hx]; auto.
        rewrite concat_lseq in Hx. apply C1 in Hx. apply within_lt in Hx. lia.
Qed.

Lemma find_leaf_FL : forall t lo hi, wfs lo hi t = true ->
  forall k, FL (lseq V t) k (find_leaf V t k).
Proof.
  induction t as [i l|i kids IH] using tree_ind2; intros lo hi H k.
  - exists [], l, []. repeat split; auto; intros x [].
  - apply wfs_node_P in H. destruct H as [_ HP].
    rewrite lseq_node, find_leaf_node. eapply fl_kids_FL; eauto.
Qed.

(* ---------- BUCKET_SEARCH ---------- *)
Lemma bsearch_spec : forall l k i eq, ssorted l -> bsearch V l k = (i, eq) ->
  (i <= length l)%nat /\
  (forall p x, nth_error l p = Some x -> ((p < i)%nat <-> fst x < k)) /\
  (eq = true -> exists x, nth_error l i = Some x /\ fst x = k) /\
  (eq = false -> forall x, In x l -> fst x <> k).
Proof.
  induction l as [|[k' v] r IH]; intros k i eq Hs Hb; simpl in Hb.
  - inversion Hb; subst. repeat split; auto; try discriminate.
    + destruct p; discriminate.
    + destruct p; discriminate.
  - apply ss_cons_inv in Hs. destruct Hs as [Hs Hlt]. simpl in Hlt.
    destruct (Z.compare_spec k k') as [E|E|E].
    + inversion Hb; subst. repeat split; try lia; try discriminate.
      * intros Hk. destruct p as [|p]; simpl in H; [inversion H; subst; simpl in *; lia|].
        apply nth_error_In in H. apply Hlt in H. lia.
      * intros _. exists (k', v). auto.
    + inversion Hb; subst. repeat split; try lia; try discriminate.
      * intros Hk. destruct p as [|p]; simpl in H; [inversion H; subst; simpl in *; lia|].
        apply nth_error_In in H. apply Hlt in H. lia.
      * intros _ x [<-|Hx]; simpl; [lia|]. apply Hlt in Hx. lia.
    + destruct (bsearch V r k) as [i' e'] eqn:Eb. inversion Hb; subst.
      destruct (IH k i' eq Hs Eb) as [I1 [I2 [I3 I4]]].
      split; [simpl; lia|]. split; [|split].
      * intros p x Hp. destruct p as [|p]; simpl in Hp.
        -- inversion Hp; subst. simpl. split; intros; lia.
        -- rewrite <- (I2 p x Hp). split; intros; lia.
      * intros He. destruct (I3 He) as [x [Hx1 Hx2]]. exists x. auto.
      * intros He x [<-|Hx]; simpl; [lia|]. apply I4; auto.
Qed.

(* with eq = true, position i holds k: finer comparison *)
Lemma bsearch_pos : forall l k i eq, ssorted l -> bsearch V l k = (i, eq) ->
  forall p x, nth_error l p = Some x ->
  ((p < i)%nat <-> fst x < k) /\
  (eq = true -> ((p = i) <-> fst x = k) /\ ((i < p)%nat <-> k < fst x)) /\
  (eq = false -> ((i <= p)%nat <-> k < fst x)).
Proof.
  intros l k i eq Hs Hb p x Hp.
  destruct (bsearch_spec _ _ _ _ Hs Hb) as [B1 [B2 [B3 B4]]].
  pose proof (B2 p x Hp) as Hlt. split; auto. split.
  - intros He. destruct (B3 He) as [xi [Hi Hk]].
    assert (A1: (p = i) <-> fst x = k).
    { split; intros E.
      - subst p. rewrite Hp in Hi. inversion Hi; subst; auto.
      - destruct (Nat.lt_trichotomy p i) as [C|[C|C]]; auto.
        + apply Hlt in C. lia.
        + pose proof (ss_nth_lt _ _ _ _ _ Hs Hi Hp C). lia. }
    split; auto. split; intros C.
    + pose proof (ss_nth_lt _ _ _ _ _ Hs Hi Hp C). lia.
    + destruct (Nat.lt_trichotomy p i) as [C'|[C'|C']]; auto.
      * apply Hlt in C'. lia.
      * apply A1 in C'. lia.
  - intros He. pose proof (B4 He x (nth_error_In _ _ Hp)). split; intros C.
    + assert (~ fst x < k) by (rewrite <- Hlt; lia). lia.
    + assert (~ (p < i)%nat) by (rewrite Hlt; lia). lia.
Qed.

(* ---------- Bucket_findRangeEnd ---------- *)
Definition Lk (k : Z) (excl : bool) (kx : Z) : Prop := if excl then k < kx else k <= kx.
Definition Hk (k : Z) (excl : bool) (kx : Z) : Prop := if excl then kx < k else kx <= k.

Ltac bp_use BP p x Hp :=
  let P1 := fresh "P1" in let P2 := fresh "P2" in let P3 := fresh "P3" in
  destruct (BP p x Hp) as [P1 [P2 P3]];
  try specialize (P2 eq_refl); try specialize (P3 eq_refl).

Lemma nth_error_lt : forall (l : list (Z * V)) p x, nth_error l p = Some x -> (p < length l)%nat.
Proof. intros l p x H. apply nth_error_Some. congruence. Qed.

Lemma nth_error_ex : forall (l : list (Z * V)) p, (p < length l)%nat -> exists x, nth_error l p = Some x.
Proof.
  intros l p H. destruct (nth_error l p) eqn:E; eauto. apply nth_error_None in E. lia.
Qed.

Lemma bucket_fre_low : forall l k excl, ssorted l ->
  match bucket_fre V l k true excl with
  | Some off => exists e, nth_error l off = Some e /\ Lk k excl (fst e) /\
                 forall x, In x l -> Lk k excl (fst x) -> fst e <= fst x
  | None => forall x, In x l -> ~ Lk k excl (fst x)
  end.
Proof.
  intros l k excl Hs. unfold bucket_fre.
  destruct (bsearch V l k) as [i eq] eqn:Eb.
  pose proof (bsearch_pos _ _ _ _ Hs Eb) as BP.
  destruct (bsearch_spec _ _ _ _ Hs Eb) as [Bi _].
  set (t := if eq then (if excl then Z.of_nat i + 1 else Z.of_nat i) else Z.of_nat i).
  destruct ((0 <=? t) && (t <? Z.of_nat (length l))) eqn:C.
  - apply andb_true_iff in C. destruct C as [C1 C2]. apply Z.leb_le in C1. apply Z.ltb_lt in C2.
    destruct (nth_error_ex l (Z.to_nat t)) as [e He]; [lia|].
    exists e. split; auto. bp_use BP (Z.to_nat t) e He.
    split.
    + unfold Lk. subst t. destruct eq, excl; lia.
    + intros x Hx HL. apply In_nth_error in Hx. destruct Hx as [p Hp].
      bp_use BP p x Hp. apply (ss_nth_le l (Z.to_nat t) p); auto.
      unfold Lk in HL. subst t. destruct eq, excl; lia.
  - intros x Hx HL. apply In_nth_error in Hx. destruct Hx as [p Hp].
    pose proof (nth_error_lt _ _ _ Hp). bp_use BP p x Hp.
    apply andb_false_iff in C. rewrite Z.leb_gt, Z.ltb_ge in C.
    unfold Lk in HL. subst t. destruct eq, excl; lia.
Qed.

Lemma bucket_fre_high : forall l k excl, ssorted l ->
  match bucket_fre V l k false excl with
  | Some off => exists e, nth_error l off = Some e /\ Hk k excl (fst e) /\
                 forall x, In x l -> Hk k excl (fst x) -> fst x <= fst e
  | None => forall x, In x l -> ~ Hk k excl (fst x)
  end.
Proof.
  intros l k excl Hs. unfold bucket_fre.
  destruct (bsearch V l k) as [i eq] eqn:Eb.
  pose proof (bsearch_pos _ _ _ _ Hs Eb) as BP.
  destruct (bsearch_spec _ _ _ _ Hs Eb) as [Bi [_ [B3 _]]].
  assert (Bq: eq = true -> (i < length l)%nat).
  { intros E. destruct (B3 E) as [? [Hn _]]. eapply nth_error_lt; eauto. }
  set (t := if eq then (if excl then Z.of_nat i - 1 else Z.of_nat i) else Z.of_nat i - 1).
  destruct ((0 <=? t) && (t <? Z.of_nat (length l))) eqn:C.
  - apply andb_true_iff in C. destruct C as [C1 C2]. apply Z.leb_le in C1. apply Z.ltb_lt in C2.
    destruct (nth_error_ex l (Z.to_nat t)) as [e He]; [lia|].
    exists e. split; auto. bp_use BP (Z.to_nat t) e He.
    split.
    + unfold Hk. subst t. destruct eq, excl; lia.
    + intros x Hx HL. apply In_nth_error in Hx. destruct Hx as [p Hp].
      bp_use BP p x Hp. apply (ss_nth_le l p (Z.to_nat t)); auto.
      unfold Hk in HL. subst t. destruct eq, excl; lia.
  - intros x Hx HL. apply In_nth_error in Hx. destruct Hx as [p Hp].
    pose proof (nth_error_lt _ _ _ Hp). bp_use BP p x Hp.
    apply andb_false_iff in C. rewrite Z.leb_gt, Z.ltb_ge in C.
    unfold Hk in HL. subst t. destruct eq, excl; try specialize (Bq eq_refl); lia.
Qed.

(* ---------- positions in a leaf sequence ---------- *)
Definition entry (ls : leafseq) (p : nat * nat) : option (Z * V) :=
  nth_error (nth_leaf V ls (fst p)) (snd p).
Definition gidx (ls : leafseq) (p : nat * nat) : nat :=
  (length (concat (firstn (fst p) ls)) + snd p)%nat.

Lemma key_at_entry : forall ls p e, entry ls p = Some e -> key_at V ls p = fst e.
Proof. intros ls p [k v] H. unfold key_at. unfold entry in H. rewrite H. reflexivity. Qed.

Lemma entry_gidx : forall ls j off e, entry ls (j, off) = Some e ->
  nth_error (concat ls) (gidx ls (j, off)) = Some e.
Proof.
  unfold entry, gidx, nth_leaf. simpl.
  induction ls as [|l r IH]; intros j off e H.
  - destruct j, off; discriminate.
  - destruct j as [|j]; simpl in *.
    + rewrite nth_error_app1; auto. eapply nth_error_lt; eauto.
    + rewrite app_length, <- Nat.add_assoc, nth_error_app2 by lia.
      replace (length l + (length (concat (firstn j r)) + off) - length l)%nat
        with (length (concat (firstn j r)) + off)%nat by lia.
      apply IH; auto.
Qed.

Lemma entry_in : forall ls p e, entry ls p = Some e -> In e (concat ls).
Proof. intros ls [j off] e H. apply entry_gidx in H. eapply nth_error_In; eauto. Qed.

Lemma entry_valid : forall ls j off e, entry ls (j, off) = Some e ->
  (j < length ls)%nat /\ (off < length (nth_leaf V ls j))%nat.
Proof.
  unfold entry. simpl. intros ls j off e H. split; [|eapply nth_error_lt; eauto].
  destruct (le_lt_dec (length ls) j); auto. unfold nth_leaf in H.
  rewrite nth_overflow in H by lia. destruct off; discriminate.
Qed.

Lemma len_firstn_S : forall (ls : leafseq) j,
  length (concat (firstn (S j) ls)) =
  (length (concat (firstn j ls)) + length (nth_leaf V ls j))%nat.
Proof.
  unfold nth_leaf. induction ls as [|l r IH]; intros j.
  - destruct j; reflexivity.
  - destruct j as [|j].
    + simpl. rewrite app_nil_r. reflexivity.
    + rewrite (firstn_cons (S j) l r), (firstn_cons j l r).
      change (nth (S j) (l :: r) []) with (nth j r []).
      rewrite !concat_cons, !app_length, IH. lia.
Qed.

Lemma len_firstn_mono : forall (ls : leafseq) j j', (j <= j')%nat ->
  (length (concat (firstn j ls)) <= length (concat (firstn j' ls)))%nat.
Proof.
  intros ls j j' H. induction H; auto. rewrite len_firstn_S. lia.
Qed.

Lemma len_firstn_all : forall (ls : leafseq) j, (length ls <= j)%nat ->
  length (concat (firstn j ls)) = length (concat ls).
Proof. intros ls j H. rewrite firstn_all2; auto. Qed.

Lemma gidx_lt_block : forall ls j off e j', entry ls (j, off) = Some e -> (j < j')%nat ->
  (gidx ls (j, off) < length (concat (firstn j' ls)))%nat.
Proof.
  intros ls j off e j' H Hlt. apply entry_valid in H. destruct H as [_ H].
  unfold gidx. simpl. pose proof (len_firstn_mono ls (S j) j' Hlt) as M.
  rewrite len_firstn_S in M. lia.
Qed.

Lemma gidx_lt_len : forall ls j off e, entry ls (j, off) = Some e ->
  (gidx ls (j, off) < length (concat ls))%nat.
Proof.
  intros ls j off e H. apply entry_gidx in H. eapply nth_error_lt; eauto.
Qed.

Lemma gidx_le_fst : forall ls j off e j' off' e', entry ls (j, off) = Some e ->
  entry ls (j', off') = Some e' -> (gidx ls (j, off) <= gidx ls (j', off'))%nat -> (j <= j')%nat.
Proof.
  intros ls j off e j' off' e' H H' Hle. destruct (le_lt_dec j j') as [|Hlt]; auto.
  pose proof (gidx_lt_block _ _ _ _ _ H' Hlt). unfold gidx in *. simpl in *. lia.
Qed.

(* decomposition around leaf j *)
Lemma split_nth : forall (A : leafseq) l R, nth_leaf V (A ++ l :: R) (length A) = l.
Proof. intros. unfold nth_leaf. apply nth_middle. Qed.
Lemma split_firstn : forall (A : leafseq) X, firstn (length A) (A ++ X) = A.
Proof. intros. rewrite firstn_app, Nat.sub_diag, firstn_all. simpl. apply app_nil_r. Qed.
Lemma split_skipn : forall (A : leafseq) X, skipn (length A) (A ++ X) = X.
Proof. intros. rewrite skipn_app, Nat.sub_diag, skipn_all. reflexivity. Qed.

(* ---------- BTree_findRangeEnd ---------- *)
Definition LS (ls : leafseq) : Prop := ls <> [] /\ NE ls /\ ssorted (concat ls).

Definition fre_ls (ls : leafseq) (j : nat) (k : Z) (low excl : bool) : option (nat * nat) :=
  match bucket_fre V (nth_leaf V ls j) k low excl with
  | Some off => Some (j, off)
  | None => if low then (if (S j <? length ls)%nat then Some (S j, O) else None)
            else match j with O => None | S p => Some (p, (length (nth_leaf V ls p) - 1)%nat) end
  end.

Lemma c_fre_eq : forall t k low excl, lseq V t <> [] ->
  c_fre V t k low excl = fre_ls (lseq V t) (find_leaf V t k) k low excl.
Proof. intros t k low excl H. unfold c_fre, fre_ls. destruct (lseq V t); [congruence|reflexivity]. Qed.

Definition low_spec (ls : leafseq) (L : Z -> Prop) (r : option (nat * nat)) : Prop :=
  match r with
  | Some p => exists e, entry ls p = Some e /\ L (fst e) /\
                forall x, In x (concat ls) -> L (fst x) -> fst e <= fst x
  | None => forall x, In x (concat ls) -> ~ L (fst x)
  end.
Definition high_spec (ls : leafseq) (H : Z -> Prop) (r : option (nat * nat)) : Prop :=
  match r with
  | Some p => exists e, entry ls p = Some e /\ H (fst e) /\
                forall x, In x (concat ls) -> H (fst x) -> fst x <= fst e
  | None => forall x, In x (concat ls) -> ~ H (fst x)
  end.

Lemma split_nth_S : forall (A : leafseq) l l2 R, nth_leaf V (A ++ l :: l2 :: R) (S (length A)) = l2.
Proof.
  intros. replace (A ++ l :: l2 :: R) with ((A ++ [l]) ++ l2 :: R) by (rewrite <- app_assoc; reflexivity).
  replace (S (length A)) with (length (A ++ [l])) by (rewrite app_length; simpl; lia).
  apply split_nth.
Qed.

Lemma Lk_ge : forall k excl x, Lk k excl x -> k <= x.
Proof. intros k [|] x; unfold Lk; lia. Qed.
Lemma Hk_le : forall k excl x, Hk k excl x -> x <= k.
Proof. intros k [|] x; unfold Hk; lia. Qed.
Lemma Lk_gt : forall k excl x, k < x -> Lk k excl x.
Proof. intros k [|] x; unfold Lk; lia. Qed.
Lemma Hk_lt : forall k excl x, x < k -> Hk k excl x.
Proof. intros k [|] x; unfold Hk; lia. Qed.

Lemma fre_low : forall ls j k excl, LS ls -> FL ls k j ->
  low_spec ls (Lk k excl) (fre_ls ls j k true excl).
Proof.
  intros ls j k excl [Hnn [Hne Hss]] [A [l [R [E [Ej [HA HR]]]]]]. subst ls j.
  rewrite concat_app, concat_cons in Hss.
  apply ss_app in Hss. destruct Hss as [SA [Hss SAX]].
  apply ss_app in Hss. destruct Hss as [Sl [SR SlR]].
  unfold fre_ls. rewrite split_nth.
  pose proof (bucket_fre_low l k excl Sl) as HB.
  destruct (bucket_fre V l k true excl) as [off|].
  - destruct HB as [e [He [HL Hmin]]]. exists e. split; [|split]; auto.
    + unfold entry. simpl. rewrite split_nth. auto.
    + intros x Hx HLx. rewrite concat_app, concat_cons in Hx.
      apply in_app_or in Hx. destruct Hx as [Hx|Hx].
      * apply HA in Hx. apply Lk_ge in HLx. lia.
      * apply in_app_or in Hx. destruct Hx as [Hx|Hx]; auto.
        apply nth_error_In in He. specialize (SlR _ _ He Hx). lia.
  - destruct R as [|l2 R].
    + rewrite app_length. simpl length.
      destruct (Nat.ltb_spec (S (length A)) (length A + 1)); [lia|].
      intros x Hx HLx. rewrite concat_app, concat_cons in Hx.
      apply in_app_or in Hx. destruct Hx as [Hx|Hx].
      * apply HA in Hx. apply Lk_ge in HLx. lia.
      * simpl in Hx. rewrite app_nil_r in Hx. apply (HB x); auto.
    + rewrite app_length. simpl length.
      destruct (Nat.ltb_spec (S (length A)) (length A + S (S (length R)))); [|lia].
      assert (Hl2: l2 <> []).
      { unfold NE in Hne. rewrite Forall_forall in Hne. apply Hne.
        apply in_or_app. right. right. left. auto. }
      destruct l2 as [|e l2]; [congruence|].
      exists e. split; [|split].
      * unfold entry. simpl. rewrite split_nth_S. reflexivity.
      * apply Lk_gt. apply HR. simpl. auto.
      * intros x Hx HLx. rewrite concat_app, concat_cons in Hx.
        apply in_app_or in Hx. destruct Hx as [Hx|Hx].
        -- apply HA in Hx. apply Lk_ge in HLx. lia.
        -- apply in_app_or in Hx. destruct Hx as [Hx|Hx]; [exfalso; apply (HB x); auto|].
           simpl in Hx, SR. apply ss_cons_inv in SR. destruct SR as [_ SR].
           destruct Hx as [<-|Hx]; [lia|]. specialize (SR _ Hx). lia.
Qed.

Lemma split_nth_P : forall (A : leafseq) l1 X, nth_leaf V ((A ++ [l1]) ++ X) (length A) = l1.
Proof. intros. rewrite <- app_assoc. simpl. apply split_nth. Qed.

Lemma nth_error_last : forall (l : list (Z * V)) e, nth_error (l ++ [e]) (length (l ++ [e]) - 1) = Some e.
Proof.
  intros. rewrite app_length. simpl. rewrite nth_error_app2 by lia.
  replace (length l + 1 - 1 - length l)%nat with O by lia. reflexivity.
Qed.

Lemma fre_high : forall ls j k excl, LS ls -> FL ls k j ->
  high_spec ls (Hk k excl) (fre_ls ls j k false excl).
Proof.
  intros ls j k excl [Hnn [Hne Hss]] [A [l [R [E [Ej [HA HR]]]]]]. subst ls j.
  rewrite concat_app, concat_cons in Hss.
  apply ss_app in Hss. destruct Hss as [SA [Hss SAX]].
  apply ss_app in Hss. destruct Hss as [Sl [SR SlR]].
  unfold fre_ls. rewrite split_nth.
  pose proof (bucket_fre_high l k excl Sl) as HB.
  destruct (bucket_fre V l k false excl) as [off|].
  - destruct HB as [e [He [HL Hmax]]]. exists e. split; [|split]; auto.
    + unfold entry. simpl. rewrite split_nth. auto.
    + intros x Hx HLx. rewrite concat_app, concat_cons in Hx.
      apply in_app_or in Hx. destruct Hx as [Hx|Hx].
      * apply nth_error_In in He. assert (In e (l ++ concat R)) by (apply in_or_app; auto).
        specialize (SAX _ _ Hx H). lia.
      * apply in_app_or in Hx. destruct Hx as [Hx|Hx]; auto.
        apply HR in Hx. apply Hk_le in HLx. lia.
  - assert (Hrest: forall x, In x (l ++ concat R) -> ~ Hk k excl (fst x)).
    { intros x Hx HLx. apply in_app_or in Hx. destruct Hx as [Hx|Hx]; [apply (HB x); auto|].
      apply HR in Hx. apply Hk_le in HLx. lia. }
    destruct A as [|l1 A] using rev_ind.
    + simpl. intros x Hx. apply Hrest. auto.
    + clear IHA. rewrite app_length. simpl length. rewrite Nat.add_1_r.
      rewrite split_nth_P.
      assert (Hl1: l1 <> []).
      { unfold NE in Hne. rewrite Forall_forall in Hne. apply Hne.
        apply in_or_app. left. apply in_or_app. right. left. auto. }
      destruct l1 as [|e l1] using rev_ind; [congruence|]. clear IHl1.
      exists e. split; [|split].
      * unfold entry. simpl. rewrite split_nth_P. apply nth_error_last.
      * apply Hk_lt. apply HA. rewrite concat_app. apply in_or_app. right. simpl.
        rewrite app_nil_r. apply in_or_app. right. left. auto.
      * intros x Hx HLx. rewrite concat_app, concat_cons in Hx.
        apply in_app_or in Hx. destruct Hx as [Hx|Hx]; [|exfalso; apply (Hrest x); auto].
        rewrite concat_app in Hx, SA. simpl in Hx, SA. rewrite app_nil_r in Hx, SA.
        rewrite app_assoc in Hx, SA. apply ss_app in SA. destruct SA as [_ [_ SA]].
        apply in_app_or in Hx. destruct Hx as [Hx|[<-|[]]]; [|lia].
        specialize (SA x e Hx (or_introl eq_refl)). lia.
Qed.

(* ---------- top level: what wf_search gives ---------- *)
Lemma wf_top : forall t, wf_search V t = true ->
  (lseq V t = [] /\ contents V t = []) \/
  (LS (lseq V t) /\ forall k, FL (lseq V t) k (find_leaf V t k)).
Proof.
  intros t H. unfold wf_search in H. destruct t as [|i [|sc r]]; [discriminate|left; auto|].
  right. destruct (wf_facts _ _ _ H) as [_ [H2 [H3 [H4 _]]]]. split.
  - split; [|split]; auto.
    + intros E. apply H4. rewrite <- concat_lseq, E. reflexivity.
    + rewrite concat_lseq. auto.
  - intros k. eapply find_leaf_FL; eauto.
Qed.

Lemma LS_first : forall ls, LS ls -> exists e l r, ls = (e :: l) :: r.
Proof.
  intros [|[|e l] r] [H1 [H2 _]]; [congruence| |eauto].
  inversion H2; congruence.
Qed.

Lemma LS_last : forall ls, LS ls -> exists A l e, ls = A ++ [l ++ [e]].
Proof.
  intros ls [H1 [H2 _]]. destruct ls as [|l1 A] using rev_ind; [congruence|]. clear IHA.
  unfold NE in H2. rewrite Forall_forall in H2.
  assert (l1 <> []) by (apply H2; apply in_or_app; right; left; auto).
  destruct l1 as [|e l] using rev_ind; [congruence|]. eauto.
Qed.

Lemma last_entry : forall (A : leafseq) l e,
  let ls := A ++ [l ++ [e]] in
  entry ls ((length ls - 1)%nat, (length (nth_leaf V ls (length ls - 1)) - 1)%nat) = Some e /\
  concat ls = (concat A ++ l) ++ [e].
Proof.
  intros A l e ls. subst ls. split.
  - unfold entry. simpl. rewrite app_length. simpl. rewrite Nat.add_sub.
    rewrite split_nth. apply nth_error_last.
  - rewrite concat_app. simpl. rewrite app_nil_r, app_assoc. reflexivity.
Qed.

Lemma c_minkey_eq : forall t b, lseq V t <> [] ->
  c_minkey V t b =
  match b with
  | None => Some (key_at V (lseq V t) (O, O))
  | Some x => match fre_ls (lseq V t) (find_leaf V t x) x true false with
              | Some p => Some (key_at V (lseq V t) p) | None => None end
  end.
Proof. intros t b H. unfold c_minkey, c_fre, fre_ls. destruct (lseq V t); [congruence|reflexivity]. Qed.

Lemma c_maxkey_eq : forall t b, lseq V t <> [] ->
  c_maxkey V t b =
  match b with
  | None => let ls := lseq V t in let j := (length ls - 1)%nat in
            Some (key_at V ls (j, (length (nth_leaf V ls j) - 1)%nat))
  | Some x => match fre_ls (lseq V t) (find_leaf V t x) x false false with
              | Some p => Some (key_at V (lseq V t) p) | None => None end
  end.
Proof. intros t b H. unfold c_maxkey, c_fre, fre_ls. destruct (lseq V t); [congruence|reflexivity]. Qed.

Lemma c_minmax_correct : forall (t : tree) (b : option Z), wf_search V t = true ->
  c_minkey V t b = RSpec.min_key (contents V t) b /\
  c_maxkey V t b = RSpec.max_key (contents V t) b.
Proof.
  intros t b H. destruct (wf_top t H) as [[E1 E2]|[HLS HFL]].
  - unfold c_minkey, c_maxkey. rewrite E1, E2. destruct b; auto.
  - pose proof HLS as [Hnn [Hne Hss]]. rewrite <- concat_lseq.
    rewrite c_minkey_eq, c_maxkey_eq by auto. destruct b as [x|].
    + split.
      * pose proof (fre_low _ _ x false HLS (HFL x)) as HS.
        destruct (fre_ls (lseq V t) (find_leaf V t x) x true false) as [p|]; simpl in HS.
        -- destruct HS as [e [He [HL Hmin]]]. rewrite (key_at_entry _ _ _ He).
           symmetry. apply min_key_some; auto. eapply entry_in; eauto.
        -- symmetry. apply min_key_none. intros y Hy. specialize (HS y Hy). unfold Lk in HS. lia.
      * pose proof (fre_high _ _ x false HLS (HFL x)) as HS.
        destruct (fre_ls (lseq V t) (find_leaf V t x) x false false) as [p|]; simpl in HS.
        -- destruct HS as [e [He [HL Hmax]]]. rewrite (key_at_entry _ _ _ He).
           symmetry. apply max_key_some; auto. eapply entry_in; eauto.
        -- symmetry. apply max_key_none. intros y Hy. specialize (HS y Hy). unfold Hk in HS. lia.
    + split.
      * destruct (LS_first _ HLS) as [[k v] [l [r E]]]. rewrite E. reflexivity.
      * destruct (LS_last _ HLS) as [A [l [e E]]]. rewrite E.
        destruct (last_entry A l e) as [L1 L2]. cbv zeta in *.
        rewrite (key_at_entry _ _ _ L1). rewrite L2.
        change (Some (fst e) = lastkey ((concat A ++ l) ++ [e])). rewrite lastkey_last. auto.
Qed.

(* ---------- contiguous segments ---------- *)
Lemma nth_error_firstn' : forall (l : list (Z * V)) n i,
  nth_error (firstn n l) i = if (i <? n)%nat then nth_error l i else None.
Proof.
  induction l as [|a l IH]; intros n i.
  - rewrite firstn_nil. destruct i, (Nat.ltb _ _); reflexivity.
  - destruct n as [|n]; [destruct i; reflexivity|].
    destruct i as [|i]; [reflexivity|]. simpl firstn. simpl nth_error. rewrite IH. reflexivity.
Qed.

Lemma nth_error_skipn' : forall (l : list (Z * V)) p i,
  nth_error (skipn p l) i = nth_error l (p + i).
Proof.
  induction l as [|a l IH]; intros p i.
  - rewrite skipn_nil. destruct i, p; reflexivity.
  - destruct p as [|p]; [reflexivity|]. simpl. apply IH.
Qed.

Definition seg (m : list (Z * V)) (p u : nat) : list (Z * V) := firstn (u - p) (skipn p m).

Lemma nth_error_seg : forall m p u i,
  nth_error (seg m p u) i = if (i <? u - p)%nat then nth_error m (p + i) else None.
Proof. intros. unfold seg. rewrite nth_error_firstn', nth_error_skipn'. reflexivity. Qed.

Lemma in_seg : forall m p u x,
  In x (seg m p u) <-> exists i, (p <= i < u)%nat /\ nth_error m i = Some x.
Proof.
  intros m p u x. split.
  - intros H. apply In_nth_error in H. destruct H as [i Hi]. rewrite nth_error_seg in Hi.
    destruct (Nat.ltb_spec i (u - p)); [|discriminate]. exists (p + i)%nat. split; auto. lia.
  - intros [i [Hi Hx]]. apply (nth_error_In _ (i - p)). rewrite nth_error_seg.
    destruct (Nat.ltb_spec (i - p) (u - p)); [|lia]. replace (p + (i - p))%nat with i by lia. auto.
Qed.

Lemma ss_seg : forall m p u, ssorted m -> ssorted (seg m p u).
Proof. intros. unfold seg. apply ss_firstn. apply ss_skipn. auto. Qed.

Lemma length_seg : forall m p u, (u <= length m)%nat -> length (seg m p u) = (u - p)%nat.
Proof. intros. unfold seg. rewrite firstn_length, skipn_length. lia. Qed.

Lemma between_seg : forall ls lp hp,
  between V ls lp hp = seg (concat ls) (gidx ls lp) (gidx ls hp + 1).
Proof. reflexivity. Qed.

Lemma in_between : forall ls lp hp el eh x, ssorted (concat ls) ->
  entry ls lp = Some el -> entry ls hp = Some eh ->
  (In x (between V ls lp hp) <-> In x (concat ls) /\ fst el <= fst x <= fst eh).
Proof.
  intros ls [j1 o1] [j2 o2] el eh x Hs Hl Hh. rewrite between_seg, in_seg.
  apply entry_gidx in Hl. apply entry_gidx in Hh. split.
  - intros [i [Hi Hx]]. split; [eapply nth_error_In; eauto|]. split.
    + apply (ss_nth_le _ _ _ _ _ Hs Hl Hx). lia.
    + apply (ss_nth_le _ _ _ _ _ Hs Hx Hh). lia.
  - intros [Hx [H1 H2]]. apply In_nth_error in Hx. destruct Hx as [i Hx]. exists i. split; auto.
    pose proof (ss_nth_le_inv _ _ _ _ _ Hs Hl Hx H1).
    pose proof (ss_nth_le_inv _ _ _ _ _ Hs Hx Hh H2). lia.
Qed.

Lemma nil_of_no_in : forall l : list (Z * V), (forall x, ~ In x l) -> l = [].
Proof. intros [|a l] H; auto. exfalso. apply (H a). left; auto. Qed.

(* ---------- BTree_rangeSearch: the two ends ---------- *)
Definition lowp_ls (ls : leafseq) (fl : Z -> nat) (lo : option Z) (exlo : bool) : option (nat * nat) :=
  match lo with
  | Some a => fre_ls ls (fl a) a true exlo
  | None => if exlo then (if (1 <? length (nth_leaf V ls 0))%nat then Some (O, 1%nat)
                          else if (1 <? length ls)%nat then Some (1%nat, O) else None)
            else Some (O, O)
  end.
Definition highp_ls (ls : leafseq) (fl : Z -> nat) (hi : option Z) (exhi : bool) : option (nat * nat) :=
  match hi with
  | Some b => fre_ls ls (fl b) b false exhi
  | None =>
    let lastj := (length ls - 1)%nat in
    let off := (length (nth_leaf V ls lastj) - 1)%nat in
    if exhi then (if (0 <? off)%nat then Some (lastj, (off - 1)%nat)
                  else match lastj with
                       | O => None
                       | S p => Some (p, (length (nth_leaf V ls p) - 1)%nat)
                       end)
    else Some (lastj, off)
  end.
Definition ends_ls (ls : leafseq) (fl : Z -> nat) (lo hi : option Z) (exlo exhi : bool)
  : option ((nat * nat) * (nat * nat)) :=
  match lowp_ls ls fl lo exlo with
  | None => None
  | Some lp =>
    match highp_ls ls fl hi exhi with
    | None => None
    | Some hp =>
      if (fst lp =? fst hp)%nat then (if (snd hp <? snd lp)%nat then None else Some (lp, hp))
      else if key_at V ls hp <? key_at V ls lp then None else Some (lp, hp)
    end
  end.

Lemma c_range_ends_eq : forall t lo hi exlo exhi, lseq V t <> [] ->
  c_range_ends V t lo hi exlo exhi = ends_ls (lseq V t) (find_leaf V t) lo hi exlo exhi.
Proof.
  intros t lo hi exlo exhi H.
  unfold c_range_ends, ends_ls, lowp_ls, highp_ls, c_fre, fre_ls.
  destruct (lseq V t); [congruence|reflexivity].
Qed.

Lemma second_low : forall e e1 rest, let m := e :: e1 :: rest in ssorted m ->
  (exists y, In y m /\ fst y < fst e1) /\
  (forall x, In x m -> (exists y, In y m /\ fst y < fst x) -> fst e1 <= fst x).
Proof.
  intros e e1 rest m Hs. subst m. apply ss_cons_inv in Hs. destruct Hs as [Hs H0].
  apply ss_cons_inv in Hs. destruct Hs as [Hs H1]. split.
  - exists e. split; [left; auto|]. apply H0. left; auto.
  - intros x [<-|[<-|Hx]] [y [Hy Hlt]]; [|lia|specialize (H1 _ Hx); lia].
    destruct Hy as [<-|Hy]; [lia|]. specialize (H0 _ Hy). lia.
Qed.

Lemma lowp_spec : forall ls fl lo exlo, LS ls -> (forall k, FL ls k (fl k)) ->
  low_spec ls (Lpred (concat ls) lo exlo) (lowp_ls ls fl lo exlo).
Proof.
  intros ls fl lo exlo HLS HFL. destruct lo as [a|].
  - exact (fre_low ls (fl a) a exlo HLS (HFL a)).
  - destruct (LS_first _ HLS) as [e [l [r E]]]. subst ls.
    destruct HLS as [_ [Hne Hss]]. unfold lowp_ls, nth_leaf. destruct exlo.
    + destruct l as [|e1 l].
      * simpl nth. simpl length. destruct r as [|l2 r].
        -- simpl. intros x [<-|[]] [y [[<-|[]] Hlt]]. lia.
        -- inversion Hne as [|? ? _ Hne']; subst. inversion Hne' as [|? ? Hl2 _]; subst.
           destruct l2 as [|e1 l2]; [congruence|]. simpl Nat.ltb. cbv iota.
           simpl in Hss. destruct (second_low _ _ _ Hss) as [S1 S2].
           exists e1. split; [reflexivity|]. simpl. split; auto.
      * simpl. simpl in Hss. destruct (second_low _ _ _ Hss) as [S1 S2].
        exists e1. split; [reflexivity|]. split; auto.
    + exists e. split; [reflexivity|]. simpl. split; auto.
      intros x Hx _. simpl in Hss. apply ss_cons_inv in Hss. destruct Hss as [_ Hss].
      destruct Hx as [<-|Hx]; [lia|]. specialize (Hss _ Hx). lia.
Qed.

Lemma len_last : forall {T} (A : list T) x, (length (A ++ [x]) - 1)%nat = length A.
Proof. intros. rewrite app_length. simpl. lia. Qed.

Lemma nth_error_mid : forall (l : list (Z * V)) e r, nth_error (l ++ e :: r) (length l) = Some e.
Proof. intros. rewrite nth_error_app2 by lia. rewrite Nat.sub_diag. reflexivity. Qed.

Lemma penult_high : forall Y e0 e, let m := Y ++ [e0; e] in ssorted m ->
  (exists y, In y m /\ fst e0 < fst y) /\
  (forall x, In x m -> (exists y, In y m /\ fst x < fst y) -> fst x <= fst e0).
Proof.
  intros Y e0 e m Hs. subst m. apply ss_app in Hs. destruct Hs as [_ [Hs Hc]].
  apply ss_cons_inv in Hs. destruct Hs as [_ Hs]. specialize (Hs e (or_introl eq_refl)). split.
  - exists e. split; auto. apply in_or_app. right. right. left. auto.
  - intros x Hx [y [Hy Hlt]]. apply in_app_or in Hx. destruct Hx as [Hx|[<-|[<-|[]]]]; [|lia|].
    + specialize (Hc x e0 Hx (or_introl eq_refl)). lia.
    + apply in_app_or in Hy. destruct Hy as [Hy|[<-|[<-|[]]]]; try lia.
      specialize (Hc y e Hy (or_intror (or_introl eq_refl))). lia.
Qed.

Lemma highp_spec : forall ls fl hi exhi, LS ls -> (forall k, FL ls k (fl k)) ->
  high_spec ls (Hpred (concat ls) hi exhi) (highp_ls ls fl hi exhi).
Proof.
  intros ls fl hi exhi HLS HFL. destruct hi as [b|].
  - exact (fre_high ls (fl b) b exhi HLS (HFL b)).
  - destruct (LS_last _ HLS) as [A [l [e E]]]. subst ls.
    destruct HLS as [_ [Hne Hss]]. unfold highp_ls. cbv zeta.
    rewrite len_last, split_nth, len_last. destruct exhi.
    + destruct l as [|e0 l] using rev_ind.
      * simpl Nat.ltb. cbv iota. destruct A as [|l1 A] using rev_ind.
        -- simpl. intros x [<-|[]] [y [[<-|[]] Hlt]]. lia.
        -- clear IHA. rewrite app_length. simpl length. rewrite Nat.add_1_r.
           rewrite split_nth_P.
           assert (Hl1: l1 <> []).
           { unfold NE in Hne. rewrite Forall_forall in Hne. apply Hne.
             apply in_or_app. left. apply in_or_app. right. left. auto. }
           destruct l1 as [|e0 l1] using rev_ind; [congruence|]. clear IHl1.
           assert (Em: concat ((A ++ [l1 ++ [e0]]) ++ [[] ++ [e]]) = (concat A ++ l1) ++ [e0; e]).
           { rewrite !concat_app. simpl. rewrite !app_nil_r, <- !app_assoc. reflexivity. }
           rewrite Em in Hss. destruct (penult_high _ _ _ Hss) as [P1 P2].
           exists e0. split; [|split].
           ++ unfold entry. simpl. rewrite split_nth_P. apply nth_error_last.
           ++ unfold Hpred. rewrite Em. auto.
           ++ unfold Hpred. rewrite Em. auto.
      * clear IHl. rewrite app_length. simpl length. rewrite Nat.add_1_r. simpl Nat.ltb. cbv iota.
        assert (Em: concat (A ++ [(l ++ [e0]) ++ [e]]) = (concat A ++ l) ++ [e0; e]).
        { rewrite !concat_app. simpl. rewrite !app_nil_r, <- !app_assoc. reflexivity. }
        rewrite Em in Hss. destruct (penult_high _ _ _ Hss) as [P1 P2].
        exists e0. split; [|split].
        ++ unfold entry. simpl. rewrite split_nth. rewrite Nat.sub_0_r.
           rewrite <- app_assoc. apply nth_error_mid.
        ++ unfold Hpred. rewrite Em. auto.
        ++ unfold Hpred. rewrite Em. auto.
    + exists e. split; [|split].
      * unfold entry. simpl. rewrite split_nth. apply nth_error_mid.
      * simpl. auto.
      * intros x Hx _. rewrite concat_app in Hx, Hss. simpl in Hx, Hss.
        rewrite app_nil_r, app_assoc in Hx, Hss.
        apply ss_app in Hss. destruct Hss as [_ [_ Hc]].
        apply in_app_or in Hx. destruct Hx as [Hx|[<-|[]]]; [|lia].
        specialize (Hc x e Hx (or_introl eq_refl)). lia.
Qed.

Definition ends_spec (ls : leafseq) (L H : Z -> Prop) (r : option ((nat * nat) * (nat * nat))) : Prop :=
  match r with
  | None => forall x, In x (concat ls) -> ~ (L (fst x) /\ H (fst x))
  | Some (lp, hp) =>
    exists el eh, entry ls lp = Some el /\ entry ls hp = Some eh /\ fst el <= fst eh /\
      forall x, In x (concat ls) -> (L (fst x) /\ H (fst x) <-> fst el <= fst x <= fst eh)
  end.

Lemma ends_ls_spec : forall ls fl lo hi exlo exhi, LS ls -> (forall k, FL ls k (fl k)) ->
  ends_spec ls (Lpred (concat ls) lo exlo) (Hpred (concat ls) hi exhi)
            (ends_ls ls fl lo hi exlo exhi).
Proof.
  intros ls fl lo hi exlo exhi HLS HFL. unfold ends_ls.
  pose proof (lowp_spec ls fl lo exlo HLS HFL) as HL.
  pose proof (highp_spec ls fl hi exhi HLS HFL) as HH.
  destruct HLS as [_ [_ Hss]].
  destruct (lowp_ls ls fl lo exlo) as [[j1 o1]|]; simpl in HL.
  2:{ intros x Hx [C _]. apply (HL x); auto. }
  destruct (highp_ls ls fl hi exhi) as [[j2 o2]|]; simpl in HH.
  2:{ intros x Hx [_ C]. apply (HH x); auto. }
  destruct HL as [el [Hel [Lel Lmin]]]. destruct HH as [eh [Heh [Heh' Hmax]]].
  set (test := if (j1 =? j2)%nat then (o2 <? o1)%nat else key_at V ls (j2, o2) <? key_at V ls (j1, o1)).
  assert (Ht: test = true <-> fst eh < fst el).
  { subst test. destruct (Nat.eqb_spec j1 j2) as [->|Hn].
    - pose proof (entry_gidx _ _ _ _ Hel) as G1. pose proof (entry_gidx _ _ _ _ Heh) as G2.
      unfold gidx in *. simpl in *. rewrite Nat.ltb_lt. split; intros C.
      + apply (ss_nth_lt _ _ _ _ _ Hss G2 G1). lia.
      + pose proof (ss_nth_lt_inv _ _ _ _ _ Hss G2 G1 C). lia.
    - rewrite (key_at_entry _ _ _ Hel), (key_at_entry _ _ _ Heh). apply Z.ltb_lt. }
  simpl fst. simpl snd.
  assert (Hgoal: ends_spec ls (Lpred (concat ls) lo exlo) (Hpred (concat ls) hi exhi)
            (if test then None else Some ((j1, o1), (j2, o2)))).
  { destruct test.
    - assert (C: fst eh < fst el) by (apply Ht; auto).
      intros x Hx [C1 C2]. specialize (Lmin x Hx C1). specialize (Hmax x Hx C2). lia.
    - assert (C: ~ fst eh < fst el) by (rewrite <- Ht; discriminate).
      exists el, eh. repeat split; auto; try lia.
      + apply Lmin; tauto.
      + apply Hmax; tauto.
      + eapply Lpred_up; eauto. tauto.
      + eapply Hpred_down; eauto. tauto. }
  subst test. destruct (j1 =? j2)%nat.
  - destruct (o2 <? o1)%nat; exact Hgoal.
  - destruct (key_at V ls (j2, o2) <? key_at V ls (j1, o1)); exact Hgoal.
Qed.

Lemma range_nil : forall lo hi exlo exhi, @RSpec.range V [] lo hi exlo exhi = [].
Proof. intros [a|] [b|] [|] [|]; reflexivity. Qed.

Lemma c_range_correct : forall (t : tree) (lo hi : option Z) (exlo exhi : bool),
  wf_search V t = true ->
  c_range V t lo hi exlo exhi = RSpec.range (contents V t) lo hi exlo exhi.
Proof.
  intros t lo hi exlo exhi H. destruct (wf_top t H) as [[E1 E2]|[HLS HFL]].
  - unfold c_range, c_range_ends. rewrite E1, E2, range_nil. reflexivity.
  - pose proof HLS as [Hnn [Hne Hss]]. rewrite <- concat_lseq. unfold c_range.
    rewrite c_range_ends_eq by auto.
    pose proof (ends_ls_spec _ _ lo hi exlo exhi HLS HFL) as HS.
    destruct (ends_ls (lseq V t) (find_leaf V t) lo hi exlo exhi) as [[lp hp]|]; simpl in HS.
    + destruct HS as [el [eh [Hel [Heh [Hle Hiff]]]]].
      apply ss_eq.
      * rewrite between_seg. apply ss_seg; auto.
      * apply range_sorted; auto.
      * intros x. rewrite (in_between _ _ _ _ _ x Hss Hel Heh), range_in by auto.
        split; intros [Hx C]; split; auto; apply (Hiff x Hx); tauto.
    + symmetry. apply nil_of_no_in. intros x Hx. apply range_in in Hx; auto.
      destruct Hx as [Hx C]. apply (HS x Hx). tauto.
Qed.

(* ---------- Python minKey / maxKey ---------- *)
Lemma py_minkey_c : forall t b, py_minkey V t b = c_minkey V t b.
Proof.
  intros t b. unfold py_minkey, c_minkey, c_fre, bucket_fre.
  destruct (lseq V t) as [|l0 ls0]; auto. destruct b as [x|]; auto.
  set (ls := l0 :: ls0).
  destruct (bsearch V (nth_leaf V ls (find_leaf V t x)) x) as [i eq].
  assert (E: (if eq then if false then Z.of_nat i + 1 else Z.of_nat i else Z.of_nat i) = Z.of_nat i)
    by (destruct eq; reflexivity).
  cbv iota. rewrite E. rewrite Nat2Z.id.
  destruct (Nat.ltb_spec i (length (nth_leaf V ls (find_leaf V t x))));
    destruct (Z.leb_spec 0 (Z.of_nat i)); try lia;
    destruct (Z.ltb_spec (Z.of_nat i) (Z.of_nat (length (nth_leaf V ls (find_leaf V t x))))); try lia;
    cbn [andb]; try reflexivity;
    destruct (S (find_leaf V t x) <? length ls)%nat; reflexivity.
Qed.

Definition maxle (m : list (Z * V)) (x : Z) : option Z := RSpec.max_key m (Some x).

Lemma filter_all : forall (f : Z * V -> bool) m, (forall y, In y m -> f y = true) -> filter f m = m.
Proof.
  induction m as [|a m IH]; intros H; simpl; auto.
  rewrite (H a (or_introl eq_refl)). f_equal. apply IH. intros; apply H; right; auto.
Qed.

Lemma lastkey_app : forall B F, lastkey (B ++ F) = match lastkey F with Some k => Some k | None => lastkey B end.
Proof.
  intros B F. destruct F as [|z F] using rev_ind.
  - rewrite app_nil_r. reflexivity.
  - rewrite app_assoc, !lastkey_last. reflexivity.
Qed.

Lemma lastkey_some : forall F : list (Z * V), F <> [] -> exists k, lastkey F = Some k.
Proof.
  intros F H. destruct F as [|z F] using rev_ind; [congruence|]. rewrite lastkey_last. eauto.
Qed.

Lemma maxle_app_r : forall C R x, (forall y, In y R -> x < fst y) -> maxle (C ++ R) x = maxle C x.
Proof.
  intros C R x H. unfold maxle, RSpec.max_key. rewrite filter_app.
  rewrite (filter_nil _ R), app_nil_r; auto. intros y Hy. apply Z.leb_gt. auto.
Qed.

Lemma maxle_app_l : forall B C x, (forall y, In y B -> fst y <= x) ->
  maxle (B ++ C) x = match maxle C x with Some k => Some k | None => lastkey B end.
Proof.
  intros B C x H. unfold maxle, RSpec.max_key. rewrite filter_app.
  rewrite (filter_all _ B) by (intros y Hy; apply Z.leb_le; auto).
  apply lastkey_app.
Qed.

Lemma maxle_all : forall B x, (forall y, In y B -> fst y <= x) -> maxle B x = lastkey B.
Proof.
  intros B x H. unfold maxle, RSpec.max_key. rewrite filter_all; auto.
  intros y Hy; apply Z.leb_le; auto.
Qed.

Lemma maxle_ex : forall m x e, In e m -> fst e <= x -> exists k, maxle m x = Some k.
Proof.
  intros m x e He Hx. unfold maxle, RSpec.max_key. apply lastkey_some.
  intros E. assert (In e (filter (fun kv : Z * V => fst kv <=? x) m)).
  { apply filter_In. split; auto. apply Z.leb_le; auto. }
  rewrite E in H. destruct H.
Qed.

Lemma pmk_leaf : forall i l x, ssorted l -> py_maxkey_node V (Leaf i l) x = maxle l x.
Proof.
  intros i l x Hs. cbn [py_maxkey_node]. destruct (bsearch V l x) as [n eq] eqn:Eb.
  pose proof (bsearch_pos _ _ _ _ Hs Eb) as BP.
  destruct (bsearch_spec _ _ _ _ Hs Eb) as [Bi [_ [B3 _]]].
  destruct eq.
  - destruct (B3 eq_refl) as [e [He Hk]]. rewrite <- Hk. symmetry.
    apply max_key_some; auto; try lia. eapply nth_error_In; eauto.
  - destruct n as [|p].
    + symmetry. apply max_key_none. intros y Hy. apply In_nth_error in Hy. destruct Hy as [q Hq].
      bp_use BP q y Hq. lia.
    + destruct (nth_error_ex l p) as [e He]; [lia|]. rewrite He. destruct e as [k v] eqn:Ee.
      rewrite <- Ee in He. replace k with (fst e) by (subst e; reflexivity).
      symmetry. bp_use BP p e He. apply max_key_some; auto.
      * eapply nth_error_In; eauto.
      * lia.
      * intros y Hy Hyx. apply In_nth_error in Hy. destruct Hy as [q Hq].
        bp_use BP q y Hq. apply (ss_nth_le l q p); auto. lia.
Qed.

Fixpoint pmk_kids (x : Z) (prev : option (option Z)) (l : list (Z * tree)) : option Z :=
  match l with
  | [] => None
  | (_, c) :: rest =>
    if chosen V x rest then
      match prev, tmin V c with
      | Some p, Some m => if x <? m then p else py_maxkey_node V c x
      | _, _ => py_maxkey_node V c x
      end
    else pmk_kids x (Some (py_maxkey_node V c x)) rest
  end.

Lemma pmk_node : forall i kids x, py_maxkey_node V (Node i kids) x = pmk_kids x None kids.
Proof.
  intros i kids x. cbn [py_maxkey_node]. generalize (@None (option Z)).
  induction kids as [|[s c] r IH]; intros prev; [reflexivity|].
  cbn [pmk_kids]. rewrite <- IH. reflexivity.
Qed.

Lemma pmk_kids_cons : forall x prev s c rest,
  pmk_kids x prev ((s, c) :: rest) =
  if chosen V x rest then
    match prev, tmin V c with
    | Some p, Some m => if x <? m then p else py_maxkey_node V c x
    | _, _ => py_maxkey_node V c x
    end
  else pmk_kids x (Some (py_maxkey_node V c x)) rest.
Proof. reflexivity. Qed.

Definition prev_ok (prev : option (option Z)) (B : list (Z * V)) : Prop :=
  match prev with None => B = [] | Some p => p = lastkey B end.

Lemma pmk_chosen : forall lo hi c x prev B, WF lo hi c ->
  py_maxkey_node V c x = maxle (contents V c) x ->
  (forall y, In y B -> fst y <= x) -> prev_ok prev B ->
  match prev, tmin V c with
  | Some p, Some m => if x <? m then p else py_maxkey_node V c x
  | _, _ => py_maxkey_node V c x
  end = maxle (B ++ contents V c) x.
Proof.
  intros lo hi c x prev B [W1 [W2 [W3 [W4 W5]]]] IH HB Hp.
  rewrite maxle_app_l by auto. rewrite W5, IH.
  destruct (contents V c) as [|[m v] cs] eqn:Ec; [congruence|]. simpl hdkey.
  destruct prev as [p|]; simpl in Hp.
  - subst p. destruct (Z.ltb_spec x m).
    + replace (maxle ((m, v) :: cs) x) with (@None Z); [reflexivity|].
      symmetry. apply max_key_none.
      intros y [<-|Hy]; simpl; auto. apply ss_cons_inv in W2. destruct W2 as [_ W2].
      specialize (W2 _ Hy). simpl in W2. lia.
    + destruct (maxle_ex ((m, v) :: cs) x (m, v)) as [k Hk]; [left; auto|simpl; lia|].
      rewrite Hk. reflexivity.
  - subst B. destruct (maxle ((m, v) :: cs) x); reflexivity.
Qed.

Lemma pmk_kids_spec : forall hi lo l, kidsP hi lo l ->
  Forall (fun sc : Z * tree => forall lo hi, wfs lo hi (snd sc) = true ->
            forall x, py_maxkey_node V (snd sc) x = maxle (contents V (snd sc)) x) l ->
  forall x prev B, (forall y, In y B -> fst y <= x) -> prev_ok prev B ->
  pmk_kids x prev l = maxle (B ++ flat_map (fun sc => contents V (snd sc)) l) x.
Proof.
  intros hi lo l HP. induction HP as [lo s c Hc|lo s c s2 c2 rest Hc Hs2 HP IH];
    intros HF x prev B HB Hprev.
  - inversion HF as [|? ? Hh _]; subst. simpl in Hh. simpl. rewrite app_nil_r.
    eapply pmk_chosen; eauto. apply wf_facts; eauto.
  - inversion HF as [|? ? Hh Ht]; subst. simpl in Hh.
    change (flat_map (fun sc : Z * tree => contents V (snd sc)) ((s, c) :: (s2, c2) :: rest))
      with (contents V c ++ flat_map (fun sc : Z * tree => contents V (snd sc)) ((s2, c2) :: rest)).
    rewrite pmk_kids_cons. cbn [chosen].
    destruct (kids_facts' _ _ _ HP) as [K1 _].
    pose proof (wf_facts _ _ _ Hc) as WFc. pose proof WFc as [C1 [C2 [C3 [C4 C5]]]].
    destruct (Z.ltb_spec x s2) as [E|E].
    + rewrite app_assoc, maxle_app_r.
      * eapply pmk_chosen; eauto.
      * intros y Hy. apply K1 in Hy. apply within_ge in Hy. lia.
    + rewrite app_assoc. apply IH; auto.
      * intros y Hy. apply in_app_or in Hy. destruct Hy as [Hy|Hy]; auto.
        apply C1 in Hy. apply within_lt in Hy. lia.
      * simpl. rewrite (Hh _ _ Hc x). rewrite lastkey_app.
        assert (Hall: forall y, In y (contents V c) -> fst y <= x).
        { intros y Hy. apply C1 in Hy. apply within_lt in Hy. lia. }
        rewrite maxle_all by auto.
        destruct (lastkey_some _ C4) as [k Hk]. rewrite Hk. reflexivity.
Qed.

Lemma pmk_spec : forall t lo hi, wfs lo hi t = true ->
  forall x, py_maxkey_node V t x = maxle (contents V t) x.
Proof.
  induction t as [i l|i kids IH] using tree_ind2; intros lo hi H x.
  - apply pmk_leaf. destruct (wf_facts _ _ _ H) as [_ [W2 _]]. exact W2.
  - apply wfs_node_P in H. destruct H as [_ HP]. rewrite pmk_node.
    rewrite (pmk_kids_spec _ _ _ HP IH x None []); simpl; auto. intros y [].
Qed.

Lemma py_minmax_correct : forall (t : tree) (b : option Z), wf_search V t = true ->
  py_minkey V t b = RSpec.min_key (contents V t) b /\
  py_maxkey V t b = RSpec.max_key (contents V t) b.
Proof.
  intros t b H. destruct (c_minmax_correct t b H) as [M1 M2]. split.
  - rewrite py_minkey_c. exact M1.
  - destruct b as [x|].
    + unfold py_maxkey. destruct (lseq V t) as [|l0 ls0] eqn:E.
      * destruct (wf_top t H) as [[_ E2]|[[Hnn _] _]]; [|congruence]. rewrite E2. reflexivity.
      * unfold wf_search in H. destruct t as [|i [|sc r]]; [discriminate|discriminate|].
        apply (pmk_spec _ _ _ H x).
    + rewrite <- M2. unfold py_maxkey, c_maxkey. reflexivity.
Qed.

(* ---------- Bucket._range ---------- *)
Definition lslice (l : list (Z * V)) (lo hi : option Z) (exlo exhi : bool) : list (Z * V) :=
  let '(a, b) := py_leaf_range V l lo hi exlo exhi in slice_nat l a b.

Lemma st_iff : forall l lo exlo p x, ssorted l -> nth_error l p = Some x ->
  ((fst (py_leaf_range V l lo None exlo false) <= p)%nat <-> Lpred l lo exlo (fst x)).
Proof.
  intros l lo exlo p x Hs Hp. unfold py_leaf_range. destruct lo as [a|]; simpl.
  - destruct (bsearch V l a) as [i eq] eqn:Eb.
    pose proof (bsearch_pos _ _ _ _ Hs Eb) as BP. bp_use BP p x Hp.
    destruct eq, exlo; simpl; lia.
  - destruct exlo; simpl; [|split; auto; lia]. split.
    + intros H1. destruct (nth_error_ex l 0) as [y Hy]; [pose proof (nth_error_lt _ _ _ Hp); lia|].
      exists y. split; [eapply nth_error_In; eauto|]. apply (ss_nth_lt l 0 p); auto.
    + intros [y [Hy Hlt]]. apply In_nth_error in Hy. destruct Hy as [q Hq].
      pose proof (ss_nth_lt_inv _ _ _ _ _ Hs Hq Hp Hlt). lia.
Qed.

Lemma en_iff : forall l hi exhi p x, ssorted l -> nth_error l p = Some x ->
  ((p < snd (py_leaf_range V l None hi false exhi))%nat <-> Hpred l hi exhi (fst x)).
Proof.
  intros l hi exhi p x Hs Hp. unfold py_leaf_range. destruct hi as [b|]; simpl.
  - destruct (bsearch V l b) as [i eq] eqn:Eb.
    pose proof (bsearch_pos _ _ _ _ Hs Eb) as BP. bp_use BP p x Hp.
    destruct eq, exhi; simpl; lia.
  - pose proof (nth_error_lt _ _ _ Hp) as Hlen.
    destruct exhi; simpl; [|split; auto; lia]. split.
    + intros H1. destruct (nth_error_ex l (S p)) as [y Hy]; [lia|].
      exists y. split; [eapply nth_error_In; eauto|]. apply (ss_nth_lt l p (S p)); auto.
    + intros [y [Hy Hlt]]. apply In_nth_error in Hy. destruct Hy as [q Hq].
      pose proof (ss_nth_lt_inv _ _ _ _ _ Hs Hp Hq Hlt). pose proof (nth_error_lt _ _ _ Hq). lia.
Qed.

Lemma in_lslice : forall l lo hi exlo exhi x, ssorted l ->
  (In x (lslice l lo hi exlo exhi) <->
   In x l /\ Lpred l lo exlo (fst x) /\ Hpred l hi exhi (fst x)).
Proof.
  intros l lo hi exlo exhi x Hs. unfold lslice.
  assert (E: py_leaf_range V l lo hi exlo exhi =
             (fst (py_leaf_range V l lo None exlo false), snd (py_leaf_range V l None hi false exhi))).
  { unfold py_leaf_range. destruct lo, hi; reflexivity. }
  rewrite E. change (slice_nat l ?a ?b) with (seg l a b). rewrite in_seg. split.
  - intros [p [[H1 H2] Hp]]. split; [eapply nth_error_In; eauto|]. split.
    + apply (st_iff l lo exlo p x Hs Hp); auto.
    + apply (en_iff l hi exhi p x Hs Hp); auto.
  - intros [Hx [H1 H2]]. apply In_nth_error in Hx. destruct Hx as [p Hp]. exists p. split; auto. split.
    + apply (st_iff l lo exlo p x Hs Hp); auto.
    + apply (en_iff l hi exhi p x Hs Hp); auto.
Qed.

Lemma ss_lslice : forall l lo hi exlo exhi, ssorted l -> ssorted (lslice l lo hi exlo exhi).
Proof.
  intros. unfold lslice. destruct (py_leaf_range V l lo hi exlo exhi) as [a b].
  change (slice_nat l a b) with (seg l a b). apply ss_seg; auto.
Qed.

(* ---------- _TreeItems.__iter__ ---------- *)
Definition is_some (o : option Z) : bool := match o with None => false | Some _ => true end.
Definition is_last (rest : leafseq) : bool := match rest with [] => true | _ => false end.

Lemma py_iter_cons : forall l rest lo hi exlo exhi first done,
  py_iter V (l :: rest) lo hi exlo exhi first done =
  let out := lslice l lo hi (exlo && (first || is_some lo)) (exhi && (is_last rest || is_some hi)) in
  match out with
  | [] => if done then [] else py_iter V rest lo hi exlo exhi false true
  | _ => out ++ py_iter V rest lo hi exlo exhi false true
  end.
Proof.
  intros. cbn [py_iter]. unfold lslice, is_some, is_last.
  destruct (py_leaf_range V l lo hi _ _) as [a b]. reflexivity.
Qed.

Lemma py_iter_sub : forall ls lo hi exlo exhi first done, ssorted (concat ls) ->
  ssorted (py_iter V ls lo hi exlo exhi first done) /\
  (forall x, In x (py_iter V ls lo hi exlo exhi first done) -> In x (concat ls)).
Proof.
  induction ls as [|l rest IH]; intros lo hi exlo exhi first done Hs.
  - simpl. split; [apply ss_nil|auto].
  - rewrite py_iter_cons. cbv zeta. simpl concat in *.
    apply ss_app in Hs. destruct Hs as [Sl [Sr Sc]].
    destruct (IH lo hi exlo exhi false true Sr) as [I1 I2].
    set (out := lslice l lo hi (exlo && (first || is_some lo)) (exhi && (is_last rest || is_some hi))).
    assert (Ho: forall x, In x out -> In x l) by (intros x Hx; apply in_lslice in Hx; tauto).
    assert (So: ssorted out) by (apply ss_lslice; auto).
    assert (G: ssorted (out ++ py_iter V rest lo hi exlo exhi false true) /\
               forall x, In x (out ++ py_iter V rest lo hi exlo exhi false true) -> In x (l ++ concat rest)).
    { split.
      - apply ss_app. repeat split; auto.
      - intros x Hx. apply in_app_or in Hx. apply in_or_app. destruct Hx; auto. }
    destruct out as [|o out'] eqn:Eo; [|exact G].
    destruct done; [split; [apply ss_nil|intros x []]|]. exact G.
Qed.

Lemma Hpred_suffix : forall P S hi exhi x, ssorted (P ++ S) -> In x S ->
  (Hpred S hi exhi (fst x) <-> Hpred (P ++ S) hi exhi (fst x)).
Proof.
  intros P S hi exhi x Hs Hx. destruct hi as [b|]; simpl; [tauto|]. destruct exhi; [|tauto].
  apply ss_app in Hs. destruct Hs as [_ [_ Hc]]. split.
  - intros [y [Hy Hlt]]. exists y. split; auto. apply in_or_app; auto.
  - intros [y [Hy Hlt]]. exists y. split; auto. apply in_app_or in Hy. destruct Hy as [Hy|Hy]; auto.
    specialize (Hc y x Hy Hx). lia.
Qed.

Lemma Hpred_leaf : forall l rest hi exhi x, NE rest -> ssorted (l ++ concat rest) -> In x l ->
  (Hpred l hi (exhi && (is_last rest || is_some hi)) (fst x) <->
   Hpred (l ++ concat rest) hi exhi (fst x)).
Proof.
  intros l rest hi exhi x Hne Hs Hx. destruct hi as [b|].
  - simpl is_some. rewrite orb_true_r, andb_true_r. simpl. tauto.
  - simpl is_some. rewrite orb_false_r. destruct exhi; [|simpl; tauto].
    destruct rest as [|l2 rest].
    + simpl. rewrite app_nil_r. tauto.
    + simpl. split; auto. intros _. inversion Hne as [|? ? Hl2 _]; subst.
      destruct l2 as [|e l2]; [congruence|]. exists e. split.
      * apply in_or_app. right. left. auto.
      * apply ss_app in Hs. destruct Hs as [_ [_ Hc]]. apply Hc; auto. left. auto.
Qed.

Definition Lr (lo : option Z) (exlo : bool) (kx : Z) : Prop :=
  match lo with Some a => if exlo then a < kx else a <= kx | None => True end.

Lemma Lpred_later : forall l lo exlo kx, Lr lo exlo kx ->
  Lpred l lo (exlo && (false || is_some lo)) kx.
Proof.
  intros l [a|] exlo kx H; simpl.
  - rewrite andb_true_r. exact H.
  - rewrite andb_false_r. exact I.
Qed.

Lemma py_iter_later : forall ls lo hi exlo exhi, NE ls -> ssorted (concat ls) ->
  (forall x, In x (concat ls) -> Lr lo exlo (fst x)) ->
  forall x, In x (py_iter V ls lo hi exlo exhi false true) <->
            In x (concat ls) /\ Hpred (concat ls) hi exhi (fst x).
Proof.
  induction ls as [|l rest IH]; intros lo hi exlo exhi Hne Hs HL x.
  - simpl. tauto.
  - rewrite py_iter_cons. cbv zeta. simpl concat in *.
    inversion Hne as [|? ? Hl Hne']; subst.
    pose proof Hs as Hs'. apply ss_app in Hs'. destruct Hs' as [Sl [Sr Sc]].
    set (out := lslice l lo hi (exlo && (false || is_some lo)) (exhi && (is_last rest || is_some hi))).
    assert (Hout: forall x, In x out <-> In x l /\ Hpred (l ++ concat rest) hi exhi (fst x)).
    { intros y. subst out. rewrite in_lslice by auto. split.
      - intros [Hy [_ HH]]. split; auto. apply Hpred_leaf in HH; auto.
      - intros [Hy HH]. split; auto. split.
        + apply Lpred_later. apply HL. apply in_or_app; auto.
        + apply Hpred_leaf; auto. }
    assert (Hrec: forall x, In x (py_iter V rest lo hi exlo exhi false true) <->
                            In x (concat rest) /\ Hpred (l ++ concat rest) hi exhi (fst x)).
    { intros y. rewrite IH; auto.
      - split; intros [Hy HH]; split; auto.
        + apply (proj1 (Hpred_suffix l (concat rest) hi exhi y Hs Hy)); auto.
        + apply (proj2 (Hpred_suffix l (concat rest) hi exhi y Hs Hy)); auto.
      - intros z Hz. apply HL. apply in_or_app; auto. }
    destruct out as [|o out'] eqn:Eo.
    + split; [intros []|]. intros [Hx HH]. apply in_app_or in Hx. destruct Hx as [Hx|Hx].
      * apply (Hout x). auto.
      * destruct l as [|e0 l']; [congruence|].
        apply (Hout e0). split; [left; auto|].
        eapply Hpred_down; eauto. specialize (Sc e0 x (or_introl eq_refl) Hx). lia.
    + rewrite in_app_iff, Hout, Hrec, in_app_iff. tauto.
Qed.

Lemma py_iter_first : forall A l R lo hi exlo exhi,
  LS (A ++ l :: R) -> (lo = None -> A = []) ->
  (forall a, lo = Some a -> (forall x, In x (concat A) -> fst x < a) /\
                            (forall x, In x (concat R) -> a < fst x)) ->
  forall x, In x (py_iter V (l :: R) lo hi exlo exhi true false) <->
    In x (concat (A ++ l :: R)) /\ Lpred (concat (A ++ l :: R)) lo exlo (fst x) /\
    Hpred (concat (A ++ l :: R)) hi exhi (fst x).
Proof.
  intros A l R lo hi exlo exhi [_ [Hne Hss]] HN HS x.
  rewrite concat_app, concat_cons in *.
  pose proof Hss as Hss'. apply ss_app in Hss'. destruct Hss' as [SA [S2 SAX]].
  pose proof S2 as S2'. apply ss_app in S2'. destruct S2' as [Sl [SR SlR]].
  unfold NE in Hne. apply Forall_app in Hne. destruct Hne as [_ Hne].
  inversion Hne as [|? ? Hl HneR]; subst.
  assert (LA: forall y, In y l -> (Lpred l lo exlo (fst y) <-> Lpred (concat A ++ l ++ concat R) lo exlo (fst y))).
  { intros y Hy. destruct lo as [a|]; simpl; [tauto|]. destruct exlo; [|tauto].
    rewrite (HN eq_refl) in *. simpl. split.
    - intros [z [Hz Hlt]]. exists z. split; auto. apply in_or_app; auto.
    - intros [z [Hz Hlt]]. exists z. split; auto. apply in_app_or in Hz. destruct Hz as [Hz|Hz]; auto.
      specialize (SlR y z Hy Hz). lia. }
  assert (LB: forall y, In y (concat R) -> Lpred (concat A ++ l ++ concat R) lo exlo (fst y)).
  { intros y Hy. destruct lo as [a|]; simpl.
    - destruct (HS a eq_refl) as [_ H2]. specialize (H2 y Hy). destruct exlo; lia.
    - destruct exlo; auto. destruct l as [|e l']; [congruence|]. exists e. split.
      + apply in_or_app. right. left. auto.
      + apply SlR; auto. left; auto. }
  assert (LC: forall y, In y (concat A) -> ~ Lpred (concat A ++ l ++ concat R) lo exlo (fst y)).
  { intros y Hy. destruct lo as [a|]; simpl.
    - destruct (HS a eq_refl) as [H1 _]. specialize (H1 y Hy). destruct exlo; lia.
    - rewrite (HN eq_refl) in Hy. destruct Hy. }
  assert (HR: forall y, In y (py_iter V R lo hi exlo exhi false true) <->
                        In y (concat R) /\ Hpred (concat R) hi exhi (fst y)).
  { apply py_iter_later; auto. intros y Hy. destruct lo as [a|]; simpl; auto.
    destruct (HS a eq_refl) as [_ H2]. specialize (H2 y Hy). destruct exlo; lia. }
  rewrite py_iter_cons. cbv zeta. simpl orb. rewrite andb_true_r.
  set (out := lslice l lo hi exlo (exhi && (is_last R || is_some hi))).
  assert (Ho: forall y, In y out <-> In y l /\ Lpred l lo exlo (fst y) /\
                 Hpred l hi (exhi && (is_last R || is_some hi)) (fst y))
    by (intros y; apply in_lslice; auto).
  replace (match out with [] => py_iter V R lo hi exlo exhi false true
           | _ :: _ => out ++ py_iter V R lo hi exlo exhi false true end)
    with (out ++ py_iter V R lo hi exlo exhi false true) by (destruct out; reflexivity).
  rewrite in_app_iff, Ho, HR. split.
  - intros [[Hx [H1 H2]]|[Hx H2]].
    + split; [apply in_or_app; right; apply in_or_app; auto|]. split.
      * apply LA; auto.
      * apply (proj1 (Hpred_suffix (concat A) (l ++ concat R) hi exhi x Hss (in_or_app _ _ _ (or_introl Hx)))).
        apply (proj1 (Hpred_leaf l R hi exhi x HneR S2 Hx)). exact H2.
    + split; [apply in_or_app; right; apply in_or_app; auto|]. split.
      * apply LB; auto.
      * apply (proj1 (Hpred_suffix (concat A) (l ++ concat R) hi exhi x Hss (in_or_app _ _ _ (or_intror Hx)))).
        apply (proj1 (Hpred_suffix l (concat R) hi exhi x S2 Hx)). exact H2.
  - intros [Hx [H1 H2]]. apply in_app_or in Hx. destruct Hx as [Hx|Hx].
    + exfalso. apply (LC x Hx). exact H1.
    + apply (proj2 (Hpred_suffix (concat A) (l ++ concat R) hi exhi x Hss Hx)) in H2.
      apply in_app_or in Hx. destruct Hx as [Hx|Hx].
      * left. split; auto. split; [apply LA; auto|].
        apply (proj2 (Hpred_leaf l R hi exhi x HneR S2 Hx)). exact H2.
      * right. split; auto.
        apply (proj2 (Hpred_suffix l (concat R) hi exhi x S2 Hx)). exact H2.
Qed.

Lemma py_range_correct : forall (t : tree) (lo hi : option Z) (exlo exhi : bool),
  wf_search V t = true ->
  py_range V t lo hi exlo exhi = RSpec.range (contents V t) lo hi exlo exhi.
Proof.
  intros t lo hi exlo exhi H. destruct (wf_top t H) as [[E1 E2]|[HLS HFL]].
  - unfold py_range. rewrite E1, E2, range_nil. rewrite skipn_nil. reflexivity.
  - assert (D: exists A l R, lseq V t = A ++ l :: R /\
              length A = match lo with None => O | Some a => find_leaf V t a end /\
              (lo = None -> A = []) /\
              (forall a, lo = Some a -> (forall x, In x (concat A) -> fst x < a) /\
                                        (forall x, In x (concat R) -> a < fst x))).
    { destruct lo as [a|].
      - destruct (HFL a) as [A [l [R [E [Ej [HA HR]]]]]]. exists A, l, R.
        split; [auto|]. split; [auto|]. split; [discriminate|].
        intros a' Ea. inversion Ea; subst. split; auto.
      - destruct (LS_first _ HLS) as [e [l [r E]]]. exists [], (e :: l), r.
        split; [auto|]. split; [auto|]. split; [auto|]. intros a' Ea. discriminate. }
    destruct D as [A [l [R [E [Ej [HN HS]]]]]].
    unfold py_range. cbv zeta. rewrite <- Ej, <- concat_lseq, E, split_skipn.
    rewrite E in HLS. pose proof HLS as [_ [_ Hss]].
    apply ss_eq.
    + apply py_iter_sub. rewrite concat_app in Hss. apply ss_app in Hss. tauto.
    + apply range_sorted; auto.
    + intros x. rewrite range_in by auto. apply py_iter_first; auto.
Qed.

(* ---------- BTreeItems: length and seek ---------- *)
Lemma NE_nth : forall ls j, NE ls -> (j < length ls)%nat -> nth_leaf V ls j <> [].
Proof.
  intros ls j H Hj. unfold NE in H. rewrite Forall_forall in H. apply H.
  unfold nth_leaf. apply nth_In. auto.
Qed.

Lemma firstn_split : forall (ls : leafseq) j1 j2, (j1 <= j2)%nat ->
  firstn j2 ls = firstn j1 ls ++ firstn (j2 - j1) (skipn j1 ls).
Proof.
  induction ls as [|l r IH]; intros j1 j2 H.
  - rewrite skipn_nil, !firstn_nil. reflexivity.
  - destruct j1 as [|j1]; [simpl; rewrite Nat.sub_0_r; reflexivity|].
    destruct j2 as [|j2]; [lia|]. simpl. f_equal. apply IH. lia.
Qed.

Lemma c_len_eq : forall ls st lp hp, it_first st = lp -> it_last st = hp ->
  (fst lp <= fst hp)%nat ->
  c_len V ls st = (gidx ls hp + 1 - gidx ls lp)%nat.
Proof.
  intros ls st [j1 o1] [j2 o2] E1 E2 Hle. unfold c_len, gidx. rewrite E1, E2. simpl in *.
  destruct (Nat.eqb_spec j1 j2) as [->|Hn]; [lia|].
  rewrite (firstn_split ls j1 j2 Hle), concat_app, app_length. lia.
Qed.

Definition ItInv (ls : leafseq) (lp hp : nat * nat) (st : items) : Prop :=
  it_first st = lp /\ it_last st = hp /\ (exists e, entry ls (it_cur st) = Some e) /\
  (gidx ls lp <= gidx ls (it_cur st) <= gidx ls hp)%nat /\
  it_pseudo st = Z.of_nat (gidx ls (it_cur st)) - Z.of_nat (gidx ls lp).

Lemma seek_right_spec : forall ls s j2 o2 eh, NE ls -> it_last s = (j2, o2) ->
  entry ls (j2, o2) = Some eh ->
  forall fuel j off pseudo delta e,
  entry ls (j, off) = Some e -> (j <= j2)%nat -> 0 <= delta -> (length ls - j < fuel)%nat ->
  (Z.of_nat (gidx ls (j, off)) + delta <= Z.of_nat (gidx ls (j2, o2)) ->
     exists cur' e', seek_right V fuel ls s (j, off) pseudo delta = Some (cur', pseudo + delta) /\
       entry ls cur' = Some e' /\ Z.of_nat (gidx ls cur') = Z.of_nat (gidx ls (j, off)) + delta) /\
  (Z.of_nat (gidx ls (j2, o2)) < Z.of_nat (gidx ls (j, off)) + delta ->
     seek_right V fuel ls s (j, off) pseudo delta = None).
Proof.
  intros ls s j2 o2 eh Hne Hlast Heh.
  destruct (entry_valid _ _ _ _ Heh) as [Vj2 Vo2].
  induction fuel as [|f IH]; intros j off pseudo delta e He Hj Hd Hf; [lia|].
  destruct (entry_valid _ _ _ _ He) as [Vj Voff].
  cbn [seek_right fst snd]. rewrite Hlast. cbn [fst snd].
  unfold gidx in *. cbn [fst snd] in *.
  set (mx := Z.of_nat (length (nth_leaf V ls j)) - Z.of_nat off - 1).
  destruct (Z.leb_spec delta mx) as [Hle|Hgt].
  - destruct ((j =? j2)%nat && (o2 <? off + Z.to_nat delta)%nat) eqn:T.
    + apply andb_true_iff in T. destruct T as [T1 T2].
      apply Nat.eqb_eq in T1. apply Nat.ltb_lt in T2. subst j2.
      split; [intros; lia|reflexivity].
    + destruct (nth_error_ex (nth_leaf V ls j) (off + Z.to_nat delta)) as [e' He']; [subst mx; lia|].
      assert (G: (length (concat (firstn j ls)) + (off + Z.to_nat delta) <=
                  length (concat (firstn j2 ls)) + o2)%nat).
      { apply andb_false_iff in T. destruct (Nat.eq_dec j j2) as [->|Hn].
        - destruct T as [T|T]; [apply Nat.eqb_neq in T; congruence|]. apply Nat.ltb_ge in T. lia.
        - assert (Hlt: (j < j2)%nat) by lia.
          pose proof (gidx_lt_block ls j (off + Z.to_nat delta) e' j2 He' Hlt) as GB.
          unfold gidx in GB. simpl in GB. lia. }
      split; [|intros; lia]. intros _. exists (j, (off + Z.to_nat delta)%nat), e'.
      split; [reflexivity|]. split; [exact He'|]. cbn [fst snd]. lia.
  - destruct ((j =? j2)%nat || (length ls <=? S j)%nat) eqn:T.
    + split; [|reflexivity]. intros C. exfalso.
      assert (j = j2).
      { apply orb_true_iff in T. destruct T as [T|T]; [apply Nat.eqb_eq in T; auto|].
        apply Nat.leb_le in T. lia. }
      subst j2. subst mx. lia.
    + apply orb_false_iff in T. destruct T as [T1 T2].
      apply Nat.eqb_neq in T1. apply Nat.leb_gt in T2.
      assert (He1: exists e1, entry ls (S j, O) = Some e1).
      { pose proof (NE_nth ls (S j) Hne T2) as N. unfold entry. cbn [fst snd].
        destruct (nth_leaf V ls (S j)) as [|e1 ?]; [congruence|]. exists e1. reflexivity. }
      destruct He1 as [e1 He1].
      specialize (IH (S j) O (pseudo + mx + 1) (delta - (mx + 1)) e1 He1
                     ltac:(lia) ltac:(lia) ltac:(lia)).
      rewrite len_firstn_S in IH. destruct IH as [I1 I2]. split.
      * intros C. destruct I1 as [cur' [e' [Hs [He' Hg]]]]; [subst mx; lia|].
        exists cur', e'. split; [|split; auto].
        -- rewrite Hs. f_equal. f_equal. lia.
        -- subst mx. lia.
      * intros C. apply I2. subst mx. lia.
Qed.

Lemma seek_left_spec : forall ls s j1 o1 el, NE ls -> it_first s = (j1, o1) ->
  entry ls (j1, o1) = Some el ->
  forall fuel j off pseudo delta e,
  entry ls (j, off) = Some e -> (j1 <= j)%nat -> delta <= 0 -> (j < fuel)%nat ->
  (Z.of_nat (gidx ls (j1, o1)) <= Z.of_nat (gidx ls (j, off)) + delta ->
     exists cur' e', seek_left V fuel ls s (j, off) pseudo delta = Some (cur', pseudo + delta) /\
       entry ls cur' = Some e' /\ Z.of_nat (gidx ls cur') = Z.of_nat (gidx ls (j, off)) + delta) /\
  (Z.of_nat (gidx ls (j, off)) + delta < Z.of_nat (gidx ls (j1, o1)) ->
     seek_left V fuel ls s (j, off) pseudo delta = None).
Proof.
  intros ls s j1 o1 el Hne Hfirst Hel.
  destruct (entry_valid _ _ _ _ Hel) as [Vj1 Vo1].
  induction fuel as [|f IH]; intros j off pseudo delta e He Hj Hd Hf; [lia|].
  destruct (entry_valid _ _ _ _ He) as [Vj Voff].
  cbn [seek_left fst snd]. rewrite Hfirst. cbn [fst snd].
  unfold gidx in *. cbn [fst snd] in *.
  destruct (Z.leb_spec (- delta) (Z.of_nat off)) as [Hle|Hgt].
  - destruct ((j =? j1)%nat && (Z.to_nat (Z.of_nat off + delta) <? o1)%nat) eqn:T.
    + apply andb_true_iff in T. destruct T as [T1 T2].
      apply Nat.eqb_eq in T1. apply Nat.ltb_lt in T2. subst j1.
      split; [intros; lia|reflexivity].
    + destruct (nth_error_ex (nth_leaf V ls j) (Z.to_nat (Z.of_nat off + delta))) as [e' He']; [lia|].
      assert (G: (length (concat (firstn j1 ls)) + o1 <=
                  length (concat (firstn j ls)) + Z.to_nat (Z.of_nat off + delta))%nat).
      { apply andb_false_iff in T. destruct (Nat.eq_dec j j1) as [->|Hn].
        - destruct T as [T|T]; [apply Nat.eqb_neq in T; congruence|]. apply Nat.ltb_ge in T. lia.
        - assert (Hlt: (j1 < j)%nat) by lia.
          pose proof (gidx_lt_block ls j1 o1 el j Hel Hlt) as GB.
          unfold gidx in GB. simpl in GB. lia. }
      split; [|intros; lia]. intros _. exists (j, Z.to_nat (Z.of_nat off + delta)), e'.
      split; [reflexivity|]. split; [exact He'|]. cbn [fst snd]. lia.
  - destruct (Nat.eqb_spec j j1) as [->|Hn].
    + split; [|reflexivity]. intros C. exfalso. lia.
    + destruct j as [|p]; [lia|].
      assert (Vp: (p < length ls)%nat) by lia.
      pose proof (NE_nth ls p Hne Vp) as N.
      assert (He1: exists e1, entry ls (p, (length (nth_leaf V ls p) - 1)%nat) = Some e1).
      { unfold entry. cbn [fst snd]. apply nth_error_ex.
        destruct (nth_leaf V ls p); [congruence|]. simpl. lia. }
      destruct He1 as [e1 He1].
      assert (Lp: (0 < length (nth_leaf V ls p))%nat).
      { destruct (nth_leaf V ls p); [congruence|]. simpl. lia. }
      specialize (IH p (length (nth_leaf V ls p) - 1)%nat (pseudo - (Z.of_nat off + 1))
                     (delta + (Z.of_nat off + 1)) e1 He1 ltac:(lia) ltac:(lia) ltac:(lia)).
      rewrite len_firstn_S in *. destruct IH as [I1 I2]. split.
      * intros C. destruct I1 as [cur' [e' [Hs [He' Hg]]]]; [lia|].
        exists cur', e'. split; [|split; auto].
        -- rewrite Hs. f_equal. f_equal. lia.
        -- lia.
      * intros C. apply I2. lia.
Qed.

Lemma c_seek_spec : forall ls lp hp el eh st i, NE ls ->
  entry ls lp = Some el -> entry ls hp = Some eh -> ItInv ls lp hp st -> 0 <= i ->
  (i < Z.of_nat (gidx ls hp + 1 - gidx ls lp) ->
     exists st', c_seek V ls st i = Some st' /\ ItInv ls lp hp st' /\
                 Z.of_nat (gidx ls (it_cur st')) = Z.of_nat (gidx ls lp) + i) /\
  (Z.of_nat (gidx ls hp + 1 - gidx ls lp) <= i -> c_seek V ls st i = None).
Proof.
  intros ls [j1 o1] [j2 o2] el eh st i Hne Hel Heh [F [L [[e He] [Hb Hps]]]] Hi.
  destruct (it_cur st) as [j off] eqn:Ec.
  assert (Hj1: (j1 <= j)%nat) by (eapply (gidx_le_fst ls j1 o1 el j off e); eauto; lia).
  assert (Hj2: (j <= j2)%nat) by (eapply (gidx_le_fst ls j off e j2 o2 eh); eauto; lia).
  destruct (entry_valid _ _ _ _ He) as [Vj _].
  unfold c_seek. rewrite Ec. set (delta := i - it_pseudo st).
  destruct (Z.ltb_spec 0 delta) as [D1|D1].
  - destruct (seek_right_spec ls st j2 o2 eh Hne L Heh (S (length ls)) j off (it_pseudo st) delta e
                He Hj2 ltac:(lia) ltac:(lia)) as [R1 R2].
    split.
    + intros C. destruct R1 as [cur' [e' [Hs [He' Hg]]]]; [subst delta; lia|].
      rewrite Hs. eexists. split; [reflexivity|]. split.
      * unfold ItInv. cbn [it_first it_last it_cur it_pseudo].
        split; [auto|]. split; [auto|]. split; [eauto|]. split; [subst delta; lia|subst delta; lia].
      * cbn [it_cur]. subst delta. lia.
    + intros C. rewrite R2; [reflexivity|subst delta; lia].
  - destruct (Z.ltb_spec delta 0) as [D2|D2].
    + destruct (seek_left_spec ls st j1 o1 el Hne F Hel (S (length ls)) j off (it_pseudo st) delta e
                  He Hj1 ltac:(lia) ltac:(lia)) as [R1 R2].
      split; [|intros C; exfalso; subst delta; lia].
      intros C. destruct R1 as [cur' [e' [Hs [He' Hg]]]]; [subst delta; lia|].
      rewrite Hs. eexists. split; [reflexivity|]. split.
      * unfold ItInv. cbn [it_first it_last it_cur it_pseudo].
        split; [auto|]. split; [auto|]. split; [eauto|]. split; [subst delta; lia|subst delta; lia].
      * cbn [it_cur]. subst delta. lia.
    + split; [|intros C; exfalso; subst delta; lia].
      intros C. eexists. split; [reflexivity|]. split.
      * unfold ItInv. cbn [it_first it_last it_cur it_pseudo].
        split; [auto|]. split; [auto|]. split; [eauto|]. split; [lia|lia].
      * cbn [it_cur]. subst delta. lia.
Qed.

Lemma index_run_none : forall ls idx, c_index_run V ls None idx = map (RSpec.index []) idx.
Proof.
  intros ls. induction idx as [|i r IH]; [reflexivity|]. cbn [c_index_run map]. rewrite IH. f_equal.
  unfold RSpec.index. simpl length. cbv zeta.
  destruct ((if i <? 0 then i + Z.of_nat 0 else i) <? 0) eqn:E1; [reflexivity|].
  destruct (Z.of_nat 0 <=? (if i <? 0 then i + Z.of_nat 0 else i)) eqn:E2; [reflexivity|].
  apply Z.ltb_ge in E1. apply Z.leb_gt in E2. simpl in *. lia.
Qed.

Lemma c_index_run_spec : forall ls lp hp el eh, NE ls ->
  entry ls lp = Some el -> entry ls hp = Some eh -> (gidx ls lp <= gidx ls hp)%nat ->
  forall idx st, ItInv ls lp hp st ->
  c_index_run V ls (Some st) idx =
  map (RSpec.index (seg (concat ls) (gidx ls lp) (gidx ls hp + 1))) idx.
Proof.
  intros ls lp hp el eh Hne Hel Heh Hg.
  assert (Hfst: (fst lp <= fst hp)%nat).
  { destruct lp as [j1 o1], hp as [j2 o2]. eapply gidx_le_fst; eauto. }
  assert (Hlen: (gidx ls hp + 1 <= length (concat ls))%nat).
  { destruct hp as [j2 o2]. pose proof (gidx_lt_len _ _ _ _ Heh). lia. }
  induction idx as [|i r IH]; intros st Inv; [reflexivity|].
  cbn [c_index_run map]. pose proof Inv as [F [L _]].
  rewrite (c_len_eq ls st lp hp F L Hfst).
  set (n := Z.of_nat (gidx ls hp + 1 - gidx ls lp)).
  set (j := if i <? 0 then i + n else i).
  assert (Hidx: RSpec.index (seg (concat ls) (gidx ls lp) (gidx ls hp + 1)) i =
                if (j <? 0) || (n <=? j) then None
                else nth_error (seg (concat ls) (gidx ls lp) (gidx ls hp + 1)) (Z.to_nat j)).
  { unfold RSpec.index. rewrite (length_seg _ _ _ Hlen). reflexivity. }
  rewrite Hidx. clear Hidx.
  destruct (Z.ltb_spec j 0) as [J0|J0].
  - cbn [orb]. f_equal. apply IH; auto.
  - destruct (c_seek_spec ls lp hp el eh st j Hne Hel Heh Inv J0) as [S1 S2]. fold n in S1, S2.
    destruct (Z.leb_spec n j) as [Jn|Jn].
    + rewrite (S2 Jn). cbn [orb]. f_equal. apply IH; auto.
    + destruct (S1 Jn) as [st' [Hs [Inv' Hc]]]. rewrite Hs. cbn [orb]. f_equal; [|apply IH; auto].
      unfold c_entry. destruct Inv' as [_ [_ [[e' He'] _]]].
      destruct (it_cur st') as [j' off'] eqn:Ec.
      change (entry ls (j', off') = nth_error (seg (concat ls) (gidx ls lp) (gidx ls hp + 1)) (Z.to_nat j)).
      rewrite nth_error_seg. subst n.
      destruct (Nat.ltb_spec (Z.to_nat j) (gidx ls hp + 1 - gidx ls lp)); [|lia].
      rewrite He'. symmetry. apply entry_gidx in He'.
      replace (gidx ls lp + Z.to_nat j)%nat with (gidx ls (j', off')) by lia. exact He'.
Qed.

Lemma c_lazyseq_correct : forall (t : tree) (lo hi : option Z) (exlo exhi : bool) (idx : list Z),
  wf_search V t = true ->
  let l := RSpec.range (contents V t) lo hi exlo exhi in
  (match c_items_of V t lo hi exlo exhi with
   | Some s => c_len V (lseq V t) s = length l
   | None => l = []
   end) /\
  c_index_run V (lseq V t) (c_items_of V t lo hi exlo exhi) idx = map (RSpec.index l) idx.
Proof.
  intros t lo hi exlo exhi idx H. cbv zeta.
  destruct (wf_top t H) as [[E1 E2]|[HLS HFL]].
  - unfold c_items_of, c_range_ends. rewrite E1, E2, range_nil. split; auto. apply index_run_none.
  - pose proof (c_range_correct t lo hi exlo exhi H) as CR. unfold c_range in CR.
    pose proof HLS as [Hnn [Hne Hss]].
    unfold c_items_of. rewrite c_range_ends_eq in * by auto.
    pose proof (ends_ls_spec _ _ lo hi exlo exhi HLS HFL) as HS.
    destruct (ends_ls (lseq V t) (find_leaf V t) lo hi exlo exhi) as [[lp hp]|]; simpl in HS.
    + destruct HS as [el [eh [Hel [Heh [Hle _]]]]]. rewrite <- CR, between_seg.
      assert (Hg: (gidx (lseq V t) lp <= gidx (lseq V t) hp)%nat).
      { destruct lp as [j1 o1], hp as [j2 o2].
        eapply (ss_nth_le_inv (concat (lseq V t))); eauto using entry_gidx. }
      assert (Hfst: (fst lp <= fst hp)%nat).
      { destruct lp as [j1 o1], hp as [j2 o2]. eapply gidx_le_fst; eauto. }
      assert (Hlen: (gidx (lseq V t) hp + 1 <= length (concat (lseq V t)))%nat).
      { destruct hp as [j2 o2]. pose proof (gidx_lt_len _ _ _ _ Heh). lia. }
      split.
      * rewrite (c_len_eq (lseq V t) (mkItems lp hp lp 0) lp hp eq_refl eq_refl Hfst), length_seg; auto.
      * apply (c_index_run_spec _ lp hp el eh); auto.
        unfold ItInv. cbn [it_first it_last it_cur it_pseudo].
        split; [auto|]. split; [auto|]. split; [eauto|]. split; lia.
    + rewrite <- CR. split; auto. apply index_run_none.
Qed.

End RP.
