From Coq Require Import ZArith List Bool Arith Lia Sorted.
From BT Require Import Model.RTree Model.TreeSpec Model.Range.
Import ListNotations.
Open Scope Z_scope.

Section RP.
Variable V : Type.
Notation tree := (tree V).
Notation leafseq := (list (list (Z * V))).

Section TreeInd.
Variable P : tree -> Prop.
Hypothesis HL : forall i l, P (Leaf i l).
Hypothesis HN : forall i kids, Forall (fun sc => P (snd sc)) kids -> P (Node i kids).
Fixpoint tree_ind2 (t : tree) : P t :=
  match t with
  | Leaf i l => HL i l
  | Node i kids => HN i kids
      ((fix go (l : list (Z * tree)) : Forall (fun sc => P (snd sc)) l :=
          match l with
          | [] => Forall_nil _
          | (s, c) :: r => Forall_cons (s, c) (tree_ind2 c) (go r)
          end) kids)
  end.
End TreeInd.

Fixpoint wfs_kids (b0 : bool) (hi : option Z) (first : bool) (lo' : option Z) (l : list (Z * tree)) : bool :=
  match l with
  | [] => true
  | (s, c) :: rest =>
    let lo1 := if first then lo' else Some s in
    let hi1 := match rest with [] => hi | (s2, _) :: _ => Some s2 end in
    (first || within lo' hi s) && Bool.eqb (is_leaf V c) b0 &&
    wf_search_node V lo1 hi1 c && wfs_kids b0 hi false lo1 rest
  end.

Lemma wfs_node_eq : forall i kids lo hi,
  wf_search_node V lo hi (Node i kids) =
  negb (length kids =? 0)%nat &&
  match kids with [] => true | (_, c0) :: _ => wfs_kids (is_leaf V c0) hi true lo kids end.
Proof.
  intros i kids lo hi. destruct kids as [|[s0 c0] r]; [reflexivity|].
  cbn [wf_search_node wfs_kids]. f_equal. f_equal.
  match goal with |- ?f false lo r = _ =>
    assert (H: forall l first lo', f first lo' l = wfs_kids (is_leaf V c0) hi first lo' l) end.
  { induction l as [|[s c] rest IH]; intros; [reflexivity|].
    cbn [wfs_kids]. rewrite <- IH. reflexivity. }
  apply H.
Qed.
(* ---------- inv_wf_search ---------- *)
Fixpoint wfn_kids (ml mi : nat) (b0 : bool) (d0 : nat) (hi : option Z) (first : bool)
         (lo' : option Z) (l : list (Z * tree)) : bool :=
  match l with
  | [] => true
  | (s, c) :: rest =>
    let lo1 := if first then lo' else Some s in
    let hi1 := match rest with [] => hi | (s2, _) :: _ => Some s2 end in
    (first || (within lo' hi s && opt_eqb (tmin V c) s)) &&
    Bool.eqb (is_leaf V c) b0 && (depth V c =? d0)%nat &&
    wf_node V ml mi false lo1 hi1 c && wfn_kids ml mi b0 d0 hi false lo1 rest
  end.

Lemma wfn_node_eq : forall ml mi root i kids lo hi,
  wf_node V ml mi root lo hi (Node i kids) =
  negb (length kids =? 0)%nat &&
  (if root then (length kids <? 2 * mi)%nat else (length kids <=? mi)%nat) &&
  match kids with [] => true
  | (_, c0) :: _ => wfn_kids ml mi (is_leaf V c0) (depth V c0) hi true lo kids end.
Proof.
  intros ml mi root i kids lo hi. destruct kids as [|[s0 c0] r]; [reflexivity|].
  cbn [wf_node wfn_kids]. f_equal. f_equal.
  match goal with |- ?f false lo r = _ =>
    assert (H: forall l first lo', f first lo' l =
              wfn_kids ml mi (is_leaf V c0) (depth V c0) hi first lo' l) end.
  { induction l as [|[s c] rest IH]; intros; [reflexivity|].
    cbn [wfn_kids]. rewrite <- IH. reflexivity. }
  apply H.
Qed.

Lemma wfn_kids_search : forall ml mi b0 d0 hi l,
  Forall (fun sc : Z * tree => forall root lo hi,
            wf_node V ml mi root lo hi (snd sc) = true ->
            wf_search_node V lo hi (snd sc) = true) l ->
  forall lo' first, wfn_kids ml mi b0 d0 hi first lo' l = true ->
  wfs_kids b0 hi first lo' l = true.
Proof.
  intros ml mi b0 d0 hi.
  induction l as [|[s c] rest IHl]; intros IH lo' first H; [reflexivity|].
  inversion IH; subst. cbn [wfn_kids] in H. cbn [wfs_kids].
  repeat (apply andb_true_iff in H; destruct H as [H ?]).
  repeat (apply andb_true_iff; split); eauto.
  destruct first; [reflexivity|]. cbn in *. apply andb_true_iff in H. tauto.
Qed.

Lemma wf_node_search : forall ml mi t root lo hi,
  wf_node V ml mi root lo hi t = true -> wf_search_node V lo hi t = true.
Proof.
  intros ml mi t. induction t as [i l|i kids IH] using tree_ind2; intros root lo hi H.
  - cbn in *. repeat (apply andb_true_iff in H; destruct H as [H ?]).
    repeat (apply andb_true_iff; split); auto.
  - rewrite wfn_node_eq in H. rewrite wfs_node_eq.
    apply andb_true_iff in H. destruct H as [H H2].
    apply andb_true_iff in H. destruct H as [H H1].
    apply andb_true_iff; split; [exact H|].
    destruct kids as [|[s0 c0] r]; [reflexivity|].
    eapply wfn_kids_search; eauto.
Qed.

Lemma inv_wf_search : forall ml mi t, Inv V ml mi t -> wf_search V t = true.
Proof.
  intros ml mi t H. unfold Inv, wfb in H. unfold wf_search.
  destruct t as [|i [|k r]]; auto. eapply wf_node_search; eauto.
Qed.

(* ---------- sorted association lists ---------- *)
Definition klt (a b : Z * V) : Prop := fst a < fst b.
Definition ssorted (m : list (Z * V)) : Prop := StronglySorted klt m.

Lemma ss_nil : ssorted [].
Proof. constructor. Qed.

Lemma ss_cons_inv : forall x m, ssorted (x :: m) ->
  ssorted m /\ forall y, In y m -> fst x < fst y.
Proof.
  intros x m H. inversion H; subst. split; auto.
  intros y Hy. rewrite Forall_forall in H3. apply H3; auto.
Qed.

Lemma ss_cons : forall x m, ssorted m -> (forall y, In y m -> fst x < fst y) -> ssorted (x :: m).
Proof. intros x m H1 H2. constructor; auto. apply Forall_forall. exact H2. Qed.

Lemma ss_app : forall a b, ssorted (a ++ b) <->
  ssorted a /\ ssorted b /\ (forall x y, In x a -> In y b -> fst x < fst y).
Proof.
  induction a as [|x a IH]; intros b; simpl.
  - split; [intros H; repeat split; auto using ss_nil; intros ? ? []|tauto].
  - split.
    + intros H. apply ss_cons_inv in H. destruct H as [H1 H2].
      apply IH in H1. destruct H1 as [Ha [Hb Hab]].
      split; [|split]; auto.
      * apply ss_cons; auto. intros y Hy. apply H2. apply in_or_app; auto.
      * intros u v [->|Hu] Hv; [apply H2; apply in_or_app; auto|auto].
    + intros [Ha [Hb Hab]]. apply ss_cons_inv in Ha. destruct Ha as [Ha Hx].
      apply ss_cons.
      * apply IH. repeat split; auto.
      * intros y Hy. apply in_app_or in Hy. destruct Hy; auto.
Qed.

Lemma ss_of_bool : forall l, strictly_sorted_b (map fst l) = true -> ssorted l.
Proof.
  induction l as [|x l IH]; intros H; [apply ss_nil|].
  destruct l as [|y l'].
  - apply ss_cons; [apply ss_nil|intros ? []].
  - cbn in H. apply andb_true_iff in H. destruct H as [Hxy H].
    apply Z.ltb_lt in Hxy. specialize (IH H).
    apply ss_cons; auto. intros z [<-|Hz]; auto.
    apply ss_cons_inv in IH. destruct IH as [_ IH]. specialize (IH z Hz). lia.
Qed.

Lemma ss_firstn : forall n m, ssorted m -> ssorted (firstn n m).
Proof. intros n m H. rewrite <- (firstn_skipn n m) in H. apply ss_app in H. tauto. Qed.
Lemma ss_skipn : forall n m, ssorted m -> ssorted (skipn n m).
Proof. intros n m H. rewrite <- (firstn_skipn n m) in H. apply ss_app in H. tauto. Qed.

Lemma ss_filter : forall f m, ssorted m -> ssorted (filter f m).
Proof.
  induction m as [|x m IH]; intros H; simpl; auto.
  apply ss_cons_inv in H. destruct H as [H1 H2].
  destruct (f x); auto. apply ss_cons; auto.
  intros y Hy. apply filter_In in Hy. apply H2. tauto.
Qed.

Lemma ss_nth_lt : forall m i j x y, ssorted m ->
  nth_error m i = Some x -> nth_error m j = Some y -> (i < j)%nat -> fst x < fst y.
Proof.
  induction m as [|a m IH]; intros i j x y H Hi Hj Hlt.
  - destruct i; discriminate.
  - apply ss_cons_inv in H. destruct H as [H1 H2].
    destruct j as [|j]; [lia|]. simpl in Hj.
    destruct i as [|i]; simpl in Hi.
    + inversion Hi; subst. apply H2. eapply nth_error_In; eauto.
    + eapply IH; eauto. lia.
Qed.

Lemma ss_nth_le : forall m i j x y, ssorted m ->
  nth_error m i = Some x -> nth_error m j = Some y -> (i <= j)%nat -> fst x <= fst y.
Proof.
  intros m i j x y H Hi Hj Hle.
  destruct (Nat.eq_dec i j) as [->|Hn].
  - rewrite Hi in Hj. inversion Hj. lia.
  - assert (fst x < fst y) by (eapply ss_nth_lt; eauto; lia). lia.
Qed.

Lemma ss_nth_lt_inv : forall m i j x y, ssorted m ->
  nth_error m i = Some x -> nth_error m j = Some y -> fst x < fst y -> (i < j)%nat.
Proof.
  intros m i j x y H Hi Hj Hlt.
  destruct (le_lt_dec j i) as [Hle|]; auto.
  assert (fst y <= fst x) by (eapply ss_nth_le; eauto). lia.
Qed.

Lemma ss_nth_le_inv : forall m i j x y, ssorted m ->
  nth_error m i = Some x -> nth_error m j = Some y -> fst x <= fst y -> (i <= j)%nat.
Proof.
  intros m i j x y H Hi Hj Hlt.
  destruct (le_lt_dec i j) as [Hle|Hgt]; auto.
  assert (fst y < fst x) by (eapply ss_nth_lt; eauto). lia.
Qed.

Lemma ss_eq : forall a b, ssorted a -> ssorted b -> (forall x, In x a <-> In x b) -> a = b.
Proof.
  induction a as [|x a IH]; intros b Ha Hb Hab.
  - destruct b as [|y b]; auto. exfalso. apply (Hab y). left; auto.
  - destruct b as [|y b]. { exfalso. apply (Hab x). left; auto. }
    apply ss_cons_inv in Ha. destruct Ha as [Ha Hx].
    apply ss_cons_inv in Hb. destruct Hb as [Hb Hy].
    assert (x = y).
    { destruct (proj1 (Hab x) (or_introl eq_refl)) as [->|Hxb]; auto.
      destruct (proj2 (Hab y) (or_introl eq_refl)) as [->|Hya]; auto.
      specialize (Hx _ Hya). specialize (Hy _ Hxb). lia. }
    subst y. f_equal. apply IH; auto.
    intros z. split; intros Hz.
    + destruct (proj1 (Hab z) (or_intror Hz)) as [->|]; auto.
      specialize (Hx _ Hz). lia.
    + destruct (proj2 (Hab z) (or_intror Hz)) as [->|]; auto.
      specialize (Hy _ Hz). lia.
Qed.

(* ---------- the reference on sorted lists ---------- *)
Lemma in_tl_ss : forall m x, ssorted m ->
  (In x (tl m) <-> In x m /\ exists y, In y m /\ fst y < fst x).
Proof.
  intros [|h r] x H; simpl; [tauto|].
  apply ss_cons_inv in H. destruct H as [_ H]. split.
  - intros Hx. split; auto. exists h. split; auto.
  - intros [[->|Hx] [y [[->|Hy] Hlt]]]; auto; try lia.
    specialize (H _ Hy). lia.
Qed.

Lemma in_removelast_ss : forall m x, ssorted m ->
  (In x (removelast m) <-> In x m /\ exists y, In y m /\ fst x < fst y).
Proof.
  intros m x H. destruct m as [|h r] using rev_ind; simpl; [tauto|]. clear IHr.
  rewrite removelast_last. apply ss_app in H. destruct H as [_ [_ H]].
  split.
  - intros Hx. split; [apply in_or_app; auto|]. exists h. split.
    + apply in_or_app; right; left; auto.
    + apply H; simpl; auto.
  - intros [Hx [y [Hy Hlt]]]. apply in_app_or in Hx. destruct Hx as [Hx|[->|[]]]; auto.
    apply in_app_or in Hy. destruct Hy as [Hy|[->|[]]]; [|lia].
    specialize (H y x Hy (or_introl eq_refl)). lia.
Qed.

Lemma ss_tl : forall m, ssorted m -> ssorted (tl m).
Proof. intros m H. replace (tl m) with (skipn 1 m) by (destruct m; reflexivity). apply ss_skipn; auto. Qed.

Lemma ss_removelast : forall m, ssorted m -> ssorted (removelast m).
Proof.
  intros m H. destruct m as [|h r] using rev_ind; auto.
  rewrite removelast_last. apply ss_app in H. tauto.
Qed.

Definition Lpred (m : list (Z * V)) (lo : option Z) (exlo : bool) (kx : Z) : Prop :=
  match lo with
  | Some a => if exlo then a < kx else a <= kx
  | None => if exlo then exists y, In y m /\ fst y < kx else True
  end.
Definition Hpred (m : list (Z * V)) (hi : option Z) (exhi : bool) (kx : Z) : Prop :=
  match hi with
  | Some b => if exhi then kx < b else kx <= b
  | None => if exhi then exists y, In y m /\ kx < fst y else True
  end.

Lemma Lpred_up : forall m lo exlo a b, Lpred m lo exlo a -> a <= b -> Lpred m lo exlo b.
Proof.
  intros m [a0|] [|] a b; simpl; auto; try lia.
  intros [y [Hy Hlt]] Hab. exists y. split; auto. lia.
Qed.
Lemma Hpred_down : forall m hi exhi a b, Hpred m hi exhi b -> a <= b -> Hpred m hi exhi a.
Proof.
  intros m [a0|] [|] a b; simpl; auto; try lia.
  intros [y [Hy Hlt]] Hab. exists y. split; auto. lia.
Qed.

Lemma range_sorted : forall m lo hi exlo exhi, ssorted m ->
  ssorted (RSpec.range m lo hi exlo exhi).
Proof.
  intros m lo hi exlo exhi H. unfold RSpec.range, RSpec.drop_last.
  apply ss_filter.
  destruct lo, hi, exlo, exhi; auto using ss_tl, ss_removelast.
Qed.

Lemma range_in : forall m lo hi exlo exhi x, ssorted m ->
  (In x (RSpec.range m lo hi exlo exhi) <->
   In x m /\ Lpred m lo exlo (fst x) /\ Hpred m hi exhi (fst x)).
Proof.
  intros m lo hi exlo exhi x H. unfold RSpec.range, RSpec.drop_last.
  rewrite filter_In.
  assert (Htl := in_tl_ss m x H).
  assert (Hrl := in_removelast_ss m x H).
  assert (Hrt := in_removelast_ss (tl m) x (ss_tl _ H)).
  destruct lo as [a|], hi as [b|], exlo, exhi; simpl;
    rewrite ?andb_true_iff, ?Z.ltb_lt, ?Z.leb_le; try tauto.
  - (* None None true true *)
    rewrite Hrt, Htl. split.
    + intros [[[Hx Hl] [y [Hy Hlt]]] _]. repeat split; auto.
      exists y. split; auto. apply in_tl_ss in Hy; tauto.
    + intros [Hx [Hl [y [Hy Hlt]]]]. repeat split; auto.
      exists y. split; auto. apply in_tl_ss; auto. split; auto.
      exists x. auto.
Qed.

(* ---------- min_key / max_key semantically ---------- *)
Definition hdkey (m : list (Z * V)) : option Z := match m with [] => None | (k, _) :: _ => Some k end.
Definition lastkey (m : list (Z * V)) : option Z := hdkey (rev m).

Lemma lastkey_last : forall a z, lastkey (a ++ [z]) = Some (fst z).
Proof. intros a [k v]. unfold lastkey. rewrite rev_app_distr. reflexivity. Qed.

Lemma hdkey_min : forall f e, ssorted f -> In e f -> (forall y, In y f -> fst e <= fst y) ->
  hdkey f = Some (fst e).
Proof.
  intros [|[k v] r] e H He Hmin; [destruct He|]. simpl.
  apply ss_cons_inv in H. destruct H as [_ H].
  destruct He as [<-|He]; auto.
  specialize (H _ He). specialize (Hmin (k, v) (or_introl eq_refl)). simpl in *. lia.
Qed.

Lemma lastkey_max : forall f e, ssorted f -> In e f -> (forall y, In y f -> fst y <= fst e) ->
  lastkey f = Some (fst e).
Proof.
  intros f e H He Hmax. destruct f as [|z r] using rev_ind; [destruct He|]. clear IHr.
  rewrite lastkey_last. apply ss_app in H. destruct H as [_ [_ H]].
  apply in_app_or in He. destruct He as [He|[->|[]]]; auto.
  specialize (H e z He (or_introl eq_refl)).
  assert (In z (r ++ [z])) by (apply in_or_app; right; left; auto).
  specialize (Hmax z H0). lia.
Qed.

Lemma filter_nil : forall (f : Z * V -> bool) m, (forall y, In y m -> f y = false) -> filter f m = [].
Proof.
  induction m as [|x m IH]; intros H; simpl; auto.
  rewrite (H x (or_introl eq_refl)). apply IH. intros; apply H; right; auto.
Qed.

Lemma min_key_some : forall m x e, ssorted m -> In e m -> x <= fst e ->
  (forall y, In y m -> x <= fst y -> fst e <= fst y) ->
  RSpec.min_key m (Some x) = Some (fst e).
Proof.
  intros m x e H He Hx Hmin.
  change (hdkey (filter (fun kv : Z * V => x <=? fst kv) m) = Some (fst e)).
  apply hdkey_min.
  - apply ss_filter; auto.
  - apply filter_In. split; auto. apply Z.leb_le; auto.
  - intros y Hy. apply filter_In in Hy. destruct Hy as [Hy Hle]. apply Z.leb_le in Hle. auto.
Qed.

Lemma min_key_none : forall m x, (forall y, In y m -> fst y < x) -> @RSpec.min_key V m (Some x) = None.
Proof.
  intros m x H. unfold RSpec.min_key. rewrite filter_nil; auto.
  intros y Hy. apply Z.leb_gt. auto.
Qed.

Lemma max_key_some : forall m x e, ssorted m -> In e m -> fst e <= x ->
  (forall y, In y m -> fst y <= x -> fst y <= fst e) ->
  RSpec.max_key m (Some x) = Some (fst e).
Proof.
  intros m x e H He Hx Hmax.
  change (lastkey (filter (fun kv : Z * V => fst kv <=? x) m) = Some (fst e)).
  apply lastkey_max.
  - apply ss_filter; auto.
  - apply filter_In. split; auto. apply Z.leb_le; auto.
  - intros y Hy. apply filter_In in Hy. destruct Hy as [Hy Hle]. apply Z.leb_le in Hle. auto.
Qed.

Lemma max_key_none : forall m x, (forall y, In y m -> x < fst y) -> @RSpec.max_key V m (Some x) = None.
Proof.
  intros m x H. unfold RSpec.max_key. rewrite filter_nil; auto.
  intros y Hy. apply Z.leb_gt. auto.
Qed.

(* ---------- structure of well-formed trees ---------- *)
Notation wfs := (wf_search_node V).

Inductive kidsP (hi : option Z) : option Z -> list (Z * tree) -> Prop :=
| kp_one lo s c : wfs lo hi c = true -> kidsP hi lo [(s, c)]
| kp_cons lo s c s2 c2 rest :
    wfs lo (Some s2) c = true -> within lo hi s2 = true ->
    kidsP hi (Some s2) ((s2, c2) :: rest) ->
    kidsP hi lo ((s, c) :: (s2, c2) :: rest).

Lemma wfs_kids_cons : forall b0 hi first lo' s c rest,
  wfs_kids b0 hi first lo' ((s, c) :: rest) =
  (first || within lo' hi s) && Bool.eqb (is_leaf V c) b0 &&
  wfs (if first then lo' else Some s) (match rest with [] => hi | (s2, _) :: _ => Some s2 end) c &&
  wfs_kids b0 hi false (if first then lo' else Some s) rest.
Proof. reflexivity. Qed.

Lemma wfs_kids_P : forall b0 hi rest s c first lo',
  wfs_kids b0 hi first lo' ((s, c) :: rest) = true ->
  kidsP hi (if first then lo' else Some s) ((s, c) :: rest).
Proof.
  induction rest as [|[s2 c2] rest IH]; intros s c first lo' H; rewrite wfs_kids_cons in H;
    repeat (apply andb_true_iff in H; destruct H as [H ?]).
  - apply kp_one; auto.
  - apply kp_cons; auto.
    + rewrite wfs_kids_cons in H0. do 3 (apply andb_true_iff in H0; destruct H0 as [H0 ?]).
      exact H0.
    + apply (IH s2 c2 false _ H0).
Qed.

Lemma wfs_node_P : forall i kids lo hi, wfs lo hi (Node i kids) = true ->
  kids <> [] /\ kidsP hi lo kids.
Proof.
  intros i kids lo hi H. rewrite wfs_node_eq in H.
  destruct kids as [|[s0 c0] r]; [discriminate|]. simpl in H.
  split; [discriminate|]. apply (wfs_kids_P _ _ _ _ _ true lo H).
Qed.

Lemma within_iff : forall lo hi k, within lo hi k = true <->
  (match lo with Some a => a <= k | None => True end) /\
  (match hi with Some b => k < b | None => True end).
Proof.
  intros [a|] [b|] k; unfold within, above, below;
    rewrite ?andb_true_iff, ?Z.leb_le, ?Z.ltb_lt; tauto.
Qed.

Lemma within_l : forall lo hi s2 k, within lo hi s2 = true ->
  within lo (Some s2) k = true -> within lo hi k = true.
Proof. intros lo hi s2 k. rewrite !within_iff. destruct lo, hi; intros; split; try tauto; lia. Qed.
Lemma within_r : forall lo hi s2 k, within lo hi s2 = true ->
  within (Some s2) hi k = true -> within lo hi k = true.
Proof. intros lo hi s2 k. rewrite !within_iff. destruct lo, hi; intros; split; try tauto; lia. Qed.
Lemma within_lt : forall lo s2 k, within lo (Some s2) k = true -> k < s2.
Proof. intros lo s2 k. rewrite within_iff. tauto. Qed.
Lemma within_ge : forall hi s2 k, within (Some s2) hi k = true -> s2 <= k.
Proof. intros hi s2 k. rewrite within_iff. tauto. Qed.

Lemma lseq_node : forall i kids, lseq V (Node i kids) = flat_map (fun sc => lseq V (snd sc)) kids.
Proof.
  intros i kids. unfold lseq. cbn [leaves].
  induction kids as [|[s c] r IH]; simpl; auto. rewrite map_app, IH. reflexivity.
Qed.

Lemma concat_lseq : forall t, concat (lseq V t) = contents V t.
Proof.
  induction t as [i l|i kids IH] using tree_ind2.
  - unfold lseq. simpl. apply app_nil_r.
  - rewrite lseq_node. cbn [contents].
    induction IH as [|[s c] r Hc _ IHr]; simpl; auto.
    rewrite concat_app, IHr. simpl in Hc. rewrite Hc. reflexivity.
Qed.

Lemma length_lseq : forall t, length (lseq V t) = nleaves V t.
Proof.
  induction t as [i l|i kids IH] using tree_ind2; [reflexivity|].
  rewrite lseq_node. cbn [nleaves].
  induction IH as [|[s c] r Hc _ IHr]; simpl; auto.
  rewrite app_length, IHr. simpl in Hc. rewrite Hc. reflexivity.
Qed.

Definition NE (ls : leafseq) : Prop := Forall (fun l => l <> []) ls.

Definition WF (lo hi : option Z) (t : tree) : Prop :=
  (forall x, In x (contents V t) -> within lo hi (fst x) = true) /\
  ssorted (contents V t) /\ NE (lseq V t) /\ contents V t <> [] /\
  tmin V t = hdkey (contents V t).

Definition WFk (lo hi : option Z) (l : list (Z * tree)) : Prop :=
  (forall x, In x (flat_map (fun sc => contents V (snd sc)) l) -> within lo hi (fst x) = true) /\
  ssorted (flat_map (fun sc => contents V (snd sc)) l) /\
  NE (flat_map (fun sc => lseq V (snd sc)) l) /\
  flat_map (fun sc => contents V (snd sc)) l <> [] /\
  match l with [] => True
  | (_, c) :: _ => tmin V c = hdkey (flat_map (fun sc => contents V (snd sc)) l) end.

Lemma hdkey_app : forall a b, a <> [] -> hdkey (a ++ b) = hdkey a.
Proof. intros [|x a] b H; [congruence|reflexivity]. Qed.

Lemma kids_facts : forall hi lo l, kidsP hi lo l ->
  Forall (fun sc : Z * tree => forall lo hi, wfs lo hi (snd sc) = true -> WF lo hi (snd sc)) l ->
  WFk lo hi l.
Proof.
  intros hi lo l HP. induction HP as [lo s c Hc|lo s c s2 c2 rest Hc Hs2 HP IH]; intros HF.
  - inversion HF as [|? ? Hh _]; subst. destruct (Hh _ _ Hc) as [H1 [H2 [H3 [H4 H5]]]].
    unfold WFk. simpl. rewrite !app_nil_r. repeat split; auto.
  - inversion HF as [|? ? Hh Ht]; subst. destruct (Hh _ _ Hc) as [H1 [H2 [H3 [H4 H5]]]].
    destruct (IH Ht) as [K1 [K2 [K3 [K4 K5]]]]. clear IH Hh Ht HF.
    unfold WFk.
    change (flat_map (fun sc : Z * tree => contents V (snd sc)) ((s, c) :: (s2, c2) :: rest))
      with (contents V c ++ flat_map (fun sc : Z * tree => contents V (snd sc)) ((s2, c2) :: rest)).
    change (flat_map (fun sc : Z * tree => lseq V (snd sc)) ((s, c) :: (s2, c2) :: rest))
      with (lseq V c ++ flat_map (fun sc : Z * tree => lseq V (snd sc)) ((s2, c2) :: rest)).
    split; [|split; [|split; [|split]]].
    + intros x Hx. apply in_app_or in Hx. destruct Hx as [Hx|Hx].
      * eapply within_l; eauto.
      * eapply within_r; eauto.
    + apply ss_app. repeat split; auto. intros x y Hx Hy.
      apply H1 in Hx. apply K1 in Hy. apply within_lt in Hx. apply within_ge in Hy. lia.
    + apply Forall_app. split; auto.
    + intros E. apply app_eq_nil in E. tauto.
    + rewrite hdkey_app; auto.
Qed.

Lemma wf_facts : forall t lo hi, wfs lo hi t = true -> WF lo hi t.
Proof.
  induction t as [i l|i kids IH] using tree_ind2; intros lo hi H.
  - cbn in H. repeat (apply andb_true_iff in H; destruct H as [H ?]).
    unfold WF. cbn [contents tmin]. repeat split.
    + intros x Hx. rewrite forallb_forall in H0. apply H0. apply in_map; auto.
    + apply ss_of_bool; auto.
    + constructor; [|constructor]. simpl. intros E. subst l. discriminate.
    + intros E. subst l. discriminate.
  - apply wfs_node_P in H. destruct H as [Hne HP].
    destruct (kids_facts _ _ _ HP IH) as [K1 [K2 [K3 [K4 K5]]]].
    unfold WF. rewrite lseq_node. cbn [contents tmin]. repeat split; auto.
    destruct kids as [|[s c] r]; [congruence|]. exact K5.
Qed.

(* ---------- the descent ---------- *)
Fixpoint fl_kids (k : Z) (l : list (Z * tree)) : nat :=
  match l with
  | [] => O
  | (_, c) :: rest => if chosen V k rest then find_leaf V c k else (nleaves V c + fl_kids k rest)%nat
  end.

Lemma find_leaf_node : forall i kids k, find_leaf V (Node i kids) k = fl_kids k kids.
Proof.
  intros i kids k. cbn [find_leaf].
  induction kids as [|[s c] r IH]; [reflexivity|]. cbn [fl_kids]. rewrite <- IH. reflexivity.
Qed.

Definition FL (ls : leafseq) (k : Z) (j : nat) : Prop :=
  exists A l R, ls = A ++ l :: R /\ length A = j /\
    (forall x, In x (concat A) -> fst x < k) /\ (forall x, In x (concat R) -> k < fst x).

Lemma concat_flat_lseq : forall l : list (Z * tree),
  concat (flat_map (fun sc => lseq V (snd sc)) l) = flat_map (fun sc => contents V (snd sc)) l.
Proof.
  induction l as [|[s c] r IH]; simpl; auto. rewrite concat_app, IH, concat_lseq. reflexivity.
Qed.

Lemma kids_facts' : forall hi lo l, kidsP hi lo l -> WFk lo hi l.
Proof.
  intros hi lo l H. apply kids_facts; auto. apply Forall_forall. intros sc _ lo' hi'. apply wf_facts.
Qed.

Lemma fl_kids_FL : forall hi lo l, kidsP hi lo l ->
  Forall (fun sc : Z * tree => forall lo hi, wfs lo hi (snd sc) = true ->
            forall k, FL (lseq V (snd sc)) k (find_leaf V (snd sc) k)) l ->
  forall k, FL (flat_map (fun sc => lseq V (snd sc)) l) k (fl_kids k l).
Proof.
  intros hi lo l HP. induction HP as [lo s c Hc|lo s c s2 c2 rest Hc Hs2 HP IH]; intros HF k.
  - inversion HF as [|? ? Hh _]; subst. simpl in *. rewrite app_nil_r. apply (Hh _ _ Hc).
  - inversion HF as [|? ? Hh Ht]; subst. simpl in Hh.
    change (flat_map (fun sc : Z * tree => lseq V (snd sc)) ((s, c) :: (s2, c2) :: rest))
      with (lseq V c ++ flat_map (fun sc : Z * tree => lseq V (snd sc)) ((s2, c2) :: rest)).
    cbn [fl_kids chosen].
    destruct (kids_facts' _ _ _ HP) as [K1 _].
    destruct (wf_facts _ _ _ Hc) as [C1 _].
    destruct (k <? s2) eqn:E.
    + apply Z.ltb_lt in E. destruct (Hh _ _ Hc k) as [A [l [R [E1 [E2 [E3 E4]]]]]].
      exists A, l, (R ++ flat_map (fun sc : Z * tree => lseq V (snd sc)) ((s2, c2) :: rest)).
      repeat split; auto.
      * rewrite E1. rewrite <- app_assoc. reflexivity.
      * intros x Hx. rewrite concat_app in Hx. apply in_app_or in Hx. destruct Hx as [Hx|Hx]; auto.
        rewrite concat_flat_lseq in Hx. apply K1 in Hx. apply within_ge in Hx. lia.
    + apply Z.ltb_ge in E. destruct (IH Ht k) as [A [l [R [E1 [E2 [E3 E4]]]]]].
      exists (lseq V c ++ A), l, R. repeat split; auto.
      * rewrite E1. rewrite <- app_assoc. reflexivity.
      * rewrite app_length, E2, length_lseq. reflexivity.
      * intros x Hx. rewrite concat_app in Hx. apply in_app_or in Hx. destruct Hx as [Hx|Hx]; auto.
        rewrite concat_lseq in Hx. apply C1 in Hx. apply within_lt in Hx. lia.
Qed.

Lemma find_leaf_FL : forall t lo hi, wfs lo hi t = true ->
  forall k, FL (lseq V t) k (find_leaf V t k).
Proof.
  induction t as [i l|i kids IH] using tree_ind2; intros lo hi H k.
  - exists [], l, []. repeat split; auto; intros x [].
  - apply wfs_node_P in H. destruct H as [_ HP].
    rewrite lseq_node, find_leaf_node. eapply fl_kids_FL; eauto.
Qed.

(* ---------- BUCKET_SEARCH ---------- *)
Lemma bsearch_spec : forall l k i eq, ssorted l -> bsearch V l k = (i, eq) ->
  (i <= length l)%nat /\
  (forall p x, nth_error l p = Some x -> ((p < i)%nat <-> fst x < k)) /\
  (eq = true -> exists x, nth_error l i = Some x /\ fst x = k) /\
  (eq = false -> forall x, In x l -> fst x <> k).
Proof.
  induction l as [|[k' v] r IH]; intros k i eq Hs Hb; simpl in Hb.
  - inversion Hb; subst. repeat split; auto; try discriminate.
    + destruct p; discriminate.
    + destruct p; discriminate.
  - apply ss_cons_inv in Hs. destruct Hs as [Hs Hlt]. simpl in Hlt.
    destruct (Z.compare_spec k k') as [E|E|E].
    + inversion Hb; subst. repeat split; try lia; try discriminate.
      * intros Hk. destruct p as [|p]; simpl in H; [inversion H; subst; simpl in *; lia|].
        apply nth_error_In in H. apply Hlt in H. lia.
      * intros _. exists (k', v). auto.
    + inversion Hb; subst. repeat split; try lia; try discriminate.
      * intros Hk. destruct p as [|p]; simpl in H; [inversion H; subst; simpl in *; lia|].
        apply nth_error_In in H. apply Hlt in H. lia.
      * intros _ x [<-|Hx]; simpl; [lia|]. apply Hlt in Hx. lia.
    + destruct (bsearch V r k) as [i' e'] eqn:Eb. inversion Hb; subst.
      destruct (IH k i' eq Hs Eb) as [I1 [I2 [I3 I4]]].
      split; [simpl; lia|]. split; [|split].
      * intros p x Hp. destruct p as [|p]; simpl in Hp.
        -- inversion Hp; subst. simpl. split; intros; lia.
        -- rewrite <- (I2 p x Hp). split; intros; lia.
      * intros He. destruct (I3 He) as [x [Hx1 Hx2]]. exists x. auto.
      * intros He x [<-|Hx]; simpl; [lia|]. apply I4; auto.
Qed.

(* with eq = true, position i holds k: finer comparison *)
Lemma bsearch_pos : forall l k i eq, ssorted l -> bsearch V l k = (i, eq) ->
  forall p x, nth_error l p = Some x ->
  ((p < i)%nat <-> fst x < k) /\
  (eq = true -> ((p = i) <-> fst x = k) /\ ((i < p)%nat <-> k < fst x)) /\
  (eq = false -> ((i <= p)%nat <-> k < fst x)).
Proof.
  intros l k i eq Hs Hb p x Hp.
  destruct (bsearch_spec _ _ _ _ Hs Hb) as [B1 [B2 [B3 B4]]].
  pose proof (B2 p x Hp) as Hlt. split; auto. split.
  - intros He. destruct (B3 He) as [xi [Hi Hk]].
    assert (A1: (p = i) <-> fst x = k).
    { split; intros E.
      - subst p. rewrite Hp in Hi. inversion Hi; subst; auto.
      - destruct (Nat.lt_trichotomy p i) as [C|[C|C]]; auto.
        + apply Hlt in C. lia.
        + pose proof (ss_nth_lt _ _ _ _ _ Hs Hi Hp C). lia. }
    split; auto. split; intros C.
    + pose proof (ss_nth_lt _ _ _ _ _ Hs Hi Hp C). lia.
    + destruct (Nat.lt_trichotomy p i) as [C'|[C'|C']]; auto.
      * apply Hlt in C'. lia.
      * apply A1 in C'. lia.
  - intros He. pose proof (B4 He x (nth_error_In _ _ Hp)). split; intros C.
    + assert (~ fst x < k) by (rewrite <- Hlt; lia). lia.
    + assert (~ (p < i)%nat) by (rewrite Hlt; lia). lia.
Qed.

(* ---------- Bucket_findRangeEnd ---------- *)
Definition Lk (k : Z) (excl : bool) (kx : Z) : Prop := if excl then k < kx else k <= kx.
Definition Hk (k : Z) (excl : bool) (kx : Z) : Prop := if excl then kx < k else kx <= k.

Ltac bp_use BP p x Hp :=
  let P1 := fresh "P1" in let P2 := fresh "P2" in let P3 := fresh "P3" in
  destruct (BP p x Hp) as [P1 [P2 P3]];
  try specialize (P2 eq_refl); try specialize (P3 eq_refl).

Lemma nth_error_lt : forall (l : list (Z * V)) p x, nth_error l p = Some x -> (p < length l)%nat.
Proof. intros l p x H. apply nth_error_Some. congruence. Qed.

Lemma nth_error_ex : forall (l : list (Z * V)) p, (p < length l)%nat -> exists x, nth_error l p = Some x.
Proof.
  intros l p H. destruct (nth_error l p) eqn:E; eauto. apply nth_error_None in E. lia.
Qed.

Lemma bucket_fre_low : forall l k excl, ssorted l ->
  match bucket_fre V l k true excl with
  | Some off => exists e, nth_error l off = Some e /\ Lk k excl (fst e) /\
                 forall x, In x l -> Lk k excl (fst x) -> fst e <= fst x
  | None => forall x, In x l -> ~ Lk k excl (fst x)
  end.
Proof.
  intros l k excl Hs. unfold bucket_fre.
  destruct (bsearch V l k) as [i eq] eqn:Eb.
  pose proof (bsearch_pos _ _ _ _ Hs Eb) as BP.
  destruct (bsearch_spec _ _ _ _ Hs Eb) as [Bi _].
  set (t := if eq then (if excl then Z.of_nat i + 1 else Z.of_nat i) else Z.of_nat i).
  destruct ((0 <=? t) && (t <? Z.of_nat (length l))) eqn:C.
  - apply andb_true_iff in C. destruct C as [C1 C2]. apply Z.leb_le in C1. apply Z.ltb_lt in C2.
    destruct (nth_error_ex l (Z.to_nat t)) as [e He]; [lia|].
    exists e. split; auto. bp_use BP (Z.to_nat t) e He.
    split.
    + unfold Lk. subst t. destruct eq, excl; lia.
    + intros x Hx HL. apply In_nth_error in Hx. destruct Hx as [p Hp].
      bp_use BP p x Hp. apply (ss_nth_le l (Z.to_nat t) p); auto.
      unfold Lk in HL. subst t. destruct eq, excl; lia.
  - intros x Hx HL. apply In_nth_error in Hx. destruct Hx as [p Hp].
    pose proof (nth_error_lt _ _ _ Hp). bp_use BP p x Hp.
    apply andb_false_iff in C. rewrite Z.leb_gt, Z.ltb_ge in C.
    unfold Lk in HL. subst t. destruct eq, excl; lia.
Qed.

Lemma bucket_fre_high : forall l k excl, ssorted l ->
  match bucket_fre V l k false excl with
  | Some off => exists e, nth_error l off = Some e /\ Hk k excl (fst e) /\
                 forall x, In x l -> Hk k excl (fst x) -> fst x <= fst e
  | None => forall x, In x l -> ~ Hk k excl (fst x)
  end.
Proof.
  intros l k excl Hs. unfold bucket_fre.
  destruct (bsearch V l k) as [i eq] eqn:Eb.
  pose proof (bsearch_pos _ _ _ _ Hs Eb) as BP.
  destruct (bsearch_spec _ _ _ _ Hs Eb) as [Bi [_ [B3 _]]].
  assert (Bq: eq = true -> (i < length l)%nat).
  { intros E. destruct (B3 E) as [? [Hn _]]. eapply nth_error_lt; eauto. }
  set (t := if eq then (if excl then Z.of_nat i - 1 else Z.of_nat i) else Z.of_nat i - 1).
  destruct ((0 <=? t) && (t <? Z.of_nat (length l))) eqn:C.
  - apply andb_true_iff in C. destruct C as [C1 C2]. apply Z.leb_le in C1. apply Z.ltb_lt in C2.
    destruct (nth_error_ex l (Z.to_nat t)) as [e He]; [lia|].
    exists e. split; auto. bp_use BP (Z.to_nat t) e He.
    split.
    + unfold Hk. subst t. destruct eq, excl; lia.
    + intros x Hx HL. apply In_nth_error in Hx. destruct Hx as [p Hp].
      bp_use BP p x Hp. apply (ss_nth_le l p (Z.to_nat t)); auto.
      unfold Hk in HL. subst t. destruct eq, excl; lia.
  - intros x Hx HL. apply In_nth_error in Hx. destruct Hx as [p Hp].
    pose proof (nth_error_lt _ _ _ Hp). bp_use BP p x Hp.
    apply andb_false_iff in C. rewrite Z.leb_gt, Z.ltb_ge in C.
    unfold Hk in HL. subst t. destruct eq, excl; try specialize (Bq eq_refl); lia.
Qed.

(* ---------- positions in a leaf sequence ---------- *)
Definition entry (ls : leafseq) (p : nat * nat) : option (Z * V) :=
  nth_error (nth_leaf V ls (fst p)) (snd p).
Definition gidx (ls : leafseq) (p : nat * nat) : nat :=
  (length (concat (firstn (fst p) ls)) + snd p)%nat.

Lemma key_at_entry : forall ls p e, entry ls p = Some e -> key_at V ls p = fst e.
Proof. intros ls p [k v] H. unfold key_at. unfold entry in H. rewrite H. reflexivity. Qed.

Lemma entry_gidx : forall ls j off e, entry ls (j, off) = Some e ->
  nth_error (concat ls) (gidx ls (j, off)) = Some e.
Proof.
  unfold entry, gidx, nth_leaf. simpl.
  induction ls as [|l r IH]; intros j off e H.
  - destruct j, off; discriminate.
  - destruct j as [|j]; simpl in *.
    + rewrite nth_error_app1; auto. eapply nth_error_lt; eauto.
    + rewrite app_length, <- Nat.add_assoc, nth_error_app2 by lia.
      replace (length l + (length (concat (firstn j r)) + off) - length l)%nat
        with (length (concat (firstn j r)) + off)%nat by lia.
      apply IH; auto.
Qed.

Lemma entry_in : forall ls p e, entry ls p = Some e -> In e (concat ls).
Proof. intros ls [j off] e H. apply entry_gidx in H. eapply nth_error_In; eauto. Qed.

Lemma entry_valid : forall ls j off e, entry ls (j, off) = Some e ->
  (j < length ls)%nat /\ (off < length (nth_leaf V ls j))%nat.
Proof.
  unfold entry. simpl. intros ls j off e H. split; [|eapply nth_error_lt; eauto].
  destruct (le_lt_dec (length ls) j); auto. unfold nth_leaf in H.
  rewrite nth_overflow in H by lia. destruct off; discriminate.
Qed.

Lemma len_firstn_S : forall (ls : leafseq) j,
  length (concat (firstn (S j) ls)) =
  (length (concat (firstn j ls)) + length (nth_leaf V ls j))%nat.
Proof.
  unfold nth_leaf. induction ls as [|l r IH]; intros j.
  - destruct j; reflexivity.
  - destruct j as [|j].
    + simpl. rewrite app_nil_r. reflexivity.
    + rewrite (firstn_cons (S j) l r), (firstn_cons j l r).
      change (nth (S j) (l :: r) []) with (nth j r []).
      rewrite !concat_cons, !app_length, IH. lia.
Qed.

Lemma len_firstn_mono : forall (ls : leafseq) j j', (j <= j')%nat ->
  (length (concat (firstn j ls)) <= length (concat (firstn j' ls)))%nat.
Proof.
  intros ls j j' H. induction H; auto. rewrite len_firstn_S. lia.
Qed.

Lemma len_firstn_all : forall (ls : leafseq) j, (length ls <= j)%nat ->
  length (concat (firstn j ls)) = length (concat ls).
Proof. intros ls j H. rewrite firstn_all2; auto. Qed.

Lemma gidx_lt_block : forall ls j off e j', entry ls (j, off) = Some e -> (j < j')%nat ->
  (gidx ls (j, off) < length (concat (firstn j' ls)))%nat.
Proof.
  intros ls j off e j' H Hlt. apply entry_valid in H. destruct H as [_ H].
  unfold gidx. simpl. pose proof (len_firstn_mono ls (S j) j' Hlt) as M.
  rewrite len_firstn_S in M. lia.
Qed.

Lemma gidx_lt_len : forall ls j off e, entry ls (j, off) = Some e ->
  (gidx ls (j, off) < length (concat ls))%nat.
Proof.
  intros ls j off e H. apply entry_gidx in H. eapply nth_error_lt; eauto.
Qed.

Lemma gidx_le_fst : forall ls j off e j' off' e', entry ls (j, off) = Some e ->
  entry ls (j', off') = Some e' -> (gidx ls (j, off) <= gidx ls (j', off'))%nat -> (j <= j')%nat.
Proof.
  intros ls j off e j' off' e' H H' Hle. destruct (le_lt_dec j j') as [|Hlt]; auto.
  pose proof (gidx_lt_block _ _ _ _ _ H' Hlt). unfold gidx in *. simpl in *. lia.
Qed.

(* decomposition around leaf j *)
Lemma split_nth : forall (A : leafseq) l R, nth_leaf V (A ++ l :: R) (length A) = l.
Proof. intros. unfold nth_leaf. apply nth_middle. Qed.
Lemma split_firstn : forall (A : leafseq) X, firstn (length A) (A ++ X) = A.
Proof. intros. rewrite firstn_app, Nat.sub_diag, firstn_all. simpl. apply app_nil_r. Qed.
Lemma split_skipn : forall (A : leafseq) X, skipn (length A) (A ++ X) = X.
Proof. intros. rewrite skipn_app, Nat.sub_diag, skipn_all. reflexivity. Qed.

(* ---------- BTree_findRangeEnd ---------- *)
Definition LS (ls : leafseq) : Prop := ls <> [] /\ NE ls /\ ssorted (concat ls).

Definition fre_ls (ls : leafseq) (j : nat) (k : Z) (low excl : bool) : option (nat * nat) :=
  match bucket_fre V (nth_leaf V ls j) k low excl with
  | Some off => Some (j, off)
  | None => if low then (if (S j <? length ls)%nat then Some (S j, O) else None)
            else match j with O => None | S p => Some (p, (length (nth_leaf V ls p) - 1)%nat) end
  end.

Lemma c_fre_eq : forall t k low excl, lseq V t <> [] ->
  c_fre V t k low excl = fre_ls (lseq V t) (find_leaf V t k) k low excl.
Proof. intros t k low excl H. unfold c_fre, fre_ls. destruct (lseq V t); [congruence|reflexivity]. Qed.

Definition low_spec (ls : leafseq) (L : Z -> Prop) (r : option (nat * nat)) : Prop :=
  match r with
  | Some p => exists e, entry ls p = Some e /\ L (fst e) /\
                forall x, In x (concat ls) -> L (fst x) -> fst e <= fst x
  | None => forall x, In x (concat ls) -> ~ L (fst x)
  end.
Definition high_spec (ls : leafseq) (H : Z -> Prop) (r : option (nat * nat)) : Prop :=
  match r with
  | Some p => exists e, entry ls p = Some e /\ H (fst e) /\
                forall x, In x (concat ls) -> H (fst x) -> fst x <= fst e
  | None => forall x, In x (concat ls) -> ~ H (fst x)
  end.

Lemma split_nth_S : forall (A : leafseq) l l2 R, nth_leaf V (A ++ l :: l2 :: R) (S (length A)) = l2.
Proof.
  intros. replace (A ++ l :: l2 :: R) with ((A ++ [l]) ++ l2 :: R) by (rewrite <- app_assoc; reflexivity).
  replace (S (length A)) with (length (A ++ [l])) by (rewrite app_length; simpl; lia).
  apply split_nth.
Qed.

Lemma Lk_ge : forall k excl x, Lk k excl x -> k <= x.
Proof. intros k [|] x; unfold Lk; lia. Qed.
Lemma Hk_le : forall k excl x, Hk k excl x -> x <= k.
Proof. intros k [|] x; unfold Hk; lia. Qed.
Lemma Lk_gt : forall k excl x, k < x -> Lk k excl x.
Proof. intros k [|] x; unfold Lk; lia. Qed.
Lemma Hk_lt : forall k excl x, x < k -> Hk k excl x.
Proof. intros k [|] x; unfold Hk; lia. Qed.

Lemma fre_low : forall ls j k excl, LS ls -> FL ls k j ->
  low_spec ls (Lk k excl) (fre_ls ls j k true excl).
Proof.
  intros ls j k excl [Hnn [Hne Hss]] [A [l [R [E [Ej [HA HR]]]]]]. subst ls j.
  rewrite concat_app, concat_cons in Hss.
  apply ss_app in Hss. destruct Hss as [SA [Hss SAX]].
  apply ss_app in Hss. destruct Hss as [Sl [SR SlR]].
  unfold fre_ls. rewrite split_nth.
  pose proof (bucket_fre_low l k excl Sl) as HB.
  destruct (bucket_fre V l k true excl) as [off|].
  - destruct HB as [e [He [HL Hmin]]]. exists e. split; [|split]; auto.
    + unfold entry. simpl. rewrite split_nth. auto.
    + intros x Hx HLx. rewrite concat_app, concat_cons in Hx.
      apply in_app_or in Hx. destruct Hx as [Hx|Hx].
      * apply HA in Hx. apply Lk_ge in HLx. lia.
      * apply in_app_or in Hx. destruct Hx as [Hx|Hx]; auto.
        apply nth_error_In in He. specialize (SlR _ _ He Hx). lia.
  - destruct R as [|l2 R].
    + rewrite app_length. simpl length.
      destruct (Nat.ltb_spec (S (length A)) (length A + 1)); [lia|].
      intros x Hx HLx. rewrite concat_app, concat_cons in Hx.
      apply in_app_or in Hx. destruct Hx as [Hx|Hx].
      * apply HA in Hx. apply Lk_ge in HLx. lia.
      * simpl in Hx. rewrite app_nil_r in Hx. apply (HB x); auto.
    + rewrite app_length. simpl length.
      destruct (Nat.ltb_spec (S (length A)) (length A + S (S (length R)))); [|lia].
      assert (Hl2: l2 <> []).
      { unfold NE in Hne. rewrite Forall_forall in Hne. apply Hne.
        apply in_or_app. right. right. left. auto. }
      destruct l2 as [|e l2]; [congruence|].
      exists e. split; [|split].
      * unfold entry. simpl. rewrite split_nth_S. reflexivity.
      * apply Lk_gt. apply HR. simpl. auto.
      * intros x Hx HLx. rewrite concat_app, concat_cons in Hx.
        apply in_app_or in Hx. destruct Hx as [Hx|Hx].
        -- apply HA in Hx. apply Lk_ge in HLx. lia.
        -- apply in_app_or in Hx. destruct Hx as [Hx|Hx]; [exfalso; apply (HB x); auto|].
           simpl in Hx, SR. apply ss_cons_inv in SR. destruct SR as [_ SR].
           destruct Hx as [<-|Hx]; [lia|]. specialize (SR _ Hx). lia.
Qed.

Lemma split_nth_P : forall (A : leafseq) l1 X, nth_leaf V ((A ++ [l1]) ++ X) (length A) = l1.
Proof. intros. rewrite <- app_assoc. simpl. apply split_nth. Qed.

Lemma nth_error_last : forall (l : list (Z * V)) e, nth_error (l ++ [e]) (length (l ++ [e]) - 1) = Some e.
Proof.
  intros. rewrite app_length. simpl. rewrite nth_error_app2 by lia.
  replace (length l + 1 - 1 - length l)%nat with O by lia. reflexivity.
Qed.

Lemma fre_high : forall ls j k excl, LS ls -> FL ls k j ->
  high_spec ls (Hk k excl) (fre_ls ls j k false excl).
Proof.
  intros ls j k excl [Hnn [Hne Hss]] [A [l [R [E [Ej [HA HR]]]]]]. subst ls j.
  rewrite concat_app, concat_cons in Hss.
  apply ss_app in Hss. destruct Hss as [SA [Hss SAX]].
  apply ss_app in Hss. destruct Hss as [Sl [SR SlR]].
  unfold fre_ls. rewrite split_nth.
  pose proof (bucket_fre_high l k excl Sl) as HB.
  destruct (bucket_fre V l k false excl) as [off|].
  - destruct HB as [e [He [HL Hmax]]]. exists e. split; [|split]; auto.
    + unfold entry. simpl. rewrite split_nth. auto.
    + intros x Hx HLx. rewrite concat_app, concat_cons in Hx.
      apply in_app_or in Hx. destruct Hx as [Hx|Hx].
      * apply nth_error_In in He. assert (In e (l ++ concat R)) by (apply in_or_app; auto).
        specialize (SAX _ _ Hx H). lia.
      * apply in_app_or in Hx. destruct Hx as [Hx|Hx]; auto.
        apply HR in Hx. apply Hk_le in HLx. lia.
  - assert (Hrest: forall x, In x (l ++ concat R) -> ~ Hk k excl (fst x)).
    { intros x Hx HLx. apply in_app_or in Hx. destruct Hx as [Hx|Hx]; [apply (HB x); auto|].
      apply HR in Hx. apply Hk_le in HLx. lia. }
    destruct A as [|l1 A] using rev_ind.
    + simpl. intros x Hx. apply Hrest. auto.
    + clear IHA. rewrite app_length. simpl length. rewrite Nat.add_1_r.
      rewrite split_nth_P.
      assert (Hl1: l1 <> []).
      { unfold NE in Hne. rewrite Forall_forall in Hne. apply Hne.
        apply in_or_app. left. apply in_or_app. right. left. auto. }
      destruct l1 as [|e l1] using rev_ind; [congruence|]. clear IHl1.
      exists e. split; [|split].
      * unfold entry. simpl. rewrite split_nth_P. apply nth_error_last.
      * apply Hk_lt. apply HA. rewrite concat_app. apply in_or_app. right. simpl.
        rewrite app_nil_r. apply in_or_app. right. left. auto.
      * intros x Hx HLx. rewrite concat_app, concat_cons in Hx.
        apply in_app_or in Hx. destruct Hx as [Hx|Hx]; [|exfalso; apply (Hrest x); auto].
        rewrite concat_app in Hx, SA. simpl in Hx, SA. rewrite app_nil_r in Hx, SA.
        rewrite app_assoc in Hx, SA. apply ss_app in SA. destruct SA as [_ [_ SA]].
        apply in_app_or in Hx. destruct Hx as [Hx|[<-|[]]]; [|lia].
        specialize (SA x e Hx (or_introl eq_refl)). lia.
Qed.

(* ---------- top level: what wf_search gives ---------- *)
Lemma wf_top : forall t, wf_search V t = true ->
  (lseq V t = [] /\ contents V t = []) \/
  (LS (lseq V t) /\ forall k, FL (lseq V t) k (find_leaf V t k)).
Proof.
  intros t H. unfold wf_search in H. destruct t as [|i [|sc r]]; [discriminate|left; auto|].
  right. destruct (wf_facts _ _ _ H) as [_ [H2 [H3 [H4 _]]]]. split.
  - split; [|split]; auto.
    + intros E. apply H4. rewrite <- concat_lseq, E. reflexivity.
    + rewrite concat_lseq. auto.
  - intros k. eapply find_leaf_FL; eauto.
Qed.

Lemma LS_first : forall ls, LS ls -> exists e l r, ls = (e :: l) :: r.
Proof.
  intros [|[|e l] r] [H1 [H2 _]]; [congruence| |eauto].
  inversion H2; congruence.
Qed.

Lemma LS_last : forall ls, LS ls -> exists A l e, ls = A ++ [l ++ [e]].
Proof.
  intros ls [H1 [H2 _]]. destruct ls as [|l1 A] using rev_ind; [congruence|]. clear IHA.
  unfold NE in H2. rewrite Forall_forall in H2.
  assert (l1 <> []) by (apply H2; apply in_or_app; right; left; auto).
  destruct l1 as [|e l] using rev_ind; [congruence|]. eauto.
Qed.

Lemma last_entry : forall (A : leafseq) l e,
  let ls := A ++ [l ++ [e]] in
  entry ls ((length ls - 1)%nat, (length (nth_leaf V ls (length ls - 1)) - 1)%nat) = Some e /\
  concat ls = (concat A ++ l) ++ [e].
Proof.
  intros A l e ls. subst ls. split.
  - unfold entry. simpl. rewrite app_length. simpl. rewrite Nat.add_sub.
    rewrite split_nth. apply nth_error_last.
  - rewrite concat_app. simpl. rewrite app_nil_r, app_assoc. reflexivity.
Qed.

Lemma c_minkey_eq : forall t b, lseq V t <> [] ->
  c_minkey V t b =
  match b with
  | None => Some (key_at V (lseq V t) (O, O))
  | Some x => match fre_ls (lseq V t) (find_leaf V t x) x true false with
              | Some p => Some (key_at V (lseq V t) p) | None => None end
  end.
Proof. intros t b H. unfold c_minkey, c_fre, fre_ls. destruct (lseq V t); [congruence|reflexivity]. Qed.

Lemma c_maxkey_eq : forall t b, lseq V t <> [] ->
  c_maxkey V t b =
  match b with
  | None => let ls := lseq V t in let j := (length ls - 1)%nat in
            Some (key_at V ls (j, (length (nth_leaf V ls j) - 1)%nat))
  | Some x => match fre_ls (lseq V t) (find_leaf V t x) x false false with
              | Some p => Some (key_at V (lseq V t) p) | None => None end
  end.
Proof. intros t b H. unfold c_maxkey, c_fre, fre_ls. destruct (lseq V t); [congruence|reflexivity]. Qed.

Lemma c_minmax_correct : forall (t : tree) (b : option Z), wf_search V t = true ->
  c_minkey V t b = RSpec.min_key (contents V t) b /\
  c_maxkey V t b = RSpec.max_key (contents V t) b.
Proof.
  intros t b H. destruct (wf_top t H) as [[E1 E2]|[HLS HFL]].
  - unfold c_minkey, c_maxkey. rewrite E1, E2. destruct b; auto.
  - pose proof HLS as [Hnn [Hne Hss]]. rewrite <- concat_lseq.
    rewrite c_minkey_eq, c_maxkey_eq by auto. destruct b as [x|].
    + split.
      * pose proof (fre_low _ _ x false HLS (HFL x)) as HS.
        destruct (fre_ls (lseq V t) (find_leaf V t x) x true false) as [p|]; simpl in HS.
        -- destruct HS as [e [He [HL Hmin]]]. rewrite (key_at_entry _ _ _ He).
           symmetry. apply min_key_some; auto. eapply entry_in; eauto.
        -- symmetry. apply min_key_none. intros y Hy. specialize (HS y Hy). unfold Lk in HS. lia.
      * pose proof (fre_high _ _ x false HLS (HFL x)) as HS.
        destruct (fre_ls (lseq V t) (find_leaf V t x) x false false) as [p|]; simpl in HS.
        -- destruct HS as [e [He [HL Hmax]]]. rewrite (key_at_entry _ _ _ He).
           symmetry. apply max_key_some; auto. eapply entry_in; eauto.
        -- symmetry. apply max_key_none. intros y Hy. specialize (HS y Hy). unfold Hk in HS. lia.
    + split.
      * destruct (LS_first _ HLS) as [[k v] [l [r E]]]. rewrite E. reflexivity.
      * destruct (LS_last _ HLS) as [A [l [e E]]]. rewrite E.
        destruct (last_entry A l e) as [L1 L2]. cbv zeta in *.
        rewrite (key_at_entry _ _ _ L1). rewrite L2.
        change (Some (fst e) = lastkey ((concat A ++ l) ++ [e])). rewrite lastkey_last. auto.
Qed.

(* ---------- contiguous segments ---------- *)
Lemma nth_error_firstn' : forall (l : list (Z * V)) n i,
  nth_error (firstn n l) i = if (i <? n)%nat then nth_error l i else None.
Proof.
  induction l as [|a l IH]; intros n i.
  - rewrite firstn_nil. destruct i, (Nat.ltb _ _); reflexivity.
  - destruct n as [|n]; [destruct i; reflexivity|].
    destruct i as [|i]; [reflexivity|]. simpl firstn. simpl nth_error. rewrite IH. reflexivity.
Qed.

Lemma nth_error_skipn' : forall (l : list (Z * V)) p i,
  nth_error (skipn p l) i = nth_error l (p + i).
Proof.
  induction l as [|a l IH]; intros p i.
  - rewrite skipn_nil. destruct i, p; reflexivity.
  - destruct p as [|p]; [reflexivity|]. simpl. apply IH.
Qed.

Definition seg (m : list (Z * V)) (p u : nat) : list (Z * V) := firstn (u - p) (skipn p m).

Lemma nth_error_seg : forall m p u i,
  nth_error (seg m p u) i = if (i <? u - p)%nat then nth_error m (p + i) else None.
Proof. intros. unfold seg. rewrite nth_error_firstn', nth_error_skipn'. reflexivity. Qed.

Lemma in_seg : forall m p u x,
  In x (seg m p u) <-> exists i, (p <= i < u)%nat /\ nth_error m i = Some x.
Proof.
  intros m p u x. split.
  - intros H. apply In_nth_error in H. destruct H as [i Hi]. rewrite nth_error_seg in Hi.
    destruct (Nat.ltb_spec i (u - p)); [|discriminate]. exists (p + i)%nat. split; auto. lia.
  - intros [i [Hi Hx]]. apply (nth_error_In _ (i - p)). rewrite nth_error_seg.
    destruct (Nat.ltb_spec (i - p) (u - p)); [|lia]. replace (p + (i - p))%nat with i by lia. auto.
Qed.

Lemma ss_seg : forall m p u, ssorted m -> ssorted (seg m p u).
Proof. intros. unfold seg. apply ss_firstn. apply ss_skipn. auto. Qed.

Lemma length_seg : forall m p u, (u <= length m)%nat -> length (seg m p u) = (u - p)%nat.
Proof. intros. unfold seg. rewrite firstn_length, skipn_length. lia. Qed.

Lemma between_seg : forall ls lp hp,
  between V ls lp hp = seg (concat ls) (gidx ls lp) (gidx ls hp + 1).
Proof. reflexivity. Qed.

Lemma in_between : forall ls lp hp el eh x, ssorted (concat ls) ->
  entry ls lp = Some el -> entry ls hp = Some eh ->
  (In x (between V ls lp hp) <-> In x (concat ls) /\ fst el <= fst x <= fst eh).
Proof.
  intros ls [j1 o1] [j2 o2] el eh x Hs Hl Hh. rewrite between_seg, in_seg.
  apply entry_gidx in Hl. apply entry_gidx in Hh. split.
  - intros [i [Hi Hx]]. split; [eapply nth_error_In; eauto|]. split.
    + apply (ss_nth_le _ _ _ _ _ Hs Hl Hx). lia.
    + apply (ss_nth_le _ _ _ _ _ Hs Hx Hh). lia.
  - intros [Hx [H1 H2]]. apply In_nth_error in Hx. destruct Hx as [i Hx]. exists i. split; auto.
    pose proof (ss_nth_le_inv _ _ _ _ _ Hs Hl Hx H1).
    pose proof (ss_nth_le_inv _ _ _ _ _ Hs Hx Hh H2). lia.
Qed.

Lemma nil_of_no_in : forall l : list (Z * V), (forall x, ~ In x l) -> l = [].
Proof. intros [|a l] H; auto. exfalso. apply (H a). left; auto. Qed.

(* ---------- BTree_rangeSearch: the two ends ---------- *)
Definition lowp_ls (ls : leafseq) (fl : Z -> nat) (lo : option Z) (exlo : bool) : option (nat * nat) :=
  match lo with
  | Some a => fre_ls ls (fl a) a true exlo
  | None => if exlo then (if (1 <? length (nth_leaf V ls 0))%nat then Some (O, 1%nat)
                          else if (1 <? length ls)%nat then Some (1%nat, O) else None)
            else Some (O, O)
  end.
Definition highp_ls (ls : leafseq) (fl : Z -> nat) (hi : option Z) (exhi : bool) : option (nat * nat) :=
  match hi with
  | Some b => fre_ls ls (fl b) b false exhi
  | None =>
    let lastj := (length ls - 1)%nat in
    let off := (length (nth_leaf V ls lastj) - 1)%nat in
    if exhi then (if (0 <? off)%nat then Some (lastj, (off - 1)%nat)
                  else match lastj with
                       | O => None
                       | S p => Some (p, (length (nth_leaf V ls p) - 1)%nat)
                       end)
    else Some (lastj, off)
  end.
Definition ends_ls (ls : leafseq) (fl : Z -> nat) (lo hi : option Z) (exlo exhi : bool)
  : option ((nat * nat) * (nat * nat)) :=
  match lowp_ls ls fl lo exlo with
  | None => None
  | Some lp =>
    match highp_ls ls fl hi exhi with
    | None => None
    | Some hp =>
      if (fst lp =? fst hp)%nat then (if (snd hp <? snd lp)%nat then None else Some (lp, hp))
      else if key_at V ls hp <? key_at V ls lp then None else Some (lp, hp)
    end
  end.

Lemma c_range_ends_eq : forall t lo hi exlo exhi, lseq V t <> [] ->
  c_range_ends V t lo hi exlo exhi = ends_ls (lseq V t) (find_leaf V t) lo hi exlo exhi.
Proof.
  intros t lo hi exlo exhi H.
  unfold c_range_ends, ends_ls, lowp_ls, highp_ls, c_fre, fre_ls.
  destruct (lseq V t); [congruence|reflexivity].
Qed.

Lemma second_low : forall e e1 rest, let m := e :: e1 :: rest in ssorted m ->
  (exists y, In y m /\ fst y < fst e1) /\
  (forall x, In x m -> (exists y, In y m /\ fst y < fst x) -> fst e1 <= fst x).
Proof.
  intros e e1 rest m Hs. subst m. apply ss_cons_inv in Hs. destruct Hs as [Hs H0].
  apply ss_cons_inv in Hs. destruct Hs as [Hs H1]. split.
  - exists e. split; [left; auto|]. apply H0. left; auto.
  - intros x [<-|[<-|Hx]] [y [Hy Hlt]]; [|lia|specialize (H1 _ Hx); lia].
    destruct Hy as [<-|Hy]; [lia|]. specialize (H0 _ Hy). lia.
Qed.

Lemma lowp_spec : forall ls fl lo exlo, LS ls -> (forall k, FL ls k (fl k)) ->
  low_spec ls (Lpred (concat ls) lo exlo) (lowp_ls ls fl lo exlo).
Proof.
  intros ls fl lo exlo HLS HFL. destruct lo as [a|].
  - exact (fre_low ls (fl a) a exlo HLS (HFL a)).
  - destruct (LS_first _ HLS) as [e [l [r E]]]. subst ls.
    destruct HLS as [_ [Hne Hss]]. unfold lowp_ls, nth_leaf. destruct exlo.
    + destruct l as [|e1 l].
      * simpl nth. simpl length. destruct r as [|l2 r].
        -- simpl. intros x [<-|[]] [y [[<-|[]] Hlt]]. lia.
        -- inversion Hne as [|? ? _ Hne']; subst. inversion Hne' as [|? ? Hl2 _]; subst.
           destruct l2 as [|e1 l2]; [congruence|]. simpl Nat.ltb. cbv iota.
           simpl in Hss. destruct (second_low _ _ _ Hss) as [S1 S2].
           exists e1. split; [reflexivity|]. simpl. split; auto.
      * simpl. simpl in Hss. destruct (second_low _ _ _ Hss) as [S1 S2].
        exists e1. split; [reflexivity|]. split; auto.
    + exists e. split; [reflexivity|]. simpl. split; auto.
      intros x Hx _. simpl in Hss. apply ss_cons_inv in Hss. destruct Hss as [_ Hss].
      destruct Hx as [<-|Hx]; [lia|]. specialize (Hss _ Hx). lia.
Qed.

Lemma len_last : forall {T} (A : list T) x, (length (A ++ [x]) - 1)%nat = length A.
Proof. intros. rewrite app_length. simpl. lia. Qed.

Lemma nth_error_mid : forall (l : list (Z * V)) e r, nth_error (l ++ e :: r) (length l) = Some e.
Proof. intros. rewrite nth_error_app2 by lia. rewrite Nat.sub_diag. reflexivity. Qed.

Lemma penult_high : forall Y e0 e, let m := Y ++ [e0; e] in ssorted m ->
  (exists y, In y m /\ fst e0 < fst y) /\
  (forall x, In x m -> (exists y, In y m /\ fst x < fst y) -> fst x <= fst e0).
Proof.
  intros Y e0 e m Hs. subst m. apply ss_app in Hs. destruct Hs as [_ [Hs Hc]].
  apply ss_cons_inv in Hs. destruct Hs as [_ Hs]. specialize (Hs e (or_introl eq_refl)). split.
  - exists e. split; auto. apply in_or_app. right. right. left. auto.
  - intros x Hx [y [Hy Hlt]]. apply in_app_or in Hx. destruct Hx as [Hx|[<-|[<-|[]]]]; [|lia|].
    + specialize (Hc x e0 Hx (or_introl eq_refl)). lia.
    + apply in_app_or in Hy. destruct Hy as [Hy|[<-|[<-|[]]]]; try lia.
      specialize (Hc y x Hy (or_intror (or_introl eq_refl))). lia.
Qed.

Lemma highp_spec : forall ls fl hi exhi, LS ls -> (forall k, FL ls k (fl k)) ->
  high_spec ls (Hpred (concat ls) hi exhi) (highp_ls ls fl hi exhi).
Proof.
  intros ls fl hi exhi HLS HFL. destruct hi as [b|].
  - exact (fre_high ls (fl b) b exhi HLS (HFL b)).
  - destruct (LS_last _ HLS) as [A [l [e E]]]. subst ls.
    destruct HLS as [_ [Hne Hss]]. unfold highp_ls. cbv zeta.
    rewrite len_last, split_nth, len_last. destruct exhi.
    + destruct l as [|e0 l] using rev_ind.
      * simpl Nat.ltb. cbv iota. destruct A as [|l1 A] using rev_ind.
        -- simpl. intros x [<-|[]] [y [[<-|[]] Hlt]]. lia.
        -- clear IHA. rewrite app_length. simpl length. rewrite Nat.add_1_r.
           rewrite split_nth_P.
           assert (Hl1: l1 <> []).
           { unfold NE in Hne. rewrite Forall_forall in Hne. apply Hne.
             apply in_or_app. left. apply in_or_app. right. left. auto. }
           destruct l1 as [|e0 l1] using rev_ind; [congruence|]. clear IHl1.
           assert (Em: concat ((A ++ [l1 ++ [e0]]) ++ [[] ++ [e]]) = (concat A ++ l1) ++ [e0; e]).
           { rewrite !concat_app. simpl. rewrite !app_nil_r, <- !app_assoc. reflexivity. }
           rewrite Em in Hss. destruct (penult_high _ _ _ Hss) as [P1 P2].
           exists e0. split; [|split].
           ++ unfold entry. simpl. rewrite split_nth_P. apply nth_error_last.
           ++ simpl. rewrite Em. auto.
           ++ simpl. rewrite Em. auto.
      * clear IHl. rewrite app_length. simpl length. rewrite Nat.add_1_r. simpl Nat.ltb. cbv iota.
        assert (Em: concat (A ++ [(l ++ [e0]) ++ [e]]) = (concat A ++ l) ++ [e0; e]).
        { rewrite !concat_app. simpl. rewrite !app_nil_r, <- !app_assoc. reflexivity. }
        rewrite Em in Hss. destruct (penult_high _ _ _ Hss) as [P1 P2].
        exists e0. split; [|split].
        ++ unfold entry. simpl. rewrite split_nth. rewrite Nat.sub_0_r.
           rewrite <- app_assoc. apply nth_error_mid.
        ++ simpl. rewrite Em. auto.
        ++ simpl. rewrite Em. auto.
    + exists e. split; [|split].
      * unfold entry. simpl. rewrite split_nth. apply nth_error_mid.
      * simpl. auto.
      * intros x Hx _. rewrite concat_app in Hx, Hss. simpl in Hx, Hss.
        rewrite app_nil_r, app_assoc in Hx, Hss.
        apply ss_app in Hss. destruct Hss as [_ [_ Hc]].
        apply in_app_or in Hx. destruct Hx as [Hx|[<-|[]]]; [|lia].
        specialize (Hc x e Hx (or_introl eq_refl)). lia.
Qed.

End RP.
