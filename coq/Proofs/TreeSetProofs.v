(* TreeSetProofs -- insertion (tset) preserves the invariant of the B+tree
   model and refines insertion into the sorted association list.
   Built on Proofs/TreeBase.v.  No axioms. *)
From Coq Require Import ZArith List Bool Arith Sorted Lia.
From BT Require Import Model.RTree Model.TreeSpec Proofs.TreeBase.
Import ListNotations.
Open Scope Z_scope.

Section SetProofs.
Variable V : Type.
Variable veq : V -> V -> bool.
Variable vs : bool.
Variables ml mi : nat.
Hypothesis Hml : (1 <= ml)%nat.
Hypothesis Hmi : (2 <= mi)%nat.

Notation tree := (tree V).
Notation contents := (RTree.contents V).
Notation tsize := (RTree.tsize V).
Notation tmin := (RTree.tmin V).
Notation tmin0 := (RTree.tmin0 V).
Notation is_leaf := (RTree.is_leaf V).
Notation max_for := (RTree.max_for V ml mi).
Notation depth := (TreeSpec.depth V).
Notation split_node := (RTree.split_node V).
Notation tset := (RTree.tset V veq vs ml mi).
Notation WFbody := (TreeBase.WFbody V ml mi).
Notation WFkids := (TreeBase.WFkids V ml mi).
Notation size_ok := (TreeBase.size_ok V ml mi).
Notation kcontents := (TreeBase.kcontents V).
Notation next_hi := (TreeBase.next_hi V).
Notation chosen := (RTree.chosen V).

(* the inner loop of tset as a standalone function *)
Fixpoint tset_go (i : nat) (single : bool) (fresh : nat) (k : Z) (v : V) (ifunset : bool)
         (l : list (Z * tree)) : list (Z * tree) * status * option V * list event * nat * bool :=
  match l with
  | [] => ([], StNone, None, [], fresh, false)
  | (s, c) :: rest =>
    if chosen k rest then
      let r := tset fresh c k v ifunset in
      let c' := s_tree r in
      let emb := match s_st r with
                 | StNone => []
                 | _ => if is_leaf c' && single then [EEmbed i (tid V c')] else []
                 end in
      match s_st r with
      | St1 =>
        if (max_for c' <? tsize c')%nat then
          let '(l', f', evg) := grow_at V (s_fresh r) s c' rest in
          (l', St1, s_val r, s_ev r ++ EChanged i :: evg ++ emb, f', true)
        else ((s, c') :: rest, St1, s_val r, s_ev r ++ emb, s_fresh r, false)
      | st' => ((s, c') :: rest, st', s_val r, s_ev r ++ emb, s_fresh r, false)
      end
    else
      let '(l', st, rv, ev, f', g) := tset_go i single fresh k v ifunset rest in
      ((s, c) :: l', st, rv, ev, f', g)
  end.

Lemma tset_Node : forall fresh i x r k v iu,
  tset fresh (Node i (x :: r)) k v iu =
  let '(kids1, st, rv, ev1, fresh1, g) :=
      tset_go i (length (x :: r) =? 1)%nat fresh k v iu (x :: r) in
  if g && (2 * mi <=? length kids1)%nat then
    let '(kids2, fresh2, ev2) := split_root V fresh1 kids1 in
    mkS (Node i kids2) st rv (ERead i :: ev1 ++ ev2) fresh2
  else mkS (Node i kids1) st rv (ERead i :: ev1) fresh1.
Proof.
  intros. set (kids := x :: r).
  unfold RTree.tset at 1. cbv beta iota. fold tset.
  set (sg := (length kids =? 1)%nat). clearbody sg.
  match goal with |- context [?f kids] =>
    match type of f with
    | list (Z * tree) -> list (Z * tree) * status * option V * list event * nat * bool =>
      assert (E : forall l, f l = tset_go i sg fresh k v iu l)
    end
  end.
  { induction l as [|[s c] rest IH]; [reflexivity|].
    simpl tset_go. rewrite <- IH. reflexivity. }
  rewrite E. reflexivity.
Qed.

(* the observable outcome of an insertion, relative to the old contents m;
   [same] says that the structure did not change at all *)
Definition set_sem (m : list (Z * V)) (k : Z) (v : V) (iu : bool)
           (st : status) (rv : option V) (same : Prop) (m' : list (Z * V)) : Prop :=
  match alookup m k with
  | None => st = St1 /\ rv = Some v /\ m' = ainsert m k v
  | Some v' => if iu || (vs && veq v v')
               then st = StNone /\ rv = Some v' /\ same
               else st = St0 /\ rv = Some v /\ m' = ainsert m k v
  end.

(* what insertion below a non-root subtree guarantees *)
Definition set_ok (lo hi : option Z) (fresh : nat) (t : tree) (k : Z) (v : V) (iu : bool) : Prop :=
  let r := tset fresh t k v iu in
  WFbody lo hi (s_tree r) /\ is_leaf (s_tree r) = is_leaf t /\ depth (s_tree r) = depth t /\
  (tsize t <= tsize (s_tree r) <= tsize t + 1)%nat /\
  (s_st r <> St1 -> tsize (s_tree r) = tsize t) /\
  set_sem (contents t) k v iu (s_st r) (s_val r) (s_tree r = t) (contents (s_tree r)).

Lemma set_ok_Leaf : forall lo hi fresh i l k v iu,
  ksorted l -> kwithin lo hi l -> Within lo hi k -> set_ok lo hi fresh (Leaf i l) k v iu.
Proof.
  intros lo hi fresh i l k v iu Hs Hw Hk. unfold set_ok, set_sem.
  simpl tset. rewrite (lset_spec V veq vs l k v iu Hs). simpl contents.
  pose proof (ainsert_length V l k v Hs) as HL.
  destruct (alookup l k) as [v'|] eqn:E.
  - destruct (iu || (vs && veq v v')); simpl.
    + repeat split; auto; try lia. constructor; auto.
    + repeat split; auto; try lia.
      constructor; [apply ainsert_sorted | apply ainsert_kwithin]; auto.
  - simpl. repeat split; auto; try lia.
    + constructor; [apply ainsert_sorted | apply ainsert_kwithin]; auto.
    + intros; congruence.
Qed.

(* what the inner loop guarantees on a (suffix of a) children list *)
Definition go_post (lf : bool) (d : nat) (first : bool) (lo hi : option Z)
           (l : list (Z * tree)) (k : Z) (v : V) (iu : bool)
           (res : list (Z * tree) * status * option V * list event * nat * bool) : Prop :=
  let '(l1, st, rv, ev, f', g) := res in
  WFkids lf d first lo hi l1 /\ l1 <> [] /\
  (forall h, next_hi h l1 = next_hi h l) /\
  (length l <= length l1 <= length l + 1)%nat /\
  (g = false \/ st <> St1 -> length l1 = length l) /\
  set_sem (kcontents l) k v iu st rv (l1 = l) (kcontents l1).

Lemma set_sem_tmin : forall lo hi lo' hi' c c' s k v iu st rv,
  WFbody lo hi c -> WFbody lo' hi' c' -> tmin c = Some s -> s <= k ->
  set_sem (contents c) k v iu st rv (c' = c) (contents c') -> tmin c' = Some s.
Proof.
  intros lo hi lo' hi' c c' s k v iu st rv Wc Wc' Tc Hsk Sem.
  assert (Hh : hdkey (contents c) = Some s) by (rewrite <- (WFbody_tmin _ _ _ _ _ _ Wc); exact Tc).
  assert (Hi : contents c' = ainsert (contents c) k v -> tmin c' = Some s).
  { intros E. rewrite (WFbody_tmin _ _ _ _ _ _ Wc'), E. apply hdkey_ainsert_ge; assumption. }
  unfold set_sem in Sem. destruct (alookup (contents c) k) as [v'|].
  - destruct (iu || (vs && veq v v')).
    + destruct Sem as (_ & _ & ->). exact Tc.
    + apply Hi, Sem.
  - apply Hi, Sem.
Qed.

Lemma go_replace : forall lf d first lo hi s c rest k v iu c' st rv ev f,
  WFkids lf d first lo hi ((s, c) :: rest) -> chosen k rest = true ->
  Within (lo_of first lo s) hi k ->
  WFbody (lo_of first lo s) (next_hi hi rest) c' ->
  is_leaf c' = is_leaf c -> depth c' = depth c ->
  (1 <= tsize c' <= max_for c)%nat ->
  set_sem (contents c) k v iu st rv (c' = c) (contents c') ->
  go_post lf d first lo hi ((s, c) :: rest) k v iu ((s, c') :: rest, st, rv, ev, f, false).
Proof.
  intros lf d first lo hi s c rest k v iu c' st rv ev f Hk Hch Hw Wc' Lc' Dc' Sz Sem.
  pose proof (WFkids_inv' _ _ _ _ _ _ _ _ _ _ _ Hk) as (H1 & Hlf & Hd & Hsz & Wc & Wr).
  unfold go_post. split; [|split; [discriminate|split; [reflexivity|split; [simpl; lia|split; [reflexivity|]]]]].
  - eapply WFkids_replace; [exact Hk | congruence | congruence | | exact Wc' |].
    + unfold TreeBase.size_ok. rewrite (max_for_eq V ml mi c' c Lc'). exact Sz.
    + intros ->. destruct H1 as [H1|[_ H1]]; [discriminate|].
      eapply set_sem_tmin; [exact Wc | exact Wc' | exact H1 | | exact Sem].
      destruct Hw as [Hw _]. exact Hw.
  - unfold set_sem in *.
    rewrite (alookup_kcontents_here _ _ _ _ _ _ _ _ _ _ _ _ Hk Hch).
    rewrite (ainsert_kcontents_here _ _ _ _ _ _ _ _ _ _ _ _ _ Hk Hch).
    rewrite kcontents_cons.
    destruct (alookup (contents c) k) as [v'|].
    + destruct (iu || (vs && veq v v')).
      * destruct Sem as (E1 & E2 & E3). subst c'. auto.
      * destruct Sem as (E1 & E2 & E3). rewrite E3. auto.
    + destruct Sem as (E1 & E2 & E3). rewrite E3. auto.
Qed.

Lemma max_for_pos : forall t : tree, (1 <= max_for t)%nat.
Proof. intros. unfold RTree.max_for. destruct (is_leaf t); lia. Qed.

Lemma go_grow : forall lf d first lo hi s c rest k v iu c' rv ev f fr a b,
  WFkids lf d first lo hi ((s, c) :: rest) -> chosen k rest = true ->
  Within (lo_of first lo s) hi k ->
  WFbody (lo_of first lo s) (next_hi hi rest) c' ->
  is_leaf c' = is_leaf c -> depth c' = depth c ->
  tsize c' = (max_for c + 1)%nat ->
  set_sem (contents c) k v iu St1 rv (c' = c) (contents c') ->
  split_node fr c' = (a, b) ->
  go_post lf d first lo hi ((s, c) :: rest) k v iu
          ((s, a) :: (tmin0 b, b) :: rest, St1, rv, ev, f, true).
Proof.
  intros lf d first lo hi s c rest k v iu c' rv ev f fr a b Hk Hch Hw Wc' Lc' Dc' Sz Sem Esp.
  pose proof (WFkids_inv' _ _ _ _ _ _ _ _ _ _ _ Hk) as (H1 & Hlf & Hd & Hsz & Wc & Wr).
  pose proof (max_for_pos c) as Hpos.
  pose proof (max_for_eq V ml mi c' c Lc') as Hmf.
  assert (H2 : (2 <= tsize c')%nat) by lia.
  pose proof (split_node_WF _ _ _ _ _ _ _ _ _ Wc' H2 Esp) as (Wa & Wb & Tb & Wsb & Ta & Da & Db).
  pose proof (split_node_shape _ _ _ _ _ Esp) as (_ & _ & La & Lb & _).
  assert (Hsz' : tsize c' = (max_for c' + 1)%nat) by lia.
  assert (Hpos' : (1 <= max_for c')%nat) by lia.
  pose proof (split_node_sizes_overflow _ _ _ _ _ _ _ Esp Hsz' Hpos') as (Sa & Sb).
  unfold go_post.
  split; [|split; [discriminate|split; [reflexivity|split; [simpl; lia|split; [intros [?|?]; congruence|]]]]].
  - eapply WFkids_grow; try eassumption; try congruence.
    intros ->. rewrite Ta. destruct H1 as [H1|[_ H1]]; [discriminate|].
    eapply set_sem_tmin; [exact Wc | exact Wc' | exact H1 | | exact Sem].
    destruct Hw as [Hw _]. exact Hw.
  - unfold set_sem in *.
    rewrite (alookup_kcontents_here _ _ _ _ _ _ _ _ _ _ _ _ Hk Hch).
    rewrite (ainsert_kcontents_here _ _ _ _ _ _ _ _ _ _ _ _ _ Hk Hch).
    rewrite !kcontents_cons, app_assoc, (split_node_contents _ _ _ _ _ Esp).
    destruct (alookup (contents c) k) as [v'|].
    + destruct (iu || (vs && veq v v')); destruct Sem as (E1 & _); discriminate.
    + destruct Sem as (E1 & E2 & E3). rewrite E3. auto.
Qed.

Lemma go_here : forall lf d first lo hi s c rest k v iu i single fresh,
  WFkids lf d first lo hi ((s, c) :: rest) -> chosen k rest = true ->
  Within (lo_of first lo s) hi k ->
  set_ok (lo_of first lo s) (next_hi hi rest) fresh c k v iu ->
  go_post lf d first lo hi ((s, c) :: rest) k v iu
          (tset_go i single fresh k v iu ((s, c) :: rest)).
Proof.
  intros lf d first lo hi s c rest k v iu i single fresh Hk Hch Hw IH.
  pose proof (WFkids_inv' _ _ _ _ _ _ _ _ _ _ _ Hk) as (_ & _ & _ & [Hs1 Hs2] & _ & _).
  simpl tset_go. rewrite Hch. unfold set_ok in IH. cbv zeta in IH.
  set (r := tset fresh c k v iu) in *.
  destruct IH as (Wc' & Lc' & Dc' & Sz & Sz0 & Sem).
  destruct (s_st r) eqn:Est.
  - assert (E : tsize (s_tree r) = tsize c) by (apply Sz0; discriminate).
    apply go_replace; auto. lia.
  - assert (E : tsize (s_tree r) = tsize c) by (apply Sz0; discriminate).
    apply go_replace; auto. lia.
  - pose proof (max_for_eq V ml mi _ _ Lc') as Hmf.
    destruct (max_for (s_tree r) <? tsize (s_tree r))%nat eqn:Eov.
    + apply Nat.ltb_lt in Eov. unfold grow_at.
      destruct (split_node (s_fresh r) (s_tree r)) as [a b] eqn:Esp.
      eapply go_grow; eauto. lia.
    + apply Nat.ltb_ge in Eov. apply go_replace; auto. lia.
Qed.

Lemma go_skip : forall lf d first lo hi s c rest k v iu i single fresh,
  WFkids lf d first lo hi ((s, c) :: rest) -> chosen k rest = false ->
  (forall s2 c2 r2, rest = (s2, c2) :: r2 -> Within (Some s2) hi k ->
     go_post lf d false (lo_of first lo s) hi rest k v iu (tset_go i single fresh k v iu rest)) ->
  Within (lo_of first lo s) hi k ->
  go_post lf d first lo hi ((s, c) :: rest) k v iu
          (tset_go i single fresh k v iu ((s, c) :: rest)).
Proof.
  intros lf d first lo hi s c rest k v iu i single fresh Hk Hch IH Hw.
  simpl tset_go. rewrite Hch.
  destruct (chosen_false_inv V k rest Hch) as (s2 & c2 & r2 & E & Hle).
  assert (Hw2 : Within (Some s2) hi k).
  { destruct Hw as [_ Hw]. split; [exact Hle | exact Hw]. }
  specialize (IH _ _ _ E Hw2).
  destruct (tset_go i single fresh k v iu rest) as [[[[[l' st] rv] ev] f'] g].
  unfold go_post in *. destruct IH as (W' & Ne & Nh & Len & Lg & Sem).
  split; [|split; [discriminate|split; [reflexivity|split; [simpl; lia|split; [simpl; auto|]]]]].
  - eapply WFkids_cons_rest; [exact Hk | exact W' |]. rewrite Nh. apply hi_le_refl.
  - unfold set_sem in *.
    rewrite (alookup_kcontents_skip _ _ _ _ _ _ _ _ _ _ _ _ Hk Hch).
    rewrite (ainsert_kcontents_skip _ _ _ _ _ _ _ _ _ _ _ _ _ Hk Hch).
    rewrite kcontents_cons.
    destruct (alookup (kcontents rest) k) as [v'|].
    + destruct (iu || (vs && veq v v')).
      * destruct Sem as (E1 & E2 & E3). subst l'. auto.
      * destruct Sem as (E1 & E2 & E3). rewrite E3. auto.
    + destruct Sem as (E1 & E2 & E3). rewrite E3. auto.
Qed.

Lemma size_ok_single_leaf : forall fresh k (v : V), size_ok (Leaf fresh [(k, v)]).
Proof. intros. unfold TreeBase.size_ok, RTree.max_for. simpl. lia. Qed.

Lemma set_ok_Node_nil : forall lo hi fresh i k v iu,
  Within lo hi k -> set_ok lo hi fresh (Node i []) k v iu.
Proof.
  intros lo hi fresh i k v iu Hw. unfold set_ok, set_sem. simpl.
  split; [|repeat split; auto; try lia; congruence].
  eapply WFB_node. apply WFkids_single with (lf := true) (d := 0%nat); auto.
  - apply size_ok_single_leaf.
  - apply WFbody_Leaf_single. exact Hw.
Qed.

(* a node whose children list cannot reach 2*mi entries: no root split *)
Lemma set_ok_Node : forall lf d lo hi i x r k v iu fresh,
  WFkids lf d true lo hi (x :: r) ->
  go_post lf d true lo hi (x :: r) k v iu
          (tset_go i (length (x :: r) =? 1)%nat fresh k v iu (x :: r)) ->
  (length (x :: r) + 1 < 2 * mi)%nat ->
  set_ok lo hi fresh (Node i (x :: r)) k v iu.
Proof.
  intros lf d lo hi i x r k v iu fresh Hk H Hlen. unfold set_ok. cbv zeta.
  rewrite tset_Node.
  destruct (tset_go i (length (x :: r) =? 1)%nat fresh k v iu (x :: r))
    as [[[[[l1 st] rv] ev] f'] g].
  unfold go_post in H. destruct H as (W & Ne & Nh & Len & Lg & Sem).
  replace (2 * mi <=? length l1)%nat with false by (symmetry; apply Nat.leb_gt; lia).
  rewrite andb_false_r. cbn [s_tree s_st s_val].
  split; [eapply WFB_node; exact W|]. split; [reflexivity|]. split.
  - destruct l1 as [|[s1 c1] r1]; [contradiction|]. destruct x as [s0 c0].
    rewrite (WFkids_depth _ _ _ _ _ _ _ _ _ _ _ _ W).
    rewrite (WFkids_depth _ _ _ _ _ _ _ _ _ _ _ _ Hk). reflexivity.
  - split; [exact Len|]. split; [intros; apply Lg; auto|].
    rewrite !contents_Node. unfold set_sem in *.
    destruct (alookup (kcontents (x :: r)) k) as [v'|]; [|exact Sem].
    destruct (iu || (vs && veq v v')); [|exact Sem].
    destruct Sem as (E1 & E2 & E3). rewrite E3. auto.
Qed.

Lemma set_mut :
  (forall lo hi t, WFbody lo hi t ->
     forall k v iu fresh, Within lo hi k -> (tsize t <= max_for t)%nat ->
       set_ok lo hi fresh t k v iu) /\
  (forall lf d first lo hi l, WFkids lf d first lo hi l ->
     forall k v iu i single fresh s c rest, l = (s, c) :: rest ->
       Within (lo_of first lo s) hi k ->
       go_post lf d first lo hi l k v iu (tset_go i single fresh k v iu l)).
Proof.
  apply WF_mutind.
  - intros lo hi i l Hs Hw k v iu fresh Hk _. apply set_ok_Leaf; auto.
  - intros lo hi i kids lf d Hk IH k v iu fresh Hw Hsz. destruct kids as [|[s c] r].
    + apply set_ok_Node_nil; auto.
    + eapply set_ok_Node; [exact Hk | eapply IH; [reflexivity | exact Hw] |].
      unfold RTree.max_for in Hsz. simpl in Hsz. simpl. lia.
  - intros; discriminate.
  - intros lf d first lo hi s c rest H1 H2 H3 H4 Hc IHc Hr IHr k v iu i single fresh
           s' c' rest' E Hw.
    inversion E; subst s' c' rest'. clear E.
    assert (Hk : WFkids lf d first lo hi ((s, c) :: rest)) by (constructor; auto).
    destruct (chosen k rest) eqn:Hch.
    + apply go_here; auto. apply IHc; [|apply H4].
      eapply chosen_true_within; eauto.
    + apply go_skip; auto. intros s2 c2 r2 E2 Hw2.
      eapply IHr; [exact E2 | exact Hw2].
Qed.

(* the root after split_root *)
Lemma root_split_ok : forall lf d i l1 f' a b,
  WFkids lf d true None None l1 -> length l1 = (2 * mi)%nat ->
  split_node (S f') (Node f' l1) = (a, b) ->
  Inv V ml mi (Node i [(0, a); (tmin0 b, b)]) /\
  contents (Node i [(0, a); (tmin0 b, b)]) = kcontents l1.
Proof.
  intros lf d i l1 f' a b W Hlen Esp.
  assert (Wch : WFbody None None (Node f' l1)) by (eapply WFB_node; exact W).
  assert (H2 : (2 <= tsize (Node f' l1))%nat) by (simpl; lia).
  pose proof (split_node_WF _ _ _ _ _ _ _ _ _ Wch H2 Esp) as (Wa & Wb & Tb & Wsb & Ta & Da & Db).
  pose proof (split_node_shape _ _ _ _ _ Esp) as (_ & _ & La & Lb & _).
  assert (Hd : tsize (Node f' l1) = (2 * mi)%nat) by (simpl; exact Hlen).
  pose proof (split_node_sizes_double _ _ _ _ _ _ Esp Hd) as (Sa & Sb).
  split.
  - apply Inv_Node_intro; [simpl; lia|].
    eapply WFB_node.
    apply WFkids_pair with (lf := false) (d := depth (Node f' l1)); auto.
    + unfold TreeBase.size_ok, RTree.max_for. rewrite La, Sa. simpl. lia.
    + unfold TreeBase.size_ok, RTree.max_for. rewrite Lb, Sb. simpl. lia.
  - rewrite contents_Node, !kcontents_cons, kcontents_nil, app_nil_r.
    rewrite (split_node_contents _ _ _ _ _ Esp). apply contents_Node.
Qed.

Theorem tset_root : forall fresh t k v iu,
  Inv V ml mi t ->
  let r := tset fresh t k v iu in
  Inv V ml mi (s_tree r) /\
  set_sem (contents t) k v iu (s_st r) (s_val r) (s_tree r = t) (contents (s_tree r)).
Proof.
  intros fresh t k v iu HI. cbv zeta.
  destruct (Inv_inv _ _ _ _ HI) as (i & kids & -> & [->|[Hlen Wt]]).
  - assert (Hw : Within None None k) by (split; exact I).
    destruct (set_ok_Node_nil None None fresh i k v iu Hw) as (W & _ & _ & _ & _ & Sem).
    split; [|exact Sem]. simpl in *. apply Inv_Node_intro; [simpl; lia | exact W].
  - destruct (WFbody_Node_inv _ _ _ _ _ _ _ Wt) as (lf & d & Hk).
    destruct kids as [|[s c] r]; [simpl in Hlen; lia|].
    assert (Hw : Within (lo_of true None s) None k) by (split; exact I).
    pose proof (proj2 set_mut _ _ _ _ _ _ Hk k v iu i (length ((s, c) :: r) =? 1)%nat fresh
                      _ _ _ eq_refl Hw) as H.
    rewrite tset_Node.
    destruct (tset_go i (length ((s, c) :: r) =? 1)%nat fresh k v iu ((s, c) :: r))
      as [[[[[l1 st] rv] ev] f'] g].
    unfold go_post in H. destruct H as (W & Ne & Nh & Len & Lg & Sem).
    assert (Hpos : (1 <= length l1)%nat) by (destruct l1; [contradiction | simpl; lia]).
    destruct (g && (2 * mi <=? length l1)%nat) eqn:Eb.
    + apply andb_true_iff in Eb. destruct Eb as [Eg Eb]. apply Nat.leb_le in Eb.
      unfold split_root. destruct (split_node (S f') (Node f' l1)) as [a b] eqn:Esp.
      cbn [s_tree s_st s_val].
      assert (Hl1 : length l1 = (2 * mi)%nat) by lia.
      destruct (root_split_ok _ _ i _ _ _ _ W Hl1 Esp) as (HI' & HC).
      split; [exact HI'|]. rewrite HC, contents_Node. unfold set_sem in *.
      destruct (alookup (kcontents ((s, c) :: r)) k) as [v'|]; [|exact Sem].
      destruct (iu || (vs && veq v v')); [|exact Sem].
      destruct Sem as (_ & _ & E3). subst l1. lia.
    + cbn [s_tree s_st s_val]. split.
      * apply Inv_Node_intro; [|eapply WFB_node; exact W].
        apply andb_false_iff in Eb. destruct Eb as [Eb|Eb].
        -- rewrite Lg by auto. lia.
        -- apply Nat.leb_gt in Eb. lia.
      * rewrite !contents_Node. unfold set_sem in *.
        destruct (alookup (kcontents ((s, c) :: r)) k) as [v'|]; [|exact Sem].
        destruct (iu || (vs && veq v v')); [|exact Sem].
        destruct Sem as (E1 & E2 & E3). rewrite E3. auto.
Qed.
End SetProofs.

(* ================================================================== *)
(* Exported statements                                                 *)
(* ================================================================== *)
Theorem inv_tset : forall (V : Type) (veq : V -> V -> bool) (vs : bool) (ml mi fresh : nat)
    (t : tree V) (k : Z) (v : V) (ifunset : bool),
  (1 <= ml)%nat -> (2 <= mi)%nat -> Inv V ml mi t ->
  Inv V ml mi (s_tree (tset V veq vs ml mi fresh t k v ifunset)).
Proof.
  intros V veq vs ml mi fresh t k v iu Hml Hmi HI.
  exact (proj1 (tset_root V veq vs ml mi Hml Hmi fresh t k v iu HI)).
Qed.

Theorem tset_contents : forall V veq vs ml mi fresh t k v ifunset,
  (1 <= ml)%nat -> (2 <= mi)%nat ->
  (forall a b : V, veq a b = true -> a = b) ->
  Inv V ml mi t ->
  let r := tset V veq vs ml mi fresh t k v ifunset in
  contents V (s_tree r) =
    (if ifunset && (match alookup (contents V t) k with Some _ => true | None => false end)
     then contents V t else ainsert (contents V t) k v) /\
  (s_st r = St1 <-> alookup (contents V t) k = None) /\
  s_val r = Some (if ifunset
                  then match alookup (contents V t) k with Some x => x | None => v end
                  else v).
Proof.
  intros V veq vs ml mi fresh t k v iu Hml Hmi Hveq HI. cbv zeta.
  destruct (tset_root V veq vs ml mi Hml Hmi fresh t k v iu HI) as [_ Sem].
  pose proof (Inv_sorted _ _ _ _ HI) as Hs.
  unfold set_sem in Sem.
  destruct (alookup (contents V t) k) as [v'|] eqn:E.
  - destruct iu; simpl in Sem |- *.
    + destruct Sem as (E1 & E2 & E3). rewrite E1, E2, E3.
      repeat split; intros; discriminate.
    + destruct (vs && veq v v') eqn:Ec.
      * destruct Sem as (E1 & E2 & E3). rewrite E1, E2, E3.
        apply andb_true_iff in Ec. destruct Ec as [_ Ec]. apply Hveq in Ec. subst v'.
        rewrite (ainsert_same V _ _ _ Hs E). repeat split; intros; discriminate.
      * destruct Sem as (E1 & E2 & E3). rewrite E1, E2, E3.
        repeat split; intros; discriminate.
  - rewrite andb_false_r. destruct Sem as (E1 & E2 & E3). rewrite E1, E2, E3.
    destruct iu; repeat split; auto.
Qed.

(* Print Assumptions inv_tset / tset_contents: Closed under the global context *)
