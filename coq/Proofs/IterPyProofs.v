(* IterPyProofs -- the Python generator (Model/IterPy.v) on an arbitrarily
   mutated leaf store: every next() yields an entry that is in a live leaf at
   that moment, ends the iteration, or raises IndexError; the fuel of the model
   is never exhausted (at most two buckets are visited per step).  No axioms. *)
From Coq Require Import ZArith List Bool Arith Lia.
From BT Require Import Model.Iter Model.IterPy.
Import ListNotations.

Section P.
Variable V : Type.

(* a step whose `done` flag is already set never moves on *)
Lemma py_next_done : forall f (s : lstore V) it, p_done it = true -> closed V s -> py_holds V s it ->
  let '(r, it') := py_next V (S f) s it in
  r <> POob V /\ py_holds V s it' /\
  (forall kv, r = PEntry V kv -> exists b items nxt i, lget V s b = Some (items, nxt) /\ nth_error items i = Some kv).
Proof.
  intros f s it Hd Hc Hh. cbn [py_next]. unfold py_holds in Hh.
  destruct (p_cur it) as [b|]; [|(split; [discriminate | split; [unfold py_holds; simpl; exact I | intros kv E; discriminate E]])].
  destruct (lget V s b) as [[items nxt]|] eqn:El; [|congruence].
  destruct (Nat.ltb (if p_in it then p_i it else 0) (if p_in it then p_stop it else length items)).
  - destruct (nth_error items (if p_in it then p_i it else 0)) as [kv|] eqn:En.
    + split; [discriminate|]. split; [unfold py_holds; simpl; congruence|].
      intros kv' E. injection E as <-. eauto 6.
    + (split; [discriminate | split; [unfold py_holds; simpl; exact I | intros kv E; discriminate E]]).
  - rewrite Hd. (split; [discriminate | split; [unfold py_holds; simpl; exact I | intros kv E; discriminate E]]).
Qed.

Theorem py_next_total : forall (s : lstore V) (it : pyit), closed V s -> py_holds V s it ->
  let '(r, it') := py_next V py_fuel s it in
  r <> POob V /\ py_holds V s it' /\
  (forall kv, r = PEntry V kv -> exists b items nxt i, lget V s b = Some (items, nxt) /\ nth_error items i = Some kv).
Proof.
  intros s it Hc Hh. unfold py_fuel. cbn [py_next]. unfold py_holds in Hh.
  destruct (p_cur it) as [b|]; [|(split; [discriminate | split; [unfold py_holds; simpl; exact I | intros kv E; discriminate E]])].
  destruct (lget V s b) as [[items nxt]|] eqn:El; [|congruence].
  destruct (Nat.ltb (if p_in it then p_i it else 0) (if p_in it then p_stop it else length items)).
  - destruct (nth_error items (if p_in it then p_i it else 0)) as [kv|] eqn:En.
    + split; [discriminate|]. split; [unfold py_holds; simpl; congruence|].
      intros kv' E. injection E as <-. eauto 6.
    + (split; [discriminate | split; [unfold py_holds; simpl; exact I | intros kv E; discriminate E]]).
  - destruct (p_done it); [(split; [discriminate | split; [unfold py_holds; simpl; exact I | intros kv E; discriminate E]])|].
    apply (py_next_done 2 s (mkPy nxt false 0 0 true) eq_refl Hc).
    unfold py_holds. simpl. pose proof (Hc b items nxt El) as Hn. destruct nxt; [exact Hn | exact I].
Qed.

(* after IndexError (or the end) the generator is finished for good *)
Theorem py_finished_sticky : forall (s : lstore V) f, py_next V (S f) s (finished) = (PStop V, finished).
Proof. reflexivity. Qed.
End P.
