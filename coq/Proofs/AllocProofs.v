(* Proofs for C17 (Model/Alloc.v): the allocation discipline of a bucket's two
   vectors stays sound wherever the failing request is placed. *)
From Coq Require Import List Bool Arith Lia.
From BT Require Import Model.Alloc.
Import ListNotations.

(* ---------- the heap primitives ---------- *)

Lemma request_spec : forall h o h', request h = (o, h') ->
  live h' = live h /\ nextid h' = nextid h.
Proof.
  intros h o h'. unfold request.
  destruct (countdown h) as [|[|n]]; intros E; inversion E; subst; simpl; auto.
Qed.

Lemma request_never_fails : forall h, countdown h = 0 -> request h = (Some tt, h).
Proof. intros h E. unfold request. rewrite E. reflexivity. Qed.

Lemma request_fail_countdown : forall h h', request h = (None, h') -> countdown h' = 0.
Proof.
  intros h h'. unfold request.
  destruct (countdown h) as [|[|n]]; intros E; inversion E; subst; simpl; auto.
Qed.

Lemma In_release : forall x b l,
  In x (filter (fun y => negb (Nat.eqb y b)) l) <-> In x l /\ x <> b.
Proof.
  intros x b l. rewrite filter_In. rewrite negb_true_iff, Nat.eqb_neq. tauto.
Qed.

Lemma release_live : forall x b h, In x (live (release b h)) <-> In x (live h) /\ x <> b.
Proof. intros. unfold release; simpl. apply In_release. Qed.

Lemma release_nextid : forall b h, nextid (release b h) = nextid h.
Proof. reflexivity. Qed.

Lemma malloc_spec : forall h o h', malloc h = (o, h') ->
  match o with
  | None => live h' = live h /\ nextid h' = nextid h
  | Some k => k = nextid h /\ live h' = k :: live h /\ nextid h' = S k
  end.
Proof.
  intros h o h'. unfold malloc.
  destruct (request h) as [[u|] h1] eqn:E; apply request_spec in E; destruct E as [E1 E2];
    unfold fresh_block; intros X; inversion X; subst; simpl; rewrite ?E1, ?E2; auto.
Qed.

Definition rlive (p : option nat) (l : list nat) : list nat :=
  match p with
  | Some b => filter (fun y => negb (Nat.eqb y b)) l
  | None => l
  end.

Lemma realloc_spec : forall p h o h', realloc p h = (o, h') ->
  match o with
  | None => live h' = live h /\ nextid h' = nextid h
  | Some k => k = nextid h /\ live h' = k :: rlive p (live h) /\ nextid h' = S k
  end.
Proof.
  intros p h o h'. unfold realloc.
  destruct (request h) as [[u|] h1] eqn:E; apply request_spec in E; destruct E as [E1 E2];
    unfold fresh_block; intros X; inversion X; subst; simpl.
  - destruct p; simpl; rewrite ?E1, ?E2; auto.
  - auto.
Qed.

Lemma NoDup1 : forall a : nat, NoDup [a].
Proof. intros. constructor; [intros []|constructor]. Qed.

Lemma NoDup2 : forall a b : nat, NoDup [a; b] <-> a <> b.
Proof.
  intros a b; split.
  - intros H E. inversion H; subst. apply H2. left; reflexivity.
  - intros H. constructor; [intros [E|[]]; congruence | apply NoDup1].
Qed.

(* ---------- Bucket_grow ---------- *)

Ltac use_spec :=
  repeat match goal with
  | E : malloc _ = (_, _) |- _ => apply malloc_spec in E
  | E : realloc _ _ = (_, _) |- _ => apply realloc_spec in E; unfold rlive in E
  | H : _ /\ _ |- _ => destruct H
  end.

(* bounds on the owned blocks, from "owned = live" and "live < nextid" *)
Ltac bounds OW LT :=
  simpl in OW;
  repeat match goal with
  | |- _ => match type of OW with
            | forall x, (?a = x \/ _) <-> _ =>
              lazymatch goal with
              | _ : a < _ |- _ => fail
              | _ => assert (a < _) by (apply LT; apply OW; simpl; auto)
              end
            | forall x, (_ \/ ?a = x \/ _) <-> _ =>
              lazymatch goal with
              | _ : a < _ |- _ => fail
              | _ => assert (a < _) by (apply LT; apply OW; simpl; auto)
              end
            end
  end.

Ltac fin OW :=
  unfold sound, owned; simpl;
  repeat match goal with
  | H : live _ = _ |- _ => rewrite H in *; clear H
  end;
  repeat match goal with
  | H : nextid ?h = _ |- _ => rewrite H in *; clear H
  end;
  repeat match goal with
  | |- _ /\ _ => split
  | |- NoDup [] => constructor
  | |- NoDup [_] => apply NoDup1
  | |- NoDup [_; _] => apply NoDup2
  end;
  try solve [ auto | lia | congruence | intuition (try congruence; try lia) ];
  try solve [ intros x; cbn [In]; rewrite ?In_release; cbn [In]; rewrite ?In_release; cbn [In];
              rewrite <- ?OW; intuition (subst; try congruence; try lia) ].

Lemma grow_sound : forall (noval : bool) (b : bucket) (h : heap),
  sound b h ->
  (if noval then b_vals b = None else (b_vals b = None <-> b_keys b = None)) ->
  match bucket_grow noval b h with
  | ROk b' h' => sound b' h' /\
      (if noval then b_vals b' = None else (b_vals b' = None <-> b_keys b' = None)) /\
      b_len b' = b_len b /\ b_size b < b_size b'
  | RMem b' h' => sound b' h' /\
      (if noval then b_vals b' = None else (b_vals b' = None <-> b_keys b' = None)) /\
      b_len b' = b_len b
  end.
Proof.
  intros noval [ks vs sz ln] h S K. unfold sound, owned in S; simpl in *.
  destruct S as (ND & OW & LE & LT & Z).
  unfold bucket_grow; simpl b_size; simpl b_keys; simpl b_vals; simpl b_len.
  destruct sz as [|sz].
  - assert (ks = None) by (apply Z; auto). subst ks.
    assert (vs = None) by (destruct noval; tauto). subst vs. simpl in *.
    destruct (malloc h) as [[k|] h1] eqn:E1.
    + destruct noval.
      * use_spec. fin OW.
      * destruct (malloc h1) as [[v|] h2] eqn:E2; use_spec.
        -- fin OW.
        -- fin OW.
    + use_spec. destruct noval; fin OW.
  - destruct ks as [k0|]; [|exfalso; destruct Z as [_ Z]; discriminate Z; reflexivity].
    destruct (realloc (Some k0) h) as [[k|] h1] eqn:E1.
    + destruct noval.
      * subst vs. bounds OW LT. use_spec. fin OW.
      * destruct vs as [v0|]; [|exfalso; destruct K as [K _]; discriminate K; reflexivity].
        apply NoDup2 in ND. bounds OW LT.
        destruct (realloc (Some v0) h1) as [[v|] h2] eqn:E2; use_spec.
        -- fin OW.
        -- fin OW.
    + use_spec. destruct noval; fin OW.
Qed.

(* ---------- the realloc pair of __setstate__ / fromBytes ---------- *)

Lemma resize_sound : forall (n : nat) (b : bucket) (h : heap),
  sound b h -> (b_vals b = None <-> b_keys b = None) -> b_size b <> 0 ->
  match bucket_resize n b h with
  | ROk b' h' => sound b' h' /\ n <= b_size b' /\ b_len b' = b_len b
  | RMem b' h' => sound b' h' /\ b_len b' = b_len b
  end.
Proof.
  intros n [ks vs sz ln] h S K NZ. unfold bucket_resize; simpl in *.
  destruct (n <=? sz) eqn:C.
  - apply Nat.leb_le in C. auto.
  - apply Nat.leb_gt in C.
    unfold sound, owned in S; simpl in S.
    destruct S as (ND & OW & LE & LT & Z).
    destruct ks as [k0|]; [|exfalso; apply NZ; apply Z; reflexivity].
    destruct vs as [v0|]; [|exfalso; destruct K as [K _]; discriminate K; reflexivity].
    apply NoDup2 in ND. bounds OW LT.
    destruct (realloc (Some k0) h) as [[k|] h1] eqn:E1.
    + destruct (realloc (Some v0) h1) as [[v|] h2] eqn:E2; use_spec.
      * fin OW.
      * fin OW.
    + use_spec. fin OW.
Qed.

(* ---------- _bucket_set, insert of a new key ---------- *)

Lemma insert_sound : forall (noval : bool) (b : bucket) (h : heap),
  sound b h ->
  (if noval then b_vals b = None else (b_vals b = None <-> b_keys b = None)) ->
  match bucket_insert noval b h with
  | ROk b' h' => sound b' h' /\
      (if noval then b_vals b' = None else (b_vals b' = None <-> b_keys b' = None)) /\
      b_len b' = S (b_len b)
  | RMem b' h' => sound b' h' /\
      (if noval then b_vals b' = None else (b_vals b' = None <-> b_keys b' = None)) /\
      b_len b' = b_len b
  end.
Proof.
  intros noval b h S K. unfold bucket_insert.
  destruct (b_len b =? b_size b) eqn:C.
  - apply Nat.eqb_eq in C.
    pose proof (grow_sound noval b h S K) as G.
    destruct (bucket_grow noval b h) as [b' h'|b' h']; [|exact G].
    destruct G as (S' & K' & L & Lt). simpl.
    split; [|split; [exact K'|congruence]].
    unfold sound, owned in *; simpl. intuition lia.
  - apply Nat.eqb_neq in C. simpl.
    split; [|split; [exact K|reflexivity]].
    unfold sound, owned in *; simpl. intuition lia.
Qed.

(* ---------- any number of inserts ---------- *)

Lemma inserts_gen : forall (noval : bool) (n : nat) (b0 : bucket) (h0 : heap),
  sound b0 h0 ->
  (if noval then b_vals b0 = None else (b_vals b0 = None <-> b_keys b0 = None)) ->
  match inserts noval n b0 h0 with
  | ROk b h => sound b h /\
      (if noval then b_vals b = None else (b_vals b = None <-> b_keys b = None)) /\
      b_len b = b_len b0 + n
  | RMem b h => sound b h /\
      (if noval then b_vals b = None else (b_vals b = None <-> b_keys b = None)) /\
      b_len b0 <= b_len b < b_len b0 + n
  end.
Proof.
  intros noval n b0 h0 S0 K0. induction n as [|n IH]; simpl.
  - split; [exact S0|split; [exact K0|lia]].
  - destruct (inserts noval n b0 h0) as [b h|b h].
    + destruct IH as (S & K & L).
      pose proof (insert_sound noval b h S K) as I.
      destruct (bucket_insert noval b h) as [b' h'|b' h'].
      * destruct I as (S' & K' & L'). split; [exact S'|split; [exact K'|lia]].
      * destruct I as (S' & K' & L'). split; [exact S'|split; [exact K'|lia]].
    + destruct IH as (S & K & L). split; [exact S|split; [exact K|lia]].
Qed.

Lemma empty_sound : forall fail_at, sound empty_bucket (heap0 fail_at).
Proof.
  intros. unfold sound, owned, empty_bucket, heap0; simpl.
  repeat split; auto; try constructor; try tauto; try lia.
Qed.

Lemma inserts_sound : forall (noval : bool) (n fail_at : nat),
  match inserts noval n empty_bucket (heap0 fail_at) with
  | ROk b h => sound b h /\ b_len b = n
  | RMem b h => sound b h /\ b_len b < n
  end.
Proof.
  intros noval n fail_at.
  assert (K0 : if noval then b_vals empty_bucket = None
               else (b_vals empty_bucket = None <-> b_keys empty_bucket = None))
    by (destruct noval; simpl; tauto).
  pose proof (inserts_gen noval n empty_bucket (heap0 fail_at) (empty_sound fail_at) K0) as G.
  destruct (inserts noval n empty_bucket (heap0 fail_at)) as [b h|b h];
    destruct G as (S & _ & L); simpl in L; split; auto; lia.
Qed.
