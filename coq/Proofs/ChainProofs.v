(* ChainProofs -- the pointer assignments of Model/Chain.v keep the heap in
   step with the tree: after an insertion (pset) and after a deletion (pdel)
   every leaf's `next` is its in-order successor (the last leaf's is NULL) and
   every interior node's `firstbucket` is the first leaf below it.
   Structure: (1) chains over lists; (2) frames; (3) insertion; (4) deletion;
   (5) histories of primitive writes.  No axioms. *)
From Coq Require Import ZArith List Bool Arith Lia Permutation.
From BT Require Import Model.RTree Model.TreeSpec Model.Check Model.CheckTree Model.Persist
                       Model.PersistSpec Model.Chain
                       Proofs.TreeBase Proofs.TreeSetProofs Proofs.TreeDelProofs
                       Proofs.StoreProofs Proofs.FootprintProofs Proofs.RunSyncProofs.
Import ListNotations.
Local Open Scope nat_scope.

(* ================================================================== *)
(* 1. chains                                                           *)
(* ================================================================== *)
Lemma hd_or_app : forall a b d, hd_or (a ++ b) d = hd_or a (hd_or b d).
Proof. destruct a; reflexivity. Qed.
Lemma hd_or_ne : forall a d d', a <> [] -> hd_or a d = hd_or a d'.
Proof. destruct a; [congruence | reflexivity]. Qed.

Lemma chain_app : forall h a b after,
  chain_from h (a ++ b) after <-> chain_from h a (hd_or b after) /\ chain_from h b after.
Proof.
  induction a as [|x a IH]; intros b after; simpl.
  - tauto.
  - rewrite IH, hd_or_app. tauto.
Qed.

Lemma chain_ext : forall h h' l after,
  (forall j, In j l -> nx h' j = nx h j) -> chain_from h l after -> chain_from h' l after.
Proof.
  induction l as [|x l IH]; intros after E H; simpl in *; [exact I|].
  destruct H as [H1 H2]. split; [rewrite E by (left; reflexivity); exact H1|].
  apply IH; [intros; apply E; right; assumption | exact H2].
Qed.

Lemma fbs_ext : forall h h' l,
  (forall j, In j (map fst l) -> fb h' j = fb h j) -> fbs_ok h l -> fbs_ok h' l.
Proof.
  unfold fbs_ok. intros h h' l E H. rewrite Forall_forall in H |- *. intros p Hp.
  rewrite E; [apply H; exact Hp | apply in_map; exact Hp].
Qed.
Lemma fbs_ok_app : forall h a b, fbs_ok h (a ++ b) <-> fbs_ok h a /\ fbs_ok h b.
Proof. intros. unfold fbs_ok. apply Forall_app. Qed.

Lemma chain_b_iff : forall h l after, chain_from_b h l after = true <-> chain_from h l after.
Proof.
  assert (E : forall a b, onat_eqb a b = true <-> a = b).
  { intros [x|] [y|]; simpl; try (split; congruence).
    rewrite Nat.eqb_eq. split; congruence. }
  induction l as [|x l IH]; intros after; simpl; [tauto|].
  rewrite andb_true_iff, E, IH. tauto.
Qed.

Lemma walk_chain : forall h l after, chain_from h l after ->
  forall fuel, length l <= fuel -> walk fuel h (hd_or l None) =
                                     l ++ match l with [] => [] | _ => walk (fuel - length l) h after end.
Proof.
  induction l as [|x l IH]; intros after H fuel Hf; simpl.
  - destruct fuel; reflexivity.
  - destruct fuel as [|f]; [simpl in Hf; lia|]. simpl. destruct H as [H1 H2]. f_equal.
    rewrite H1. destruct l as [|y l'].
    + simpl. rewrite Nat.sub_0_r. reflexivity.
    + specialize (IH after H2 f). simpl in IH, Hf. simpl. rewrite IH by lia. reflexivity.
Qed.

(* ================================================================== *)
(* 2. heaps                                                            *)
(* ================================================================== *)
Lemma nx_set_nx : forall h i v j, nx (set_nx h i v) j = if Nat.eqb j i then v else nx h j.
Proof. reflexivity. Qed.
Lemma fb_set_nx : forall h i v j, fb (set_nx h i v) j = fb h j.
Proof. reflexivity. Qed.
Lemma nx_set_fb : forall h i v j, nx (set_fb h i v) j = nx h j.
Proof. reflexivity. Qed.
Lemma fb_set_fb : forall h i v j, fb (set_fb h i v) j = if Nat.eqb j i then v else fb h j.
Proof. reflexivity. Qed.
Lemma nx_set_nx_same : forall h i v, nx (set_nx h i v) i = v.
Proof. intros. rewrite nx_set_nx, Nat.eqb_refl. reflexivity. Qed.
Lemma nx_set_nx_other : forall h i v j, j <> i -> nx (set_nx h i v) j = nx h j.
Proof. intros. rewrite nx_set_nx. apply Nat.eqb_neq in H. rewrite H. reflexivity. Qed.
Lemma fb_set_fb_same : forall h i v, fb (set_fb h i v) i = v.
Proof. intros. rewrite fb_set_fb, Nat.eqb_refl. reflexivity. Qed.
Lemma fb_set_fb_other : forall h i v j, j <> i -> fb (set_fb h i v) j = fb h j.
Proof. intros. rewrite fb_set_fb. apply Nat.eqb_neq in H. rewrite H. reflexivity. Qed.
Lemma fb_del_next : forall h b j, fb (del_next h b) j = fb h j.
Proof. intros. unfold del_next. destruct (nx h b); reflexivity. Qed.
Lemma nx_del_next_other : forall h b j, j <> b -> nx (del_next h b) j = nx h j.
Proof. intros. unfold del_next. destruct (nx h b); [apply nx_set_nx_other; assumption | reflexivity]. Qed.
Lemma nx_del_next_same : forall h b n, nx h b = Some n -> nx (del_next h b) b = nx h n.
Proof. intros. unfold del_next. rewrite H. apply nx_set_nx_same. Qed.
Arguments set_nx : simpl never.
Arguments set_fb : simpl never.
Arguments del_next : simpl never.

(* ================================================================== *)
(* 3. vocabulary over trees                                            *)
(* ================================================================== *)
Section CP.
Variable V : Type.
Variable veq : V -> V -> bool.
Variable vs : bool.
Variables ml mi : nat.
Hypothesis Hmi : 1 <= mi.
Notation tree := (tree V).
Notation tid := (RTree.tid V).
Notation tsize := (RTree.tsize V).
Notation is_leaf := (RTree.is_leaf V).
Notation lids := (leaf_ids V).
Notation klids := (StoreProofs.kids_lids V).
Notation ids := (TreeSpec.ids V).
Notation kids_ids := (StoreProofs.kids_ids V).
Notation subs := (FootprintProofs.subs V).
Notation tset := (RTree.tset V veq vs ml mi).
Notation tset_go := (TreeSetProofs.tset_go V veq vs ml mi).
Notation pset := (Chain.pset V veq vs ml mi).
Notation fbs := (Chain.fbs V).
Notation sub_ok := (Chain.sub_ok V).
Notation chosen := (RTree.chosen V).

Definition kfbs (l : list (Z * tree)) : list (nat * option nat) := flat_map (fun sc => fbs (snd sc)) l.

Lemma klids_cons : forall s c r, klids ((s, c) :: r) = lids c ++ klids r.
Proof. reflexivity. Qed.
Lemma klids_app : forall a b, klids (a ++ b) = klids a ++ klids b.
Proof. intros. apply flat_map_app. Qed.
Lemma kfbs_cons : forall s c r, kfbs ((s, c) :: r) = fbs c ++ kfbs r.
Proof. reflexivity. Qed.
Lemma kfbs_app : forall a b, kfbs (a ++ b) = kfbs a ++ kfbs b.
Proof. intros. apply flat_map_app. Qed.
Lemma fbs_Node : forall i kids, fbs (Node i kids) = (i, hd_or (klids kids) None) :: kfbs kids.
Proof. intros. simpl. rewrite leaf_ids_Node. reflexivity. Qed.
Lemma lids_Leaf : forall i l, lids (Leaf i l) = [i].
Proof. reflexivity. Qed.

Lemma lids_in_ids : forall t x, In x (lids t) -> In x (ids t).
Proof. intros t x H. eapply sl_in; [apply sl_leaf_ids | exact H]. Qed.
Lemma klids_in_ids : forall l x, In x (klids l) -> In x (kids_ids l).
Proof.
  intros l x H. unfold StoreProofs.kids_lids in H. apply in_flat_map in H.
  destruct H as ([s c] & Hin & Hx). simpl in Hx. eapply kids_ids_in; [exact Hin|]. apply lids_in_ids. exact Hx.
Qed.
Lemma fbs_in_ids : forall t x, In x (map fst (fbs t)) -> In x (ids t).
Proof.
  induction t as [i l|i kids IH] using (tree_ind' V); intros x H; [contradiction|].
  rewrite fbs_Node in H. rewrite ids_Node. simpl in H. destruct H as [<-|H]; [left; reflexivity|]. right.
  unfold kfbs in H. rewrite flat_map_concat_map, concat_map, map_map in H. apply in_concat in H.
  destruct H as (y & Hy & Hx). apply in_map_iff in Hy. destruct Hy as ([s c] & <- & Hin).
  rewrite Forall_forall in IH. eapply kids_ids_in; [exact Hin|]. apply (IH _ Hin). exact Hx.
Qed.
Lemma kfbs_in_ids : forall l x, In x (map fst (kfbs l)) -> In x (kids_ids l).
Proof.
  intros l x H. unfold kfbs in H. rewrite flat_map_concat_map, concat_map, map_map in H. apply in_concat in H.
  destruct H as (y & Hy & Hx). apply in_map_iff in Hy. destruct Hy as ([s c] & <- & Hin).
  eapply kids_ids_in; [exact Hin|]. apply fbs_in_ids. exact Hx.
Qed.

(* no empty interior node anywhere: every subtree has a leaf *)
Definition lne (t : tree) : Prop := forall n, In n (subs t) -> lids n <> [].
Lemma lne_self : forall t, lne t -> lids t <> [].
Proof. intros t H. apply H. apply subs_self. Qed.
Lemma lne_Leaf : forall i l, lne (Leaf i l).
Proof. intros i l n [<-|[]]. discriminate. Qed.
Lemma lne_child : forall i kids s c, lne (Node i kids) -> In (s, c) kids -> lne c.
Proof. intros i kids s c H Hin n Hn. apply H. apply tl_subs. eapply subs_child; eassumption. Qed.
Lemma lne_Node : forall i kids, klids kids <> [] -> (forall s c, In (s, c) kids -> lne c) -> lne (Node i kids).
Proof.
  intros i kids H1 H2 n Hn. rewrite subs_Node in Hn. destruct Hn as [<-|Hn].
  - rewrite leaf_ids_Node. exact H1.
  - unfold ksubs in Hn. apply in_flat_map in Hn. destruct Hn as ([s c] & Hin & Hn). eapply H2; eassumption.
Qed.
Lemma klids_ne_hd : forall s c r, lne c -> klids ((s, c) :: r) <> [].
Proof. intros s c r H E. rewrite klids_cons in E. apply app_eq_nil in E. destruct E as [E _]. exact (lne_self _ H E). Qed.
Lemma pne_lne : forall t, pne V t -> lne t.
Proof.
  intros t H n Hn. apply (lids_ne V 1 2); [lia | lia |]. intros m Hm. apply H.
  clear H. revert n Hn m Hm. induction t as [i l|i kids IH] using (tree_ind' V); intros n Hn m Hm.
  - destruct Hn as [<-|[]]. exact Hm.
  - rewrite subs_Node in Hn. destruct Hn as [<-|Hn]; [exact Hm|].
    unfold ksubs in Hn. apply in_flat_map in Hn. destruct Hn as ([s c] & Hin & Hn).
    rewrite subs_Node. right. eapply ksubs_in; [exact Hin|]. rewrite Forall_forall in IH.
    eapply (IH _ Hin); eassumption.
Qed.

Lemma sub_ok_Node : forall h i kids after,
  sub_ok h (Node i kids) after <->
  chain_from h (klids kids) after /\ fb h i = hd_or (klids kids) None /\ fbs_ok h (kfbs kids).
Proof.
  intros. unfold Chain.sub_ok. rewrite leaf_ids_Node, fbs_Node. unfold fbs_ok.
  split.
  - intros [A B]. inversion B; subst. auto.
  - intros (A & B & C). split; [exact A|]. constructor; assumption.
Qed.

Lemma NoDup_app_inv : forall (a b : list nat), NoDup (a ++ b) ->
  NoDup a /\ NoDup b /\ (forall x, In x a -> In x b -> False).
Proof.
  intros a b H. split; [eapply NoDup_app_l; exact H|]. split; [eapply NoDup_app_r; exact H|].
  intros x. apply NoDup_app_disj. exact H.
Qed.

(* ---------- splitting an interior node ---------- *)
Lemma div2_split : forall n, 2 <= n -> 1 <= Nat.div2 n /\ Nat.div2 n < n.
Proof.
  intros n H. destruct n as [|[|n]]; try lia. split; [simpl; lia|].
  apply Nat.lt_div2. lia.
Qed.

Lemma fb_of_ok : forall h (c0 : tree), fbs_ok h (fbs c0) -> fb_of V h c0 = hd_or (lids c0) None.
Proof.
  intros h c0 H. unfold fb_of. destruct c0 as [j l|j kk]; [reflexivity|]. simpl RTree.is_leaf. cbv iota.
  rewrite fbs_Node in H. inversion H; subst. simpl in H2. rewrite leaf_ids_Node. exact H2.
Qed.

Lemma psplit_node_ok : forall h j kk f after,
  sub_ok h (Node j kk) after -> lne (Node j kk) -> 2 <= length kk ->
  Forall (fun x => x < f) (ids (Node j kk)) ->
  let m := Nat.div2 (length kk) in
  let a := Node j (firstn m kk) in
  let b := Node f (skipn m kk) in
  let h' := psplit V h (Node j kk) f in
  chain_from h' (lids a ++ lids b) after /\ fbs_ok h' (fbs a ++ fbs b) /\ lne a /\ lne b /\
  lids a ++ lids b = klids kk /\
  (forall x, nx h' x = nx h x) /\ (forall x, x <> f -> fb h' x = fb h x).
Proof.
  intros h j kk f after Hok Hl Hlen Hlt m a b h'.
  apply sub_ok_Node in Hok. destruct Hok as (Hc & Hj & Hk).
  destruct (div2_split _ Hlen) as [Hm1 Hm2]. fold m in Hm1, Hm2.
  assert (Ekk : kk = firstn m kk ++ skipn m kk) by (symmetry; apply firstn_skipn).
  destruct (firstn m kk) as [|[s1 c1] F] eqn:EF.
  { apply (f_equal (@length _)) in EF. rewrite firstn_length in EF. simpl in EF. lia. }
  destruct (skipn m kk) as [|[s0 c0] S] eqn:ES.
  { apply (f_equal (@length _)) in ES. rewrite skipn_length in ES. simpl in ES. lia. }
  assert (Hkid : forall s c, In (s, c) kk -> lne c) by (intros; eapply lne_child; eassumption).
  assert (L1 : lne c1) by (apply (Hkid s1); rewrite Ekk; left; reflexivity).
  assert (L0 : lne c0) by (apply (Hkid s0); rewrite Ekk; apply in_or_app; right; left; reflexivity).
  assert (Eh : h' = set_fb h f (fb_of V h c0)).
  { unfold h', psplit. fold m. rewrite ES. reflexivity. }
  assert (Elids : lids a ++ lids b = klids kk).
  { unfold a, b. rewrite !leaf_ids_Node, <- klids_app, <- Ekk. reflexivity. }
  rewrite Ekk, kfbs_app in Hk. apply fbs_ok_app in Hk. destruct Hk as [HkF HkS].
  rewrite ids_Node in Hlt. pose proof (Forall_inv Hlt) as Hjf. pose proof (Forall_inv_tail Hlt) as Hlt'. simpl in Hjf.
  assert (Hlt'' : forall x, In x (kids_ids kk) -> x <> f).
  { intros x Hx. rewrite Forall_forall in Hlt'. specialize (Hlt' x Hx). lia. }
  split; [|split; [|split; [|split; [|split; [exact Elids|split]]]]].
  - rewrite Elids. apply chain_ext with h; [|exact Hc]. intros. rewrite Eh. reflexivity.
  - unfold a, b. rewrite !fbs_Node. rewrite Eh. apply fbs_ok_app. split.
    + constructor.
      * cbn [fst snd]. rewrite fb_set_fb_other by lia. rewrite Hj. rewrite Ekk at 1. rewrite klids_app, hd_or_app.
        apply hd_or_ne. apply klids_ne_hd. exact L1.
      * apply fbs_ext with h; [|exact HkF]. intros x Hx. apply fb_set_fb_other. apply Hlt''.
        rewrite Ekk, kids_ids_app. apply in_or_app. left. apply kfbs_in_ids. exact Hx.
    + constructor.
      * cbn [fst snd]. rewrite fb_set_fb_same. rewrite fb_of_ok.
        -- rewrite klids_cons, hd_or_app. apply hd_or_ne. apply lne_self. exact L0.
        -- rewrite kfbs_cons in HkS. apply fbs_ok_app in HkS. tauto.
      * apply fbs_ext with h; [|exact HkS]. intros x Hx. apply fb_set_fb_other. apply Hlt''.
        rewrite Ekk, kids_ids_app. apply in_or_app. right. apply kfbs_in_ids. exact Hx.
  - apply lne_Node; [apply klids_ne_hd; exact L1|]. intros s c Hin. apply (Hkid s). rewrite Ekk. apply in_or_app. left. exact Hin.
  - apply lne_Node; [apply klids_ne_hd; exact L0|]. intros s c Hin. apply (Hkid s). rewrite Ekk. apply in_or_app. right. exact Hin.
  - intros. rewrite Eh. reflexivity.
  - intros x Hx. rewrite Eh. apply fb_set_fb_other. exact Hx.
Qed.

(* ================================================================== *)
(* 4. insertion                                                        *)
(* ================================================================== *)
Fixpoint pset_go (h : heap) (fresh : nat) (k : Z) (v : V) (iu : bool) (l : list (Z * tree))
  : heap * list (Z * tree) * nat * bool :=
  match l with
  | [] => (h, [], fresh, false)
  | (s, c) :: rest =>
    if chosen k rest then
      let r := tset fresh c k v iu in
      let h1 := pset h fresh c k v iu in
      let c' := s_tree r in
      match s_st r with
      | St1 =>
        if (max_for V ml mi c' <? tsize c')%nat then
          (psplit V h1 c' (s_fresh r), fst (fst (grow_at V (s_fresh r) s c' rest)), S (s_fresh r), true)
        else (h1, (s, c') :: rest, s_fresh r, false)
      | _ => (h1, (s, c') :: rest, s_fresh r, false)
      end
    else let '(h', l', f', g) := pset_go h fresh k v iu rest in (h', (s, c) :: l', f', g)
  end.

Lemma pset_Node : forall h fresh i x r k v iu,
  pset h fresh (Node i (x :: r)) k v iu =
  let '(h1, kids1, fresh1, grew) := pset_go h fresh k v iu (x :: r) in
  if grew && (2 * mi <=? length kids1)%nat
  then psplit V (set_fb h1 fresh1 (fb h1 i)) (Node fresh1 kids1) (S fresh1) else h1.
Proof.
  intros. set (kids := x :: r).
  unfold Chain.pset at 1. cbv beta iota. fold pset.
  match goal with |- context [?f kids] =>
    match type of f with
    | list (Z * tree) -> heap * list (Z * tree) * nat * bool =>
      assert (E : forall l, f l = pset_go h fresh k v iu l)
    end
  end.
  { induction l as [|[s c] rest IH]; [reflexivity|].
    simpl pset_go. rewrite <- IH. reflexivity. }
  rewrite E. reflexivity.
Qed.

Lemma pset_go_proj : forall i single h fresh k v iu l,
  let '(l', _, _, _, f', g) := tset_go i single fresh k v iu l in
  let '(_, l1, f1, g1) := pset_go h fresh k v iu l in l1 = l' /\ f1 = f' /\ g1 = g.
Proof.
  induction l as [|[s c] rest IH]; [simpl; auto|].
  cbn [TreeSetProofs.tset_go pset_go]. destruct (chosen k rest).
  - destruct (s_st (tset fresh c k v iu)); auto.
    destruct (max_for V ml mi (s_tree (tset fresh c k v iu)) <? tsize (s_tree (tset fresh c k v iu))); auto.
    unfold grow_at. destruct (split_node V _ _) as [a b]. simpl. auto.
  - destruct (tset_go i single fresh k v iu rest) as [[[[[l' st] rv] ev] f'] g].
    destruct (pset_go h fresh k v iu rest) as [[[h1 l1] f1] g1]. destruct IH as (-> & -> & ->). auto.
Qed.

(* what one insertion below t guarantees *)
Definition Pset (t : tree) : Prop := forall h fresh k v iu after,
  NoDup (ids t) -> Forall (fun j => j < fresh) (ids t) -> lne t -> sub_ok h t after ->
  let r := tset fresh t k v iu in
  let h' := pset h fresh t k v iu in
  sub_ok h' (s_tree r) after /\ lne (s_tree r) /\
  (forall j, j < fresh -> ~ In j (ids t) -> nx h' j = nx h j /\ fb h' j = fb h j) /\
  (forall x, hd_or (lids (s_tree r)) x = hd_or (lids t) x).

Lemma Forall_lt_in : forall (l : list nat) f x, Forall (fun j => j < f) l -> In x l -> x < f.
Proof. intros l f x H. rewrite Forall_forall in H. apply H. Qed.

Lemma pset_go_ok : forall k v iu l, Forall (fun sc => Pset (snd sc)) l ->
  forall h fresh after,
  NoDup (kids_ids l) -> Forall (fun j => j < fresh) (kids_ids l) -> (forall s c, In (s, c) l -> lne c) ->
  chain_from h (klids l) after -> fbs_ok h (kfbs l) ->
  let '(h', l', f', g) := pset_go h fresh k v iu l in
  chain_from h' (klids l') after /\ fbs_ok h' (kfbs l') /\ (forall s c, In (s, c) l' -> lne c) /\
  (forall j, j < fresh -> ~ In j (kids_ids l) -> nx h' j = nx h j /\ fb h' j = fb h j) /\
  (forall x, hd_or (klids l') x = hd_or (klids l) x) /\ (l <> [] -> l' <> []).
Proof.
  intros k v iu l IH. induction IH as [|[s c] rest Hc _ IHr]; intros h fresh after ND Hlt Hl Hch Hfb.
  - simpl. repeat split; auto.
  - simpl in Hc. rewrite kids_ids_cons in ND, Hlt. apply NoDup_app_inv in ND. destruct ND as (NDc & NDr & Dis).
    apply Forall_app in Hlt. destruct Hlt as [Hltc Hltr].
    rewrite klids_cons in Hch. apply chain_app in Hch. destruct Hch as [Hchc Hchr].
    rewrite kfbs_cons in Hfb. apply fbs_ok_app in Hfb. destruct Hfb as [Hfbc Hfbr].
    assert (Lc : lne c) by (eapply Hl; left; reflexivity).
    assert (Lr : forall s0 c0, In (s0, c0) rest -> lne c0) by (intros; eapply Hl; right; eassumption).
    cbn [pset_go]. destruct (chosen k rest) eqn:Ch.
    + destruct (Hc h fresh k v iu (hd_or (klids rest) after) NDc Hltc Lc (conj Hchc Hfbc))
        as ((Hch1 & Hfb1) & L1 & Fr1 & Hd1).
      destruct (set_ids_ok V veq vs ml mi fresh c k v iu (conj NDc Hltc)) as ((NDc' & Hltc') & Hle & Htid).
      set (r := tset fresh c k v iu) in *. set (h1 := pset h fresh c k v iu) in *.
      assert (Rch : chain_from h1 (klids rest) after).
      { apply chain_ext with h; [|exact Hchr]. intros j Hj. apply klids_in_ids in Hj.
        apply Fr1; [eapply Forall_lt_in; eassumption | intro Hj'; eapply Dis; eassumption]. }
      assert (Rfb : fbs_ok h1 (kfbs rest)).
      { apply fbs_ext with h; [|exact Hfbr]. intros j Hj. apply kfbs_in_ids in Hj.
        apply Fr1; [eapply Forall_lt_in; eassumption | intro Hj'; eapply Dis; eassumption]. }
      assert (Keep :
        chain_from h1 (klids ((s, s_tree r) :: rest)) after /\ fbs_ok h1 (kfbs ((s, s_tree r) :: rest)) /\
        (forall s0 c0, In (s0, c0) ((s, s_tree r) :: rest) -> lne c0) /\
        (forall j, j < fresh -> ~ In j (ids c ++ kids_ids rest) -> nx h1 j = nx h j /\ fb h1 j = fb h j) /\
        (forall x, hd_or (klids ((s, s_tree r) :: rest)) x = hd_or (klids ((s, c) :: rest)) x) /\
        ((s, c) :: rest <> [] -> (s, s_tree r) :: rest <> [])).
      { split; [rewrite klids_cons; apply chain_app; split; assumption|].
        split; [rewrite kfbs_cons; apply fbs_ok_app; split; assumption|].
        split; [intros s0 c0 [E|Hin]; [inversion E; subst; exact L1 | eapply Lr; eassumption]|].
        split; [intros j Hj Hn; apply Fr1; [exact Hj | intro; apply Hn; apply in_or_app; left; assumption]|].
        split; [intros x; rewrite !klids_cons, !hd_or_app; apply Hd1 | discriminate]. }
      destruct (s_st r) eqn:Est; [exact Keep | exact Keep |].
      destruct (max_for V ml mi (s_tree r) <? tsize (s_tree r)) eqn:Ebig; [|exact Keep].
      clear Keep. apply Nat.ltb_lt in Ebig.
      unfold grow_at. destruct (s_tree r) as [j l'|j kk] eqn:Et.
      * (* a leaf splits *)
        simpl split_node. cbn [fst]. simpl in Htid.
        assert (Hj : In j (ids c)) by (rewrite Htid; apply tid_in_ids).
        assert (Hjf : j < s_fresh r) by (eapply Forall_lt_in; [exact Hltc' | left; reflexivity]).
        simpl in Hch1. destruct Hch1 as [Hnj _].
        assert (Ec : forall x, hd_or (lids c) x = Some j) by (intros x; rewrite <- Hd1; reflexivity).
        unfold psplit.
        split.
        { rewrite !klids_cons, !lids_Leaf. cbn [chain_from hd_or app].
          split; [rewrite nx_set_nx_same; reflexivity|].
          split; [rewrite nx_set_nx_other by lia; rewrite nx_set_nx_same; exact Hnj|].
          apply chain_ext with h1; [|exact Rch]. intros x Hx. apply klids_in_ids in Hx.
          assert (x < fresh) by (eapply Forall_lt_in; eassumption).
          rewrite nx_set_nx_other by (intro; subst; eapply Dis; eassumption).
          apply nx_set_nx_other. lia. }
        split; [rewrite !kfbs_cons; simpl; apply fbs_ext with h1; [reflexivity | exact Rfb]|].
        split.
        { intros s0 c0 [E|[E|Hin]]; [inversion E; apply lne_Leaf | inversion E; apply lne_Leaf | eapply Lr; eassumption]. }
        split.
        { intros x Hx Hn. rewrite fb_set_nx, fb_set_nx.
          rewrite nx_set_nx_other by (intro; subst; apply Hn; apply in_or_app; left; exact Hj).
          rewrite nx_set_nx_other by lia.
          apply Fr1; [exact Hx | intro; apply Hn; apply in_or_app; left; assumption]. }
        split; [|discriminate].
        intros x. rewrite !klids_cons, !lids_Leaf, !hd_or_app, Ec. reflexivity.
      * (* an interior node splits *)
        simpl split_node. cbn [fst]. unfold RTree.max_for in Ebig. simpl in Ebig.
        assert (Hlen : 2 <= length kk) by lia.
        destruct (psplit_node_ok h1 j kk (s_fresh r) (hd_or (klids rest) after) (conj Hch1 Hfb1) L1 Hlen Hltc')
          as (Pc & Pf & La & Lb & El & Pnx & Pfb).
        set (h2 := psplit V h1 (Node j kk) (s_fresh r)) in *.
        split.
        { rewrite !klids_cons, app_assoc. apply chain_app. split; [exact Pc|].
          apply chain_ext with h1; [intros; apply Pnx | exact Rch]. }
        split.
        { rewrite !kfbs_cons, app_assoc. apply fbs_ok_app. split; [exact Pf|].
          apply fbs_ext with h1; [|exact Rfb]. intros x Hx. apply kfbs_in_ids in Hx. apply Pfb.
          assert (x < fresh) by (eapply Forall_lt_in; eassumption). lia. }
        split.
        { intros s0 c0 [E|[E|Hin]]; [inversion E; exact La | inversion E; exact Lb | eapply Lr; eassumption]. }
        split.
        { intros x Hx Hn. rewrite Pnx, Pfb by lia.
          apply Fr1; [exact Hx | intro; apply Hn; apply in_or_app; left; assumption]. }
        split; [|discriminate].
        intros x. rewrite !klids_cons, app_assoc, El. rewrite <- leaf_ids_Node with (i := j).
        rewrite !hd_or_app. apply Hd1.
    + specialize (IHr h fresh after NDr Hltr Lr Hchr Hfbr).
      destruct (pset_go h fresh k v iu rest) as [[[h' l'] f'] g].
      destruct IHr as (A & B & C & D & E & _).
      assert (Frc : forall j, In j (ids c) -> nx h' j = nx h j /\ fb h' j = fb h j).
      { intros j Hj. apply D; [exact (Forall_lt_in _ _ _ Hltc Hj) | intro; eapply Dis; eassumption]. }
      split.
      { rewrite klids_cons. apply chain_app. split; [|exact A]. rewrite E.
        apply chain_ext with h; [|exact Hchc]. intros j Hj. apply Frc. apply lids_in_ids. exact Hj. }
      split.
      { rewrite kfbs_cons. apply fbs_ok_app. split; [|exact B].
        apply fbs_ext with h; [|exact Hfbc]. intros j Hj. apply Frc. apply fbs_in_ids. exact Hj. }
      split; [intros s0 c0 [E0|Hin]; [inversion E0; subst; exact Lc | eapply C; eassumption]|].
      split; [intros j Hj Hn; apply D; [exact Hj | intro; apply Hn; apply in_or_app; right; assumption]|].
      split; [intros x; rewrite !klids_cons, !hd_or_app, E; reflexivity | discriminate].
Qed.

Lemma klids_two : forall s1 (a : tree) s2 (b : tree), klids [(s1, a); (s2, b)] = lids a ++ lids b.
Proof. intros. unfold StoreProofs.kids_lids. simpl. rewrite app_nil_r. reflexivity. Qed.
Lemma kfbs_two : forall s1 (a : tree) s2 (b : tree), kfbs [(s1, a); (s2, b)] = fbs a ++ fbs b.
Proof. intros. unfold kfbs. simpl. rewrite app_nil_r. reflexivity. Qed.

Lemma go_ids_lt : forall i single k v iu (l : list (Z * tree)) fresh,
  NoDup (kids_ids l) -> Forall (fun j => j < fresh) (kids_ids l) ->
  let '(l1, _, _, _, f', _) := tset_go i single fresh k v iu l in
  fresh <= f' /\ Forall (fun j => j < f') (kids_ids l1).
Proof.
  intros i single k v iu l fresh ND Hlt.
  pose proof (go_ids V veq vs ml mi i single k v iu l) as G.
  assert (IH : Forall (fun sc => forall fresh, set_ids_post V fresh (snd sc) (tset fresh (snd sc) k v iu)) l).
  { rewrite Forall_forall. intros sc _ f. apply set_ids. }
  specialize (G IH fresh). unfold go_ids_post in G.
  destruct (tset_go i single fresh k v iu l) as [[[[[l1 st] rv] ev] f'] g].
  destruct G as (Hle & news & Hp & [_ Hn]). split; [exact Hle|].
  rewrite Forall_forall. intros x Hx. apply (Permutation_in _ Hp) in Hx. apply in_app_or in Hx.
  destruct Hx as [Hx|Hx]; [apply Hn in Hx; lia|]. pose proof (Forall_lt_in _ _ _ Hlt Hx). lia.
Qed.

Lemma Pset_all : forall t, Pset t.
Proof.
  induction t as [i l|i kids IH] using (tree_ind' V); intros h fresh k v iu after ND Hlt Hl Hok r h'.
  - unfold r, h'. simpl. destruct (lset V veq vs l k v iu) as [[l' st] rv]. simpl.
    split; [exact Hok|]. split; [apply lne_Leaf|]. split; [auto | reflexivity].
  - destruct kids as [|x rr].
    { exfalso. apply (lne_self _ Hl). reflexivity. }
    unfold r, h'. clear r h'. rewrite tset_Node, pset_Node.
    set (kids := x :: rr) in *.
    apply sub_ok_Node in Hok. destruct Hok as (Hch & Hfi & Hfb).
    rewrite ids_Node in ND, Hlt. inversion ND as [|? ? Hni NDk]; subst.
    pose proof (Forall_inv Hlt) as Hif. pose proof (Forall_inv_tail Hlt) as Hltk. simpl in Hif.
    assert (Lk : forall s c, In (s, c) kids -> lne c) by (intros; eapply lne_child; eassumption).
    pose proof (pset_go_ok k v iu kids IH h fresh after NDk Hltk Lk Hch Hfb) as G.
    pose proof (pset_go_proj i (length kids =? 1) h fresh k v iu kids) as P.
    pose proof (go_ids_lt i (length kids =? 1) k v iu kids fresh NDk Hltk) as I.
    destruct (tset_go i (length kids =? 1) fresh k v iu kids) as [[[[[kids1 st] rv] ev1] fresh1] g].
    destruct (pset_go h fresh k v iu kids) as [[[h1 l1] f1] g1].
    destruct P as (-> & -> & ->). destruct I as [Hle Hlt1].
    destruct G as (A & B & C & D & E & F).
    assert (Hne1 : kids1 <> []) by (apply F; discriminate).
    assert (Hi1 : fb h1 i = hd_or (klids kids1) None).
    { destruct (D i Hif Hni) as [_ ->]. rewrite Hfi. symmetry. apply E. }
    assert (Hk1 : klids kids1 <> []).
    { destruct kids1 as [|[s1 c1] r1]; [congruence|]. apply klids_ne_hd. eapply C. left. reflexivity. }
    destruct (g && (2 * mi <=? length kids1)) eqn:Eg.
    + (* the root splits *)
      apply andb_true_iff in Eg. destruct Eg as [_ Eg]. apply Nat.leb_le in Eg.
      unfold split_root. simpl split_node.
      set (h2 := set_fb h1 fresh1 (fb h1 i)).
      assert (Hok2 : sub_ok h2 (Node fresh1 kids1) after).
      { apply sub_ok_Node. split; [apply chain_ext with h1; [reflexivity | exact A]|].
        split; [unfold h2; rewrite fb_set_fb_same; exact Hi1|].
        apply fbs_ext with h1; [|exact B]. intros y Hy. apply kfbs_in_ids in Hy.
        pose proof (Forall_lt_in _ _ _ Hlt1 Hy). unfold h2. apply fb_set_fb_other. lia. }
      assert (Hl2 : lne (Node fresh1 kids1)) by (apply lne_Node; assumption).
      assert (Hlen : 2 <= length kids1) by lia.
      assert (Hlt2 : Forall (fun y => y < S fresh1) (ids (Node fresh1 kids1))).
      { rewrite ids_Node. constructor; [lia|]. eapply Forall_impl; [|exact Hlt1]. simpl. intros. lia. }
      destruct (psplit_node_ok h2 fresh1 kids1 (S fresh1) after Hok2 Hl2 Hlen Hlt2)
        as (Pc & Pf & La & Lb & El & Pnx & Pfb).
      cbn [s_tree]. split; [|split; [|split]].
      * apply sub_ok_Node. rewrite klids_two, kfbs_two.
        split; [exact Pc|]. split; [|exact Pf].
        rewrite Pfb by lia. unfold h2. rewrite fb_set_fb_other by lia. rewrite Hi1, El. reflexivity.
      * apply lne_Node; [rewrite klids_two, El; exact Hk1|].
        intros s c [E0|[E0|[]]]; inversion E0; subst; assumption.
      * intros j Hj Hn. rewrite Pnx, Pfb by lia. unfold h2. rewrite nx_set_fb, fb_set_fb_other by lia.
        apply D; [exact Hj | intro; apply Hn; right; assumption].
      * intros x0. rewrite (leaf_ids_Node V i kids). rewrite (leaf_ids_Node V i). rewrite klids_two, El. apply E.
    + cbn [s_tree]. split; [|split; [|split]].
      * apply sub_ok_Node. auto.
      * apply lne_Node; assumption.
      * intros j Hj Hn. apply D; [exact Hj | intro; apply Hn; right; assumption].
      * intros x0. rewrite !leaf_ids_Node. apply E.
Qed.

(* ================================================================== *)
(* 5. deletion                                                         *)
(* ================================================================== *)
Notation pdel := (Chain.pdel V).
Notation del_go := (TreeDelProofs.del_go V).

Fixpoint pdel_go (h : heap) (i : nat) (k : Z) (prev : option tree) (l : list (Z * tree)) : heap :=
  match l with
  | [] => h
  | (s, c) :: rest =>
    if chosen k rest then
      match tdel V c k with
      | None => h
      | Some r =>
        let h1 := pdel h c k in
        let c' := d_tree r in
        let h2 := if d_first r then
                    match prev with
                    | Some p => del_next h1 (last_leaf_id V p)
                    | None => set_fb h1 i (fb h1 (tid c'))
                    end
                  else h1 in
        if negb (tsize c' =? 0) then h2
        else if is_leaf c' then
               match prev with
               | Some p => del_next h2 (tid p)
               | None => set_fb h2 i (nx h2 (tid c'))
               end
             else h2
      end
    else pdel_go h i k (Some c) rest
  end.

Lemma pdel_Node : forall h i kids k, pdel h (Node i kids) k = pdel_go h i k None kids.
Proof.
  intros. simpl.
  match goal with |- ?f None kids = _ =>
    assert (E : forall l prev, f prev l = pdel_go h i k prev l) end.
  { induction l as [|[s c] r IH]; intros; [reflexivity|]. cbn [pdel_go]. rewrite <- IH. reflexivity. }
  apply E.
Qed.

(* all children of a node are of one kind, everywhere *)
Definition uk (t : tree) : Prop :=
  forall i kids, In (Node i kids) (subs t) -> exists lf, Forall (fun sc => is_leaf (snd sc) = lf) kids.
Lemma uk_child : forall i kids s c, uk (Node i kids) -> In (s, c) kids -> uk c.
Proof. intros i kids s c H Hin j kk Hn. apply (H j kk). apply tl_subs. eapply subs_child; eassumption. Qed.

Lemma last_leaf_lne : forall t, lne t -> last_leaf_id V t = last (lids t) 0.
Proof.
  induction t as [i l|i kids IH] using (tree_ind' V); intros H; [reflexivity|].
  rewrite leaf_ids_Node. pose proof (lne_self _ H) as Hs. rewrite leaf_ids_Node in Hs.
  assert (Hk : forall s c, In (s, c) kids -> lne c) by (intros; eapply lne_child; eassumption).
  clear H. simpl.
  assert (G : forall l d, Forall (fun sc => lne (snd sc) -> last_leaf_id V (snd sc) = last (lids (snd sc)) 0) l ->
              (forall s c, In (s, c) l -> lne c) ->
              (fix go (l : list (Z * tree)) (d : nat) : nat :=
                 match l with [] => d | (_, c) :: rest => go rest (last_leaf_id V c) end) l d =
              match l with [] => d | _ => last (klids l) 0 end).
  { induction l as [|[s c] r IHl]; intros d F Hp; [reflexivity|].
    inversion F; subst. simpl in H1. rewrite IHl; [|assumption|intros; eapply Hp; right; eassumption].
    rewrite klids_cons. destruct r as [|[s2 c2] r2].
    - simpl. rewrite app_nil_r. apply H1. eapply Hp. left. reflexivity.
    - rewrite last_app_ne; [reflexivity|]. apply klids_ne_hd. eapply Hp. right. left. reflexivity. }
  rewrite G by assumption. destruct kids; [exfalso; apply Hs; reflexivity | reflexivity].
Qed.

Lemma last_split : forall (l : list nat), l <> [] -> exists A, l = A ++ [last l 0].
Proof. intros l H. exists (removelast l). apply app_removelast_last. exact H. Qed.

(* what one deletion below t guarantees *)
Definition Pdel (t : tree) : Prop := forall h k r after,
  NoDup (ids t) -> lne t -> uk t -> sub_ok h t after -> tdel V t k = Some r ->
  let h' := pdel h t k in
  let t' := d_tree r in
  (forall j, ~ In j (ids t) -> nx h' j = nx h j /\ fb h' j = fb h j) /\
  tid t' = tid t /\ is_leaf t' = is_leaf t /\
  if d_first r then
    exists f rest kids', t' = Node (tid t) kids' /\
      lids t = f :: rest /\ klids kids' = rest /\ nx h' f = hd_or rest after /\
      chain_from h' rest after /\ fb h' (tid t) = hd_or rest after /\
      fbs_ok h' (kfbs kids') /\ (forall s c, In (s, c) kids' -> lne c)
  else
    sub_ok h' t' after /\ (forall x, hd_or (lids t') x = hd_or (lids t) x) /\ lne t'.

Definition Lp_of (prev : option tree) : list nat := match prev with Some p => lids p | None => [] end.
Definition Ip_of (prev : option tree) : list nat := match prev with Some p => ids p | None => [] end.
Lemma Lp_in_Ip : forall prev x, In x (Lp_of prev) -> In x (Ip_of prev).
Proof. destruct prev; simpl; [apply lids_in_ids | auto]. Qed.

Definition go_post (h h' : heap) (i : nat) (prev : option tree) (l l' : list (Z * tree)) (fg : bool)
           (after : option nat) : Prop :=
  (forall j, ~ In j (Ip_of prev ++ kids_ids l) -> nx h' j = nx h j) /\
  (forall j, j <> i -> ~ In j (kids_ids l) -> fb h' j = fb h j) /\
  (forall s c, In (s, c) l' -> lne c) /\
  fbs_ok h' (kfbs l') /\
  if fg then
    prev = None /\ exists f rest, klids l = f :: rest /\ klids l' = rest /\ nx h' f = hd_or rest after /\
                                  chain_from h' rest after /\ fb h' i = hd_or rest after
  else
    chain_from h' (Lp_of prev ++ klids l') after /\ fb h' i = fb h i /\
    (prev = None -> (forall x, hd_or (klids l') x = hd_or (klids l) x) /\ l' <> []).

(* unlinking the successor f of z: z.next = z.next.next *)
Lemma unlink_chain : forall h A z f R after,
  ~ In z A -> z <> f -> ~ In z R ->
  chain_from h (A ++ [z] ++ f :: R) after ->
  let h' := del_next h z in
  chain_from h' (A ++ [z] ++ R) after /\ (forall j, j <> z -> nx h' j = nx h j) /\
  (forall j, fb h' j = fb h j).
Proof.
  intros h A z f R after HA Hf HR H h'.
  apply chain_app in H. destruct H as [H1 H2]. simpl in H2. destruct H2 as (Hz & Hf' & HRc).
  assert (Fr : forall j, j <> z -> nx h' j = nx h j) by (intros; apply nx_del_next_other; assumption).
  split; [|split; [exact Fr | intros; apply fb_del_next]].
  apply chain_app. split.
  - apply chain_ext with h; [intros j Hj; apply Fr; intro; subst; contradiction | exact H1].
  - simpl. split.
    + unfold h'. rewrite (nx_del_next_same _ _ _ Hz). exact Hf'.
    + apply chain_ext with h; [intros j Hj; apply Fr; intro; subst; contradiction | exact HRc].
Qed.

Lemma sub_ok_Leaf : forall h j l after, sub_ok h (Leaf j l) after <-> nx h j = after.
Proof.
  intros. unfold Chain.sub_ok. simpl. unfold fbs_ok. split; [tauto|]. intros H. repeat split; auto.
Qed.

Lemma pdel_go_ok : forall k l, Forall (fun sc => Pdel (snd sc)) l ->
  forall h i single prev first after lf l' v ev fg,
  NoDup (Ip_of prev ++ kids_ids l) -> ~ In i (Ip_of prev ++ kids_ids l) ->
  (forall s c, In (s, c) l -> lne c /\ uk c /\ is_leaf c = lf) ->
  (forall p, prev = Some p -> lne p /\ is_leaf p = lf) ->
  chain_from h (Lp_of prev ++ klids l) after -> fbs_ok h (kfbs l) ->
  del_go i single k prev first l = Some (l', v, ev, fg) ->
  go_post h (pdel_go h i k prev l) i prev l l' fg after.
Proof.
  intros k l IH. induction IH as [|[s c] rest Hc _ IHr];
    intros h i single prev first after lf l' v ev fg ND Hni Hl Hp Hch Hfb H; [discriminate H|].
  simpl in Hc. rewrite kids_ids_cons in ND, Hni.
  apply NoDup_app_inv in ND. destruct ND as (NDp & NDcr & Disp).
  apply NoDup_app_inv in NDcr. destruct NDcr as (NDc & NDr & Disc).
  rewrite klids_cons in Hch. apply chain_app in Hch. destruct Hch as [Cp Ccr].
  apply chain_app in Ccr. destruct Ccr as [Cc Cr].
  rewrite kfbs_cons in Hfb. apply fbs_ok_app in Hfb. destruct Hfb as [Fc Fr].
  destruct (Hl s c (or_introl eq_refl)) as (Lc & Uc & Kc).
  assert (Lr : forall s0 c0, In (s0, c0) rest -> lne c0) by (intros s0 c0 Hin; apply (Hl s0 c0); right; exact Hin).
  set (afc := hd_or (klids rest) after) in *.
  cbn [pdel_go]. destruct (chosen k rest) eqn:Ch.
  - destruct (tdel V c k) as [r|] eqn:Et; [|cbn [TreeDelProofs.del_go] in H; rewrite Ch, Et in H; discriminate H].
    destruct (here_facts V _ _ _ _ _ _ _ _ _ _ _ _ _ Ch Et H) as (_ & F2 & _ & _ & F5 & _).
    destruct (Hc h k r afc NDc Lc Uc (conj Cc Fc) Et) as (Fr1 & Tid & Tlf & Cases).
    set (h1 := pdel h c k) in *. set (c' := d_tree r) in *.
    (* what the recursive call left alone *)
    assert (Op : forall j, In j (Ip_of prev) -> nx h1 j = nx h j /\ fb h1 j = fb h j).
    { intros j Hj. apply Fr1. intro Hc'. apply (Disp j Hj). apply in_or_app. left. exact Hc'. }
    assert (Or : forall j, In j (kids_ids rest) -> nx h1 j = nx h j /\ fb h1 j = fb h j).
    { intros j Hj. apply Fr1. intro Hc'. apply (Disc j Hc' Hj). }
    assert (Cp1 : chain_from h1 (Lp_of prev) (hd_or (lids c ++ klids rest) after)).
    { apply chain_ext with h; [|exact Cp]. intros j Hj. apply Op. apply Lp_in_Ip. exact Hj. }
    assert (Cr1 : chain_from h1 (klids rest) after).
    { apply chain_ext with h; [|exact Cr]. intros j Hj. apply Or. apply klids_in_ids. exact Hj. }
    assert (Fr_1 : fbs_ok h1 (kfbs rest)).
    { apply fbs_ext with h; [|exact Fr]. intros j Hj. apply Or. apply kfbs_in_ids. exact Hj. }
    assert (Hic : ~ In i (ids c)) by (intro; apply Hni; apply in_or_app; right; apply in_or_app; left; assumption).
    assert (Hi1 : fb h1 i = fb h i) by (apply Fr1; exact Hic).
    assert (Htc : In (tid c) (ids c)) by apply tid_in_ids.
    destruct (d_first r) eqn:Edf.
    + (* the first leaf below c went away; c is an interior node *)
      destruct Cases as (f & restc & kids' & Et' & Elc & Ekl & Nf & Crc & Fbc & Fkk & Lkk).
      assert (Hlf' : is_leaf c' = false) by (rewrite Et'; reflexivity).
      rewrite Hlf'. replace (if negb (tsize c' =? 0) then _ else _) with
        (match prev with Some p => del_next h1 (last_leaf_id V p) | None => set_fb h1 i (fb h1 (tid c')) end)
        by (destruct (negb (tsize c' =? 0)); reflexivity).
      assert (Hf_in : In f (ids c)) by (apply lids_in_ids; rewrite Elc; left; reflexivity).
      assert (Hrc_in : forall x, In x restc -> In x (ids c)) by (intros; apply lids_in_ids; rewrite Elc; right; assumption).
      (* the new child list, in both size cases *)
      assert (Hl' : klids l' = restc ++ klids rest /\
                    (forall s0 c0, In (s0, c0) l' -> lne c0) /\
                    (forall hh, fbs_ok hh (kfbs kids') -> fbs_ok hh (kfbs rest) ->
                                fb hh (tid c) = hd_or restc afc -> fbs_ok hh (kfbs l')) /\
                    (tsize c' =? 0 = false -> l' <> [])).
      { destruct F5 as [(Ez & s' & -> & _)|(Ez & -> & _)].
        - assert (Hk' : kids' <> []) by (rewrite Et' in Ez; simpl in Ez; destruct kids'; [discriminate | discriminate]).
          assert (Hr' : restc <> []).
          { rewrite <- Ekl. destruct kids' as [|[s1 c1] k1]; [congruence|]. apply klids_ne_hd. eapply Lkk. left. reflexivity. }
          split; [rewrite klids_cons, Et', leaf_ids_Node, Ekl; reflexivity|].
          split.
          { intros s0 c0 [E|Hin]; [|eapply Lr; eassumption]. inversion E; subst c0. rewrite Et'.
            apply lne_Node; [rewrite Ekl; exact Hr' | exact Lkk]. }
          split; [|discriminate].
          intros hh A B C. rewrite kfbs_cons, Et', fbs_Node. apply fbs_ok_app. split; [|exact B].
          constructor; [|exact A]. cbn [fst snd]. rewrite C, Ekl. apply hd_or_ne. exact Hr'.
        - assert (Hk' : kids' = []) by (rewrite Et' in Ez; simpl in Ez; destruct kids'; [reflexivity | discriminate]).
          subst kids'. simpl in Ekl. subst restc.
          split; [reflexivity|]. split; [exact Lr|]. split; [auto | congruence]. }
      destruct Hl' as (Ekl' & Ll' & Fl' & Hne').
      destruct prev as [p|].
      * (* not the node's first child: the tree to the left unlinks *)
        subst fg. destruct (Hp p eq_refl) as [Lpn _].
        destruct (last_split (lids p) (lne_self _ Lpn)) as [A EA].
        rewrite <- (last_leaf_lne p Lpn) in EA. set (z := last_leaf_id V p) in *.
        simpl Lp_of in *. simpl Ip_of in *.
        assert (Hz : In z (ids p)) by (apply lids_in_ids; rewrite EA; apply in_or_app; right; left; reflexivity).
        assert (HzA : ~ In z A).
        { pose proof (lids_NoDup V p NDp) as N. rewrite EA in N. intro Hin.
          eapply NoDup_app_disj; [exact N | exact Hin | left; reflexivity]. }
        assert (Hzc : forall x, In x (ids c ++ kids_ids rest) -> z <> x) by (intros x Hx E; subst; eapply Disp; eassumption).
        assert (Hall : chain_from h1 (A ++ [z] ++ f :: (restc ++ klids rest)) after).
        { rewrite app_assoc, <- EA. apply chain_app. split; [rewrite Elc in Cp1; exact Cp1|].
          simpl. split; [rewrite hd_or_app; exact Nf|]. apply chain_app. split; assumption. }
        destruct (unlink_chain h1 A z f (restc ++ klids rest) after HzA) as (U1 & U2 & U3); [| |exact Hall|].
        { apply Hzc. apply in_or_app. left. exact Hf_in. }
        { intro Hin. apply in_app_or in Hin. destruct Hin as [Hin|Hin].
          - apply (Hzc z); [apply in_or_app; left; apply Hrc_in; exact Hin | reflexivity].
          - apply (Hzc z); [apply in_or_app; right; apply klids_in_ids; exact Hin | reflexivity]. }
        unfold go_post. cbn [Ip_of Lp_of].
        split.
        { intros j Hj. rewrite U2 by (intro E0; subst j; apply Hj; apply in_or_app; left; exact Hz).
          apply Fr1. intro. apply Hj. apply in_or_app. right. apply in_or_app. left. assumption. }
        split.
        { intros j _ Hj. rewrite U3. apply Fr1. intro. apply Hj. apply in_or_app. left. assumption. }
        split; [exact Ll'|].
        split.
        { apply Fl'; [apply fbs_ext with h1; [intros; apply U3 | exact Fkk]
                     | apply fbs_ext with h1; [intros; apply U3 | exact Fr_1] | rewrite U3; exact Fbc]. }
        split; [|split; [rewrite U3; exact Hi1 | discriminate]].
        rewrite Ekl', EA, <- app_assoc. exact U1.
      * (* the node's first child: firstbucket moves on, the caller unlinks *)
        assert (Efg : fg = true) by (rewrite F2; unfold gone; rewrite Edf; reflexivity). clear F2. subst fg.
        rewrite Tid, Fbc. set (h' := set_fb h1 i (hd_or restc afc)).
        assert (Hti : tid c <> i) by (intro E; apply Hic; rewrite <- E; exact Htc).
        destruct (del_ids V c k r Et) as [Hsl _]. fold c' in Hsl.
        unfold go_post. cbn [Ip_of Lp_of app].
        split; [intros j Hj; unfold h'; rewrite nx_set_fb; apply Fr1; intro; apply Hj; apply in_or_app; left; assumption|].
        split.
        { intros j Hji Hj. unfold h'. rewrite fb_set_fb_other by exact Hji.
          apply Fr1. intro. apply Hj. apply in_or_app. left. assumption. }
        split; [exact Ll'|].
        split.
        { apply Fl'.
          - apply fbs_ext with h1; [|exact Fkk]. intros j Hj. apply fb_set_fb_other. intro E. subst j.
            apply Hic. apply (sl_in _ _ _ Hsl). rewrite Et', ids_Node. right. apply kfbs_in_ids. exact Hj.
          - apply fbs_ext with h1; [|exact Fr_1]. intros j Hj. apply fb_set_fb_other. intro E. subst j.
            apply Hni. apply in_or_app. right. apply in_or_app. right. apply kfbs_in_ids. exact Hj.
          - unfold h'. rewrite fb_set_fb_other by exact Hti. exact Fbc. }
        split; [reflexivity|]. exists f, (restc ++ klids rest).
        split; [rewrite klids_cons, Elc; reflexivity|]. split; [exact Ekl'|].
        split; [unfold h'; rewrite nx_set_fb, hd_or_app; exact Nf|].
        split.
        { apply chain_ext with h1; [intros; reflexivity|]. apply chain_app. split; assumption. }
        unfold h'. rewrite fb_set_fb_same, hd_or_app. reflexivity.
    + (* the first leaf below c is still there *)
      destruct Cases as (Sok & Hd & Lc').
      destruct F5 as [(Ez & s' & -> & _)|(Ez & -> & _)].
      * rewrite Ez. cbn [negb].
        assert (Efg : fg = false).
        { rewrite F2. unfold gone. rewrite Edf. fold c'. rewrite Ez, andb_false_r. destruct prev; reflexivity. }
        clear F2. subst fg. destruct Sok as [Sc Sf].
        unfold go_post.
        split; [intros j Hj; apply Fr1; intro; apply Hj; apply in_or_app; right; apply in_or_app; left; assumption|].
        split; [intros j _ Hj; apply Fr1; intro; apply Hj; apply in_or_app; left; assumption|].
        split; [intros s0 c0 [E|Hin]; [inversion E; subst; exact Lc' | eapply Lr; eassumption]|].
        split; [rewrite kfbs_cons; apply fbs_ok_app; split; assumption|].
        split; [|split; [exact Hi1|]].
        { rewrite klids_cons. apply chain_app. split.
          - rewrite hd_or_app, Hd, <- hd_or_app. exact Cp1.
          - apply chain_app. split; assumption. }
        intros _. split; [|discriminate]. intros x. rewrite !klids_cons, !hd_or_app. apply Hd.
      * (* a bucket child became empty: unlink it *)
        rewrite Ez. cbn [negb].
        destruct c' as [j l0|j kk] eqn:Ec'.
        2:{ exfalso. simpl in Ez. destruct kk; [|discriminate]. apply (lne_self _ Lc'). reflexivity. }
        destruct c as [jc lc|jc kc]; [|discriminate Tlf]. simpl in Tid. subst j.
        apply sub_ok_Leaf in Sok. simpl RTree.is_leaf. cbv iota. simpl RTree.tid.
        rewrite lids_Leaf in Cp1. simpl in Htc.
        destruct prev as [p|].
        -- subst fg. destruct (Hp p eq_refl) as [_ Kp]. simpl in Kc. rewrite <- Kc in Kp.
           destruct p as [jp lp|jp kp]; [|discriminate Kp]. simpl RTree.tid. simpl Lp_of in *. simpl Ip_of in *.
           assert (Hpc : jp <> jc).
           { intro E. apply (Disp jp); [left; reflexivity | apply in_or_app; left; left; symmetry; exact E]. }
           assert (Hpr : ~ In jp (klids rest)).
           { intro Hin. apply (Disp jp); [left; reflexivity | apply in_or_app; right; apply klids_in_ids; exact Hin]. }
           assert (Hall : chain_from h1 ([] ++ [jp] ++ jc :: klids rest) after).
           { simpl. simpl in Cp1. destruct Cp1 as [Cp1 _]. split; [exact Cp1|]. split; [exact Sok | exact Cr1]. }
           destruct (unlink_chain h1 [] jp jc (klids rest) after (fun x => x) Hpc Hpr Hall) as (U1 & U2 & U3).
           unfold go_post. cbn [Ip_of Lp_of].
           split.
           { intros j Hj. rewrite U2 by (intro E0; subst j; apply Hj; left; reflexivity).
             apply Fr1. intro. apply Hj. apply in_or_app. right. apply in_or_app. left. assumption. }
           split; [intros j _ Hj; rewrite U3; apply Fr1; intro; apply Hj; apply in_or_app; left; assumption|].
           split; [exact Lr|].
           split; [apply fbs_ext with h1; [intros; apply U3 | exact Fr_1]|].
           split; [exact U1|]. split; [rewrite U3; exact Hi1 | discriminate].
        -- assert (Efg : fg = true) by (rewrite F2; unfold gone; rewrite Edf; fold c'; rewrite Ec', Ez; reflexivity).
           clear F2. subst fg. rewrite Sok. set (h' := set_fb h1 i afc).
           unfold go_post. cbn [Ip_of Lp_of app].
           split; [intros j Hj; unfold h'; rewrite nx_set_fb; apply Fr1; intro; apply Hj; apply in_or_app; left; assumption|].
           split.
           { intros j Hji Hj. unfold h'. rewrite fb_set_fb_other by exact Hji.
             apply Fr1. intro. apply Hj. apply in_or_app. left. assumption. }
           split; [exact Lr|].
           split.
           { apply fbs_ext with h1; [|exact Fr_1]. intros j Hj. apply fb_set_fb_other. intro E. subst j.
             apply Hni. apply in_or_app. right. apply in_or_app. right. apply kfbs_in_ids. exact Hj. }
           split; [reflexivity|]. exists jc, (klids rest).
           split; [reflexivity|]. split; [reflexivity|].
           split; [unfold h'; rewrite nx_set_fb; exact Sok|].
           split; [apply chain_ext with h1; [intros; reflexivity | exact Cr1]|].
           unfold h'. rewrite fb_set_fb_same. reflexivity.
  - cbn [TreeDelProofs.del_go] in H. rewrite Ch in H.
    destruct (del_go i single k (Some c) false rest) as [[[[l2 v2] ev2] fg2]|] eqn:Er; [|discriminate H].
    injection H as E1 E2 E3 E4. subst l' v2 ev2 fg2.
    assert (NDcr : NoDup (ids c ++ kids_ids rest)).
    { apply NoDup_app_intro; [exact NDc | exact NDr | exact Disc]. }
    assert (Hni' : ~ In i (ids c ++ kids_ids rest)) by (intro; apply Hni; apply in_or_app; right; assumption).
    assert (Hl' : forall s0 c0, In (s0, c0) rest -> lne c0 /\ uk c0 /\ is_leaf c0 = lf)
      by (intros s0 c0 Hin; apply (Hl s0 c0); right; exact Hin).
    assert (Hp' : forall p, Some c = Some p -> lne p /\ is_leaf p = lf)
      by (intros p E; injection E as E; rewrite <- E; split; [exact Lc | exact Kc]).
    assert (Hch' : chain_from h (Lp_of (Some c) ++ klids rest) after) by (simpl; apply chain_app; split; assumption).
    pose proof (IHr h i single (Some c) false after lf l2 v ev fg NDcr Hni' Hl' Hp' Hch' Fr Er) as G.
    set (h' := pdel_go h i k (Some c) rest) in *.
    destruct G as (N1 & N2 & N3 & N4 & N5). simpl Ip_of in N1. simpl Lp_of in N5.
    destruct fg; [destruct N5 as [E _]; discriminate E|].
    destruct N5 as (Cq & Fi & _).
    assert (Hlc : lids c <> []) by (apply lne_self; exact Lc).
    unfold go_post.
    split; [intros j Hj; apply N1; intro; apply Hj; apply in_or_app; right; assumption|].
    split; [intros j Hji Hj; apply N2; [exact Hji | intro; apply Hj; apply in_or_app; right; assumption]|].
    split; [intros s0 c0 [E|Hin]; [inversion E; subst; exact Lc | eapply N3; eassumption]|].
    split.
    { rewrite kfbs_cons. apply fbs_ok_app. split; [|exact N4].
      apply fbs_ext with h; [|exact Fc]. intros j Hj. apply fbs_in_ids in Hj. apply N2.
      - intro E. subst j. apply Hni. apply in_or_app. right. apply in_or_app. left. exact Hj.
      - intro Hj'. apply (Disc j Hj Hj'). }
    split; [|split; [exact Fi|]].
    { rewrite klids_cons. apply chain_app. split; [|exact Cq].
      rewrite hd_or_app, (hd_or_ne _ _ (hd_or (klids rest) after) Hlc), <- hd_or_app.
      apply chain_ext with h; [|exact Cp]. intros j Hj. apply N1. intro Hj'.
      apply (Disp j); [apply Lp_in_Ip; exact Hj | exact Hj']. }
    intros _. split; [|discriminate]. intros x. rewrite !klids_cons, !hd_or_app.
    apply hd_or_ne. exact Hlc.
Qed.

Lemma Pdel_all : forall t, Pdel t.
Proof.
  induction t as [i l|i kids IH] using (tree_ind' V); intros h k r after ND Hl Hu Hok Hd h' t'.
  - rewrite tdel_Leaf in Hd. destruct (ldel V l k) as [[l0 v]|]; [|discriminate Hd].
    injection Hd as <-. unfold h', t'. simpl.
    split; [auto|]. split; [reflexivity|]. split; [reflexivity|].
    split; [exact Hok|]. split; [reflexivity | apply lne_Leaf].
  - unfold h', t'. clear h' t'. rewrite pdel_Node. rewrite tdel_Node in Hd.
    destruct (del_go i (length kids =? 1) k None true kids) as [[[[l' v] ev] fg]|] eqn:Eg; [|discriminate Hd].
    injection Hd as <-. cbn [d_tree d_first].
    apply sub_ok_Node in Hok. destruct Hok as (Hch & Hfi & Hfb).
    rewrite ids_Node in ND. inversion ND as [|? ? Hni NDk]; subst.
    destruct (Hu i kids (subs_self V _)) as [lf Hlf].
    assert (Hk : forall s c, In (s, c) kids -> lne c /\ uk c /\ is_leaf c = lf).
    { intros s c Hin. split; [eapply lne_child; eassumption|]. split; [eapply uk_child; eassumption|].
      rewrite Forall_forall in Hlf. apply (Hlf (s, c) Hin). }
    pose proof (pdel_go_ok k kids IH h i (length kids =? 1) None true after lf l' v ev fg
                  NDk Hni Hk (fun p E => ltac:(discriminate E)) Hch Hfb Eg) as G.
    set (h' := pdel_go h i k None kids) in *.
    destruct G as (N1 & N2 & N3 & N4 & N5). simpl Ip_of in N1.
    split.
    { intros j Hj. rewrite ids_Node in Hj. split.
      - apply N1. intro. apply Hj. right. assumption.
      - apply N2; [intro; apply Hj; left; congruence | intro; apply Hj; right; assumption]. }
    split; [reflexivity|]. split; [reflexivity|].
    destruct fg.
    + destruct N5 as (_ & f & rest & E1 & E2 & E3 & E4 & E5).
      exists f, rest, l'. simpl RTree.tid. rewrite leaf_ids_Node. auto 10.
    + destruct N5 as (Cq & Fi & Hh). destruct (Hh eq_refl) as [Hhd Hne]. simpl Lp_of in Cq.
      assert (Hk' : klids l' <> []).
      { destruct l' as [|[s1 c1] r1]; [congruence|]. apply klids_ne_hd. eapply N3. left. reflexivity. }
      split; [|split].
      * apply sub_ok_Node. split; [exact Cq|]. split; [|exact N4]. rewrite Fi, Hfi. symmetry. apply Hhd.
      * intros x. rewrite !leaf_ids_Node. apply Hhd.
      * apply lne_Node; assumption.
Qed.

(* ================================================================== *)
(* 6. whole trees                                                      *)
(* ================================================================== *)
Notation chain_ok := (Chain.chain_ok V).

(* every tree the API produces has no empty interior node and children of one kind *)
Lemma WFkids_kind : forall lf d first lo hi l s c,
  TreeBase.WFkids V ml mi lf d first lo hi l -> In (s, c) l -> is_leaf c = lf.
Proof.
  intros lf d first lo hi l s c. revert first lo.
  induction l as [|[s0 c0] r IH]; intros first lo H Hin; [contradiction|].
  apply WFkids_inv in H. destruct H as (_ & Hk & _ & _ & _ & Hr).
  destruct Hin as [E|Hin]; [injection E as _ E2; rewrite <- E2; exact Hk | eapply IH; eassumption].
Qed.

Lemma WFbody_uk : forall t lo hi, TreeBase.WFbody V ml mi lo hi t -> uk t.
Proof.
  induction t as [i l|i kids IH] using (tree_ind' V); intros lo hi W j kk Hn.
  - destruct Hn as [E|[]]. discriminate E.
  - apply WFbody_Node_inv in W. destruct W as (lf & d & W).
    rewrite subs_Node in Hn. destruct Hn as [E|Hn].
    + inversion E; subst. exists lf. rewrite Forall_forall. intros [s c] Hin. simpl.
      eapply WFkids_kind; eassumption.
    + unfold ksubs in Hn. apply in_flat_map in Hn. destruct Hn as ([s c] & Hin & Hn). simpl in Hn.
      destruct (WFkids_child V ml mi _ _ _ _ _ _ _ _ W Hin) as (_ & lo' & hi' & Wc).
      rewrite Forall_forall in IH. exact (IH _ Hin lo' hi' Wc j kk Hn).
Qed.

Lemma chain_succ : forall h l, NoDup l -> chain_from h l None -> forall x, In x l -> nx h x = succ_of l x.
Proof.
  induction l as [|a r IH]; intros ND H x Hx; [contradiction|].
  simpl in H. destruct H as [H1 H2]. inversion ND; subst. simpl.
  destruct (Nat.eqb a x) eqn:E.
  - apply Nat.eqb_eq in E. subst x. rewrite H1. destruct r; reflexivity.
  - destruct Hx as [Hx|Hx]; [apply Nat.eqb_neq in E; congruence|]. apply IH; assumption.
Qed.

Lemma first_leaf_hd : forall t, lne t -> first_leaf V t = hd_or (lids t) None.
Proof.
  induction t as [i l|i kids IH] using (tree_ind' V); intros H; [reflexivity|].
  destruct kids as [|[s c] r]; [reflexivity|].
  assert (Lc : lne c) by (eapply lne_child; [exact H | left; reflexivity]).
  inversion IH; subst. simpl in H2. simpl first_leaf. rewrite (H2 Lc).
  rewrite leaf_ids_Node, klids_cons, hd_or_app. apply hd_or_ne. apply lne_self. exact Lc.
Qed.

Lemma walk_None : forall f h, walk f h None = [].
Proof. destruct f; reflexivity. Qed.

Lemma walk_ok : forall h i kids, chain_ok h (Node i kids) ->
  walk_tree V h (Node i kids) = lids (Node i kids).
Proof.
  intros h i kids H. apply sub_ok_Node in H. destruct H as (Hc & Hf & _).
  unfold walk_tree. simpl RTree.tid. rewrite Hf, leaf_ids_Node.
  rewrite (walk_chain h (klids kids) None Hc).
  - destruct (klids kids); [reflexivity|]. rewrite walk_None, app_nil_r. reflexivity.
  - pose proof (sl_length _ _ (sl_leaf_ids V (Node i kids))) as L. rewrite leaf_ids_Node in L. lia.
Qed.

End CP.

(* ================================================================== *)
(* 7. theorems on trees satisfying Inv, and on histories               *)
(* ================================================================== *)
Section Top.
Variable V : Type.
Variable veq : V -> V -> bool.
Variable vs : bool.
Variables ml mi : nat.
Hypothesis Hml : 1 <= ml.
Hypothesis Hmi : 2 <= mi.

Lemma Inv_facts : forall t, Inv V ml mi t ->
  exists i kids, t = Node i kids /\ (kids = [] \/ (lne V t /\ uk V t)).
Proof.
  intros t HI. destruct (Inv_inv _ _ _ _ HI) as (i & kids & -> & [->|[Hlen Wt]]).
  - exists i, []. auto.
  - exists i, kids. split; [reflexivity|]. right. split.
    + apply (pne_lne V mi); [lia|]. intros z Hz.
      pose proof (WFbody_szb V ml mi _ _ _ Wt) as Hszb.
      apply subs_inv in Hz. destruct Hz as [->|Hz]; [simpl; lia|].
      specialize (Hszb z Hz). unfold TreeBase.size_ok in Hszb. lia.
    + eapply WFbody_uk. exact Wt.
Qed.

Theorem chain_set : forall fresh (t : tree V) k v iu h,
  Inv V ml mi t -> ids_ok V fresh t -> chain_ok V h t ->
  chain_ok V (pset V veq vs ml mi h fresh t k v iu) (s_tree (tset V veq vs ml mi fresh t k v iu)).
Proof.
  intros fresh t k v iu h HI [ND Hlt] Hok.
  destruct (Inv_facts t HI) as (i & kids & -> & [->|[Hl _]]).
  - simpl. unfold Chain.chain_ok, Chain.sub_ok, fbs_ok. simpl.
    split; [split; [|exact I]|].
    + rewrite Nat.eqb_refl. reflexivity.
    + constructor; [|constructor]. simpl. rewrite Nat.eqb_refl. reflexivity.
  - assert (H1 : 1 <= mi) by lia.
    destruct (Pset_all V veq vs ml mi H1 (Node i kids) h fresh k v iu None ND Hlt Hl Hok) as (A & _). exact A.
Qed.

Theorem chain_del : forall (t : tree V) k r h,
  Inv V ml mi t -> NoDup (ids V t) -> chain_ok V h t -> tdel V t k = Some r ->
  chain_ok V (pdel V h t k) (d_tree r).
Proof.
  intros t k r h HI ND Hok Hd.
  destruct (Inv_facts t HI) as (i & kids & -> & [->|[Hl Hu]]); [discriminate Hd|].
  destruct (Pdel_all V (Node i kids) h k r None ND Hl Hu Hok Hd) as (_ & Tid & _ & Cases).
  destruct (d_first r).
  - destruct Cases as (f & rest & kids' & -> & E1 & E2 & E3 & E4 & E5 & E6 & _).
    apply sub_ok_Node. rewrite E2. split; [exact E4|]. split; [|exact E6].
    exact E5.
  - tauto.
Qed.

Theorem chain_clear : forall (t : tree V) h,
  Inv V ml mi t -> chain_ok V h t -> chain_ok V (pclear V h t) (fst (tclear V t)).
Proof.
  intros t h HI Hok. destruct (Inv_inv _ _ _ _ HI) as (i & kids & -> & _).
  assert (G : chain_ok V (pclear V h (Node i kids)) (Node i [])).
  { unfold pclear. simpl. apply sub_ok_Node. simpl. split; [exact I|]. split; [apply fb_set_fb_same | constructor]. }
  destruct kids; exact G.
Qed.

(* the pointers are what Persist.getstate assumes them to be *)
Theorem chain_is_getstate_view : forall (t : tree V) h,
  Inv V ml mi t -> NoDup (ids V t) -> chain_ok V h t ->
  (forall x, In x (leaf_ids V t) -> nx h x = succ_of (leaf_ids V t) x) /\
  fb h (tid V t) = first_leaf V t /\
  walk_tree V h t = leaf_ids V t.
Proof.
  intros t h HI ND Hok. destruct (Inv_facts t HI) as (i & kids & -> & Hk).
  split; [|split].
  - destruct Hok as [Hc _]. apply chain_succ; [apply lids_NoDup; exact ND | exact Hc].
  - destruct Hk as [->|[Hl _]].
    + destruct Hok as [_ Hf]. inversion Hf; subst. simpl in H1. exact H1.
    + rewrite (first_leaf_hd V _ Hl). destruct Hok as [_ Hf]. inversion Hf; subst. exact H1.
  - apply (walk_ok V mi); [lia | exact Hok].
Qed.
End Top.

(* ---------- every history of primitive writes ---------- *)
Section Hist.
Variable vs : bool.
Variables ml mi : nat.
Hypothesis Hml : 1 <= ml.
Hypothesis Hmi : 2 <= mi.

Definition pst_ok (s : pst) : Prop :=
  Inv Z ml mi (p_tree s) /\ ids_ok Z (p_fresh s) (p_tree s) /\ chain_ok Z (p_heap s) (p_tree s).

Lemma prim_step_ok : forall s p, pst_ok s -> pst_ok (prim_step vs ml mi s p).
Proof.
  intros s p (HI & Hid & Hc). destruct p as [k v iu|k|]; simpl.
  - destruct (set_ids_ok Z Z.eqb vs ml mi (p_fresh s) (p_tree s) k v iu Hid) as (Hid' & _ & _).
    split; [apply inv_tset; assumption|]. split; [exact Hid'|]. apply chain_set; assumption.
  - destruct (tdel Z (p_tree s) k) as [r|] eqn:Ed; [|exact (conj HI (conj Hid Hc))].
    destruct (del_ids_ok Z (p_fresh s) (p_tree s) k r Hid Ed) as (Hid' & _). simpl.
    split; [eapply inv_tdel; eassumption|]. split; [exact Hid'|].
    apply (chain_del Z ml mi Hml Hmi); try assumption. destruct Hid. assumption.
  - destruct (tsize Z (p_tree s)) eqn:Ez; [exact (conj HI (conj Hid Hc))|]. simpl.
    destruct (Inv_inv _ _ _ _ HI) as (i & kids & E & _). rewrite E in *.
    assert (Et : fst (tclear Z (Node i kids)) = Node i []) by (destruct kids; reflexivity).
    split; [rewrite Et; apply Inv_Node_nil|]. split.
    + rewrite Et. destruct Hid as [ND Hlt]. rewrite ids_Node in ND, Hlt. split.
      * simpl. constructor; [intros []|constructor].
      * simpl. constructor; [exact (Forall_inv Hlt)|constructor].
    + apply (chain_clear Z ml mi); assumption.
Qed.

Theorem chain_reachable : forall ps,
  pst_ok (prim_run vs ml mi pinit ps).
Proof.
  intros ps. unfold prim_run.
  assert (G : forall s, pst_ok s -> pst_ok (fold_left (prim_step vs ml mi) ps s)).
  { induction ps as [|p r IH]; intros s Hs; [exact Hs|]. simpl. apply IH. apply prim_step_ok. exact Hs. }
  apply G. unfold pinit, pst_ok. simpl. split; [apply Inv_Node_nil|]. split.
  - split; simpl; [constructor; [intros []|constructor] | constructor; [lia|constructor]].
  - unfold Chain.chain_ok, Chain.sub_ok, fbs_ok. simpl. split; [exact I|]. constructor; [reflexivity|constructor].
Qed.
End Hist.
