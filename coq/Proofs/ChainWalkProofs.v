(* ChainWalkProofs -- the pointer walks of the range machinery are positions in
   the in-order leaf sequence: `current->next` is position + 1,
   PreviousBucket is position - 1, BTree_lastBucket is the last position and
   firstbucket position 0.  Model/Range.v works with positions; these lemmas
   are what justifies it on every heap that realises the tree.  No axioms. *)
From Coq Require Import ZArith List Bool Arith Lia.
From BT Require Import Model.RTree Model.TreeSpec Model.Persist Model.PersistSpec Model.Chain
                       Proofs.TreeBase Proofs.StoreProofs Proofs.FootprintProofs Proofs.ChainProofs.
Import ListNotations.
Local Open Scope nat_scope.

Lemma chain_next_pos : forall h l after j x,
  chain_from h l after -> nth_error l j = Some x ->
  nx h x = match nth_error l (S j) with Some y => Some y | None => after end.
Proof.
  induction l as [|a r IH]; intros after j x H Hj; [destruct j; discriminate|].
  simpl in H. destruct H as [H1 H2]. destruct j as [|j].
  - simpl in Hj. injection Hj as <-. rewrite H1. destruct r; reflexivity.
  - simpl in Hj. simpl. exact (IH after j x H2 Hj).
Qed.

Lemma last_cons_ne : forall (a : nat) l d, l <> [] -> last (a :: l) d = last l a.
Proof.
  intros a l. revert a. induction l as [|b l IH]; intros a d H; [congruence|].
  destruct l as [|c l']; [reflexivity|].
  change (last (a :: b :: c :: l') d) with (last (b :: c :: l') d).
  rewrite (IH b d) by discriminate. rewrite (IH b a) by discriminate. reflexivity.
Qed.

Lemma prev_loop_pos : forall h r after t c p B,
  NoDup (t :: r) -> chain_from h (t :: r) after ->
  r = p ++ c :: B -> 
  prev_loop (S (length r)) h t c = Some (last p t).
Proof.
  intros h r. induction r as [|a r IH]; intros after t c p B ND H E.
  - destruct p; discriminate.
  - simpl in H. destruct H as [H1 H2]. cbn [prev_loop]. rewrite H1. simpl hd_or.
    destruct p as [|p0 p'].
    + simpl in E. injection E as -> ->. rewrite Nat.eqb_refl. reflexivity.
    + simpl in E. injection E as E1 E2. subst a.
      assert (ND' : NoDup (p0 :: r)) by (inversion ND; assumption).
      assert (Hne : (p0 =? c) = false).
      { apply Nat.eqb_neq. intro Ec. subst c. inversion ND' as [|? ? Hn _]. apply Hn. rewrite E2.
        apply in_or_app. right. left. reflexivity. }
      rewrite Hne. cbn [length].
      rewrite (IH after p0 c p' B ND' H2 E2).
      destruct p'; [reflexivity|]. f_equal. symmetry. apply (last_cons_ne p0 (n :: p') t). discriminate.
Qed.

Section CW.
Variable V : Type.
Variables ml mi : nat.
Hypothesis Hml : 1 <= ml.
Hypothesis Hmi : 2 <= mi.
Notation lids := (leaf_ids V).

Theorem pointer_walks_are_positions : forall (t : tree V) (h : heap),
  Inv V ml mi t -> NoDup (ids V t) -> chain_ok V h t ->
  let l := lids t in
  (* firstbucket: position 0 *)
  fb h (tid V t) = nth_error l 0 /\
  (* current->next: position + 1, NULL behind the last *)
  (forall j x, nth_error l j = Some x -> nx h x = nth_error l (S j)) /\
  (* PreviousBucket(current, firstbucket): position - 1; "no previous" at position 0 *)
  (forall j x y f, nth_error l 0 = Some f -> nth_error l j = Some x -> nth_error l (S j) = Some y ->
                   prev_bucket (length l) h f y = Some x) /\
  (forall f, nth_error l 0 = Some f -> prev_bucket (length l) h f f = None) /\
  (* BTree_lastBucket: the last position *)
  (l <> [] -> nth_error l (length l - 1) = Some (last_leaf_id V t)).
Proof.
  intros t h HI ND Hok l.
  destruct (chain_is_getstate_view V ml mi Hml Hmi t h HI ND Hok) as (_ & Hfb & _).
  destruct (Inv_facts V ml mi Hml Hmi t HI) as (i & kids & -> & Hk).
  assert (NDl : NoDup l) by (apply lids_NoDup; exact ND).
  destruct Hok as [Hc Hf]. fold l in Hc.
  split; [|split; [|split; [|split]]].
  - inversion Hf; subst. simpl in H1. simpl RTree.tid. rewrite H1. fold l. destruct l; reflexivity.
  - intros j x Hj. rewrite (chain_next_pos h l None j x Hc Hj). destruct (nth_error l (S j)); reflexivity.
  - intros j x y f H0 Hj HSj. unfold prev_bucket.
    destruct l as [|f0 r] eqn:El; [discriminate H0|]. simpl in H0. injection H0 as ->.
    assert (Hfy : (f =? y) = false).
    { apply Nat.eqb_neq. intro. subst y. simpl in HSj. apply nth_error_In in HSj.
      inversion NDl; subst. contradiction. }
    rewrite Hfy. simpl in HSj.
    destruct (nth_error_split r j HSj) as (p & B & Er & Hlen).
    simpl length. rewrite (prev_loop_pos h r None f y p B NDl Hc Er). f_equal.
    destruct j as [|j].
    + simpl in Hj. injection Hj as <-. destruct p; [reflexivity | discriminate Hlen].
    + simpl in Hj. subst r. rewrite nth_error_app1 in Hj by lia.
      destruct (exists_last (l := p)) as (p' & z & ->); [intro; subst; discriminate Hlen|].
      rewrite last_last. rewrite app_length in Hlen. simpl in Hlen.
      rewrite nth_error_app2 in Hj by lia. replace (j - length p') with 0 in Hj by lia.
      simpl in Hj. congruence.
  - intros f H0. unfold prev_bucket. rewrite Nat.eqb_refl. reflexivity.
  - intros Hne. destruct Hk as [->|[Hl _]]; [exfalso; apply Hne; reflexivity|].
    rewrite (last_leaf_lne V _ Hl). fold l.
    destruct (exists_last Hne) as (p & z & E). rewrite E, last_last, app_length. simpl.
    rewrite nth_error_app2 by lia. replace (length p + 1 - 1 - length p) with 0 by lia. reflexivity.
Qed.
End CW.
